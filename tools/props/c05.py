"""C05 - tap-hold resolves every press to exactly one of tap / hold / timeout, on time."""
from props.common import *

VARIANTS = {
    "default": "tap-hold", "press": "tap-hold-press", "release": "tap-hold-release",
    "press-timeout": "tap-hold-press-timeout", "release-timeout": "tap-hold-release-timeout",
    "release-keys": "tap-hold-release-keys", "except-keys": "tap-hold-except-keys",
}
K = lambda k: {"t": "key", "k": k}


def make(variant, H, W, conc, red, keys=("a", "b", "c")):
    th = {"t": "th", "variant": VARIANTS[variant], "tt": W, "ht": H, "tap": K("x"), "hold": K("lsft")}
    if variant.endswith("-timeout"):
        th["timeout"] = K("lctl")
    if variant.endswith("-keys"):
        th["keys"] = ["b"]
    outs = {"b": "y", "c": "z"}
    layer = {"a": th}
    for k in keys[1:]:
        layer[k] = K(outs[k])
    desc = {"keys": list(keys), "layers": [layer],
            "defcfg": {"rapid-event-delay": red, "concurrent-tap-hold": "yes" if conc else "no"}}
    params = {"k": cfgdesc.code("a"), "H": H, "W": W, "variant": variant,
              "tapK": cfgdesc.code("x"), "holdK": cfgdesc.code("lsft"),
              "toK": cfgdesc.code("lctl") if variant.endswith("-timeout") else cfgdesc.code("lsft"),
              "listed": [cfgdesc.code("b")] if variant.endswith("-keys") else [],
              "others": [{"c": cfgdesc.code(k), "o": cfgdesc.code(outs[k])} for k in keys[1:]],
              "cq": 1 if conc else 0, "red": red}
    custom = []
    if variant == "release-keys":
        custom = [("release-keys", [cfgdesc.code("b")])]
    if variant == "except-keys":
        custom = [("except-keys", [cfgdesc.code("b")])]
    return desc, params, custom


def family(tier):
    F = []
    if tier == "quick":
        combos = [("default", 3, 0, False, 1), ("default", 2, 2, True, 1), ("press", 3, 0, False, 1),
                  ("release", 3, 0, True, 1), ("press-timeout", 2, 0, False, 2), ("release-timeout", 3, 0, False, 1),
                  ("release-keys", 3, 0, False, 1), ("except-keys", 2, 0, False, 1)]
    else:
        combos = [(v, H, W, c, r) for v in VARIANTS for H in (2, 3) for W in (0, 2) for c in (False, True)
                  for r in ((1,) if (H, W) != (3, 0) else (1, 5))]
    for (v, H, W, c, r) in combos:
        # except-keys may stay undecided for ever (large age counters): two keys keep the graph small
        keys = ("a", "b") if v == "except-keys" else ("a", "b", "c")
        F.append(("%s_H%d_W%d_%s_r%d" % (v.replace("-", ""), H, W, "cq" if c else "nq", r), make(v, H, W, c, r, keys)))
    return F


def th_history(rng, keys, H, n):
    """random schedule with gaps drawn around the hold timeout"""
    return rand_history(rng, keys, n, [0, 1, 1, max(H - 1, 0), H, H + 1, H + 4], tail=40)


def run(tier, seed):
    pid = "C05"
    res = flow.Result(pid, tier, seed)
    rng = random.Random(seed)
    wd = workdir("c05")
    jobs_random, witness_jobs = [], []
    for name, (desc, params, custom) in family(tier):
        kbd = cfgdesc.render_kbd(desc)
        keys = [cfgdesc.code(k) for k in desc["keys"]]
        inst = {"name": "c05_" + name, "kbd": kbd, "keys": keys, "qmax": 3, "custom_th": custom,
                "monitor": {"module": "P_C05", "params": params}}
        if params["variant"] == "except-keys":
            # the key may stay undecided for ever: bound the age counters of the model (state constraint)
            inst["caps"] = {"since": 3 * (params["H"] + params["red"] + 2)}
        r = mc.check_instance(inst, wd, workers=12, timeout=1200)
        res.add_instance(r)
        if len(res.samples) < 3:
            res.samples.append({"instance": name, "kbd": kbd, "states": r["states"], "edges": r.get("edges")})
        ws = flow.witness_scripts(r["monerr_file"], 30) + flow.witness_scripts(r["panic_file"], 10)
        scripts = [flow.hist_to_script(w["h"], 6) for w in ws] + \
                  [flow.hist_to_script(d["h"], 6) for d in r.get("drift_samples", [])]
        if scripts:
            witness_jobs.append({"cfg": kbd, "params": params, "tag": "w:" + name, "scripts": scripts})
        n = 30 if tier == "quick" else 200
        scripts = [th_history(rng, keys, params["H"], rng.randint(4, 40 if tier == "quick" else 200)) for _ in range(n)]
        jobs_random.append({"cfg": kbd, "params": params, "tag": "r:" + name, "scripts": scripts})
    for label, jobs in (("witness", witness_jobs), ("random", jobs_random)):
        if not jobs:
            continue
        jobs = shard_local_index(jobs)
        errs, trace = record_and_validate(res, "P_C05", jobs, wd, "c05_" + label)
        for e in errs:
            j, s = script_of(jobs, e["job"], 0)
            flow.classify(res, pid, e["err"], e["err"] + " cfg=" + j["cfg"],
                          {"property": pid, "cfg": j["cfg"], "params": j["params"], "script": s, "err": e["err"],
                           "monitor": "P_C05"},
                          "%s_%d" % (label, len(res.violations)))
        if label == "random":
            res.samples.append({"random_history": jobs[0]["scripts"][0][:30], "cfg": jobs[0]["cfg"]})
    return flow.finish(
        res, "model_checking",
        "TLC explores L1||P_C05 for every physically consistent schedule over the tap-hold key and two other keys "
        "(<=3 pending events, every tick gap), per variant/H/W/concurrency instance; every model transition is replayed on "
        "the real code; random schedules with real gaps around H are recorded from the code and validated by TLC "
        "against P_C05.",
        assumptions=["deterministic stepper", "P_C05 sharp-zone rules calibrated per DESIGN Appendix A",
                     "tap/hold/timeout actions are distinct otherwise-unused keys"])
