#!/bin/sh
# Build the framework from files on disk only (offline).
set -e
cd "$(dirname "$0")"
export CARGO_NET_OFFLINE=true
mkdir -p work evidence
[ -f harness/Cargo.lock ] || cp /repo/Cargo.lock harness/Cargo.lock
(cd harness && cargo build --offline -q 2>/dev/null) || { cp /repo/Cargo.lock harness/Cargo.lock; (cd harness && cargo build --offline -q); }
# TLC smoke test: parse the specifications
for f in spec/*.tla; do
  m=$(basename "$f")
  (cd spec && java -cp /opt/veriftools/tla/tla2tools.jar:/opt/veriftools/tla/CommunityModules-deps.jar tla2sany.SANY "$m" >/dev/null 2>&1) || echo "warning: SANY failed on $m"
done
echo setup ok
