//! C02 worker: `kverif crash accept|run ...`
//!
//! * `crash accept <in.json> <out.ndjson>`: which of the given configuration texts does the real
//!   parser (+ `Kanata::new_from_str`) accept; for accepted ones the mapped key codes and the
//!   number of virtual keys.
//! * `crash run <job.json> <out.ndjson>`: executes (config, history) pairs on the real code with a
//!   per-step wall-clock watchdog.  Panics are caught per script and reported as data.  A stack
//!   overflow / abort kills the process: the orchestrator (tools/props/c02.py) finds the culprit
//!   from the last `begin` line, records it and restarts after it.
//!
//! Every line is flushed before the next script starts, so the output survives an abort.
use crate::sim::Sim;
use serde_json::{json, Value};
use std::io::Write;
use std::sync::atomic::{AtomicU64, AtomicUsize, Ordering};
use std::sync::Mutex;
use std::time::Instant;

static LAST_PANIC: Mutex<Option<(String, String)>> = Mutex::new(None);
/// micros since process start at which the current step began; 0 = no step in progress
static STEP_START_US: AtomicU64 = AtomicU64::new(0);
static CUR_JOB: AtomicUsize = AtomicUsize::new(0);
static CUR_SCRIPT: AtomicUsize = AtomicUsize::new(0);
static CUR_STEP: AtomicUsize = AtomicUsize::new(0);

/// For a panic raised inside a dependency (heapless, arraydeque, core) the location alone does not
/// identify the defect: append the innermost frame that belongs to the code under test.
fn repo_caller() -> String {
    let bt = std::backtrace::Backtrace::force_capture().to_string();
    for l in bt.lines() {
        let l = l.trim();
        if let Some(p) = l.find(": ") {
            let f = &l[p + 2..];
            if (f.starts_with("kanata_keyberon::") || f.starts_with("kanata_state_machine::") || f.starts_with("kanata_parser::")
                || f.starts_with("<kanata_keyberon::") || f.starts_with("<kanata_state_machine::") || f.starts_with("<kanata_parser::"))
                && !f.contains("{{closure}}")
            {
                let f = f.split("::h").next().unwrap_or(f);
                return f.to_string();
            }
        }
    }
    String::new()
}

fn install_panic_hook() {
    std::panic::set_hook(Box::new(|info| {
        let mut loc = info
            .location()
            .map(|l| format!("{}:{}", l.file(), l.line()))
            .unwrap_or_default();
        if loc.contains("/.cargo/registry/") || loc.contains("/rustc/") || loc.starts_with("/root/.rustup") {
            let c = repo_caller();
            if !c.is_empty() {
                loc = format!("{loc}@{c}");
            }
        }
        let msg = if let Some(s) = info.payload().downcast_ref::<&str>() {
            s.to_string()
        } else if let Some(s) = info.payload().downcast_ref::<String>() {
            s.clone()
        } else {
            "<non-string panic>".to_string()
        };
        *LAST_PANIC.lock().unwrap() = Some((loc, msg));
    }));
}

fn take_panic() -> (String, String) {
    LAST_PANIC
        .lock()
        .unwrap()
        .take()
        .unwrap_or((String::new(), String::new()))
}

fn first_line(s: &str) -> String {
    // miette report: the message is on the `help:` line(s); otherwise the first non-empty line
    if let Some(p) = s.find("help:") {
        let rest = &s[p + 5..];
        let mut t = String::new();
        for l in rest.lines() {
            let l = l.trim();
            if l.is_empty() || l.starts_with("For more info") {
                break;
            }
            if !t.is_empty() {
                t.push(' ');
            }
            t.push_str(l);
        }
        return t.chars().take(300).collect();
    }
    s.lines().find(|l| !l.trim().is_empty()).unwrap_or("").chars().take(300).collect()
}

/// Parses on a thread with an 8 MiB stack (what the main thread of the real binary has).
fn parse_big_stack(cfg: String) -> Result<Result<Sim, String>, ()> {
    let h = std::thread::Builder::new()
        .stack_size(8 << 20)
        .spawn(move || std::panic::catch_unwind(std::panic::AssertUnwindSafe(|| Sim::new(&cfg, &[]))))
        .expect("spawn");
    match h.join() {
        Ok(Ok(r)) => Ok(r),
        _ => Err(()),
    }
}

fn cmd_accept(args: &[String]) -> i32 {
    let inp: Value = serde_json::from_reader(std::fs::File::open(&args[0]).expect("in file")).expect("json");
    let mut w = std::fs::File::create(&args[1]).expect("out file");
    install_panic_hook();
    for (i, c) in inp["cfgs"].as_array().unwrap().iter().enumerate() {
        let text = c.as_str().unwrap_or("").to_string();
        writeln!(w, "{}", json!({"e":"begin","i":i})).unwrap();
        w.flush().unwrap();
        let t2 = text.clone();
        let r = std::panic::catch_unwind(std::panic::AssertUnwindSafe(|| {
            kanata_parser::cfg::new_from_str(&t2, Default::default())
        }));
        let line = match r {
            Err(_) => {
                let (loc, msg) = take_panic();
                json!({"e":"done","i":i,"ok":false,"panic":loc,"msg":msg})
            }
            Ok(Err(e)) => json!({"e":"done","i":i,"ok":false,"err":first_line(&format!("{e:?}"))}),
            Ok(Ok(cfg)) => {
                let mut mapped: Vec<u16> = cfg.mapped_keys.iter().map(|o| o.as_u16()).collect();
                mapped.sort();
                let nfake = cfg.fake_keys.len();
                let chv2 = cfg.layout.b().chords_v2.is_some();
                drop(cfg);
                match parse_big_stack(text) {
                    Ok(Ok(_)) => json!({"e":"done","i":i,"ok":true,"mapped":mapped,"nfake":nfake,"chv2":chv2}),
                    Ok(Err(e)) => json!({"e":"done","i":i,"ok":false,"err":first_line(&e)}),
                    Err(()) => {
                        let (loc, msg) = take_panic();
                        json!({"e":"done","i":i,"ok":false,"panic":loc,"msg":msg})
                    }
                }
            }
        };
        writeln!(w, "{}", line).unwrap();
    }
    writeln!(w, "{}", json!({"e":"end"})).unwrap();
    0
}

fn now_us(t0: &Instant) -> u64 {
    t0.elapsed().as_micros() as u64 + 1
}

/// what kind of run-time machinery the execution has exercised so far (bit set)
fn nontrivial_flags(sim: &Sim) -> u32 {
    use kanata_keyberon::layout::State;
    let l = sim.k.layout.b();
    let mut f = 0u32;
    for s in l.states.iter() {
        f |= match s {
            State::NormalKey { .. } => 1,
            State::LayerModifier { .. } => 2,
            State::Custom { .. } => 32,
            State::FakeKey { .. } | State::RepeatingSequence { .. } => 16,
            State::SeqCustomPending(_) | State::SeqCustomActive(_) => 16,
            State::Tombstone => 0,
        };
    }
    if l.default_layer != 0 {
        f |= 2;
    }
    if l.waiting.is_some() || !l.extra_waiting.is_empty() || l.tap_dance_eager.is_some() {
        f |= 4;
    }
    if !l.oneshot.keys.is_empty() {
        f |= 8;
    }
    if !l.active_sequences.is_empty() || !l.action_queue.is_empty() {
        f |= 16;
    }
    if let Some(c) = l.chords_v2.as_ref() {
        if !c.is_idle_chv2() {
            f |= 128;
        }
    }
    let k = &sim.k;
    if k.scroll_state.is_some()
        || k.hscroll_state.is_some()
        || k.move_mouse_state_vertical.is_some()
        || k.move_mouse_state_horizontal.is_some()
        || k.caps_word.is_some()
        || !k.waiting_for_idle.is_empty()
        || !k.vkeys_pending_release.is_empty()
        || k.dynamic_macro_record_state.is_some()
        || k.dynamic_macro_replay_state.is_some()
    {
        f |= 64;
    }
    if !k.sequence_state.is_inactive() {
        f |= 256;
    }
    f
}

struct RunOut {
    nsteps: u64,
    max_us: u64,
    flags: u32,
    outs: u64,
}

/// how a `t` step advances time: the deterministic stepper (tick_ms(1) + can_block), tick_ms(1) only, or one
/// iteration of the processing loop with 1 ms elapsed (handle_time_ticks: ticks AND the deferred live reload)
#[derive(Clone, Copy, PartialEq)]
enum TickMode {
    Stepper,
    Plain,
    Loop,
}

/// One iteration of the polling branch of the processing loop (what harness/src/reload.rs does for C15).
#[cfg(kanata_verif)]
fn loop_iteration(sim: &mut Sim) -> Result<(), String> {
    sim.k.verif_set_elapsed_ms(1);
    let n = sim.k.verif_handle_time_ticks(&None).map_err(|e| format!("{e:?}"))?;
    let _ = sim.k.can_block_update_idle_waiting(n.max(1));
    Ok(())
}
#[cfg(not(kanata_verif))]
fn loop_iteration(_sim: &mut Sim) -> Result<(), String> {
    Err("loop mode needs the kanata_verif hooks".to_string())
}

fn run_steps(sim: &mut Sim, steps: &[Value], t0: &Instant, mode: TickMode, ro: &mut RunOut) -> Result<(), String> {
    let mut seen = 0usize;
    macro_rules! after {
        ($began:expr) => {{
            let d = now_us(t0).saturating_sub($began);
            STEP_START_US.store(0, Ordering::SeqCst);
            if d > ro.max_us {
                ro.max_us = d;
            }
            ro.nsteps += 1;
            let evs = &sim.k.kbd_out.outputs.events;
            for s in &evs[seen.min(evs.len())..] {
                if !s.starts_with("t:") {
                    ro.outs += 1;
                    if !s.starts_with("out:") {
                        ro.flags |= 64;
                    }
                }
            }
            seen = evs.len();
            if seen > 200_000 {
                sim.k.kbd_out.outputs.events.clear();
                seen = 0;
            }
            ro.flags |= nontrivial_flags(sim);
        }};
    }
    for (si, st) in steps.iter().enumerate() {
        CUR_STEP.store(si, Ordering::SeqCst);
        let kind = st[0].as_str().unwrap_or("");
        match kind {
            "t" => {
                let n = st[1].as_u64().unwrap_or(1);
                for _ in 0..n {
                    let began = now_us(t0);
                    STEP_START_US.store(began, Ordering::SeqCst);
                    let r = match mode {
                        TickMode::Plain => sim.tick_plain(),
                        TickMode::Stepper => sim.tick().map(|_| ()),
                        TickMode::Loop => loop_iteration(sim),
                    };
                    after!(began);
                    r?;
                }
            }
            "d" | "u" | "r" | "p" | "w" => {
                let c = st[1].as_u64().unwrap_or(0) as u16;
                let began = now_us(t0);
                STEP_START_US.store(began, Ordering::SeqCst);
                let r = sim.input(kind, c);
                after!(began);
                r?;
            }
            "fk" => {
                let y = st[1].as_u64().unwrap_or(0) as u16;
                let began = now_us(t0);
                STEP_START_US.store(began, Ordering::SeqCst);
                let r = sim.fakekey(y, st[2].as_str().unwrap_or(""));
                after!(began);
                r?;
            }
            _ => return Err(format!("bad step {st}")),
        }
    }
    Ok(())
}

/// job: {"watchdog_ms":2000,"stack_kb":2048,"jobs":[{"id":..,"cfg":text,"scripts":[{"id":..,"cls":..,"steps":[..]}]}]}
fn cmd_run(args: &[String]) -> i32 {
    let job: Value = serde_json::from_reader(std::fs::File::open(&args[0]).expect("job file")).expect("job json");
    let outp = args[1].clone();
    let watchdog_ms = job["watchdog_ms"].as_u64().unwrap_or(2000);
    let stack_kb = job["stack_kb"].as_u64().unwrap_or(2048) as usize;
    let t0 = Instant::now();
    install_panic_hook();
    // watchdog: a step that exceeds the limit is a hang; report where and leave
    {
        let outp = outp.clone();
        let t0 = t0;
        std::thread::spawn(move || loop {
            std::thread::sleep(std::time::Duration::from_millis(20));
            let s = STEP_START_US.load(Ordering::SeqCst);
            if s != 0 {
                let d = now_us(&t0).saturating_sub(s);
                if d > watchdog_ms * 1000 {
                    let v = json!({"e":"hang","jx":CUR_JOB.load(Ordering::SeqCst),"sx":CUR_SCRIPT.load(Ordering::SeqCst),
                        "step":CUR_STEP.load(Ordering::SeqCst),"ms":d / 1000});
                    let _ = std::fs::write(format!("{outp}.hang"), v.to_string());
                    std::process::exit(86);
                }
            }
        });
    }
    let mut w = std::fs::File::create(&outp).expect("out file");
    let jobs = job["jobs"].as_array().unwrap().clone();
    for (jx, j) in jobs.iter().enumerate() {
        CUR_JOB.store(jx, Ordering::SeqCst);
        let cfg = j["cfg"].as_str().unwrap().to_string();
        let mode = match j["opts"]["mode"].as_str() {
            Some("plain") => TickMode::Plain,
            Some("loop") => TickMode::Loop,
            _ => TickMode::Stepper,
        };
        // loop mode: "files" = contents of the configuration files kanata was started with (file 0 = cfg);
        // written under <out>.files/<job index>/ and used as cfg_paths so that a live reload reads them
        let mut cfg_paths: Vec<std::path::PathBuf> = vec![];
        if let Some(files) = j["files"].as_array() {
            let dir = std::path::PathBuf::from(format!("{outp}.files")).join(format!("{jx}"));
            let _ = std::fs::create_dir_all(&dir);
            for (i, f) in files.iter().enumerate() {
                let p = dir.join(format!("f{i}.kbd"));
                let _ = std::fs::write(&p, f.as_str().unwrap_or(""));
                cfg_paths.push(p);
            }
        }
        for (sx, s) in j["scripts"].as_array().unwrap().iter().enumerate() {
            CUR_SCRIPT.store(sx, Ordering::SeqCst);
            CUR_STEP.store(0, Ordering::SeqCst);
            writeln!(w, "{}", json!({"e":"begin","jx":jx,"sx":sx,"j":j["id"],"s":s["id"]})).unwrap();
            w.flush().unwrap();
            let steps: Vec<Value> = s["steps"].as_array().unwrap().clone();
            let line = match parse_big_stack(cfg.clone()) {
                Err(()) => {
                    let (loc, msg) = take_panic();
                    json!({"r":"parse-panic","loc":loc,"msg":msg})
                }
                Ok(Err(e)) => json!({"r":"reject","msg":first_line(&e)}),
                Ok(Ok(mut sim)) => {
                    if !cfg_paths.is_empty() {
                        sim.k.cfg_paths = cfg_paths.clone();
                        sim.k.cur_cfg_idx = 0;
                    }
                    // event processing happens on the processing-loop thread of the real binary
                    // (std::thread::spawn => 2 MiB stack by default)
                    let t0c = t0;
                    let h = std::thread::Builder::new()
                        .stack_size(stack_kb << 10)
                        .spawn(move || {
                            let mut ro = RunOut { nsteps: 0, max_us: 0, flags: 0, outs: 0 };
                            let r = std::panic::catch_unwind(std::panic::AssertUnwindSafe(|| {
                                run_steps(&mut sim, &steps, &t0c, mode, &mut ro)
                            }));
                            STEP_START_US.store(0, Ordering::SeqCst);
                            let step = CUR_STEP.load(Ordering::SeqCst);
                            let mut v = match r {
                                Ok(Ok(())) => json!({"r":"ok"}),
                                Ok(Err(e)) => json!({"r":"error","msg":first_line(&e),"step":step}),
                                Err(_) => {
                                    let (loc, msg) = take_panic();
                                    // the state may be inconsistent after a panic: never touch it again
                                    std::mem::forget(sim);
                                    json!({"r":"panic","loc":loc,"msg":msg,"step":step})
                                }
                            };
                            v["nsteps"] = json!(ro.nsteps);
                            v["max_us"] = json!(ro.max_us);
                            v["nt"] = json!(ro.flags);
                            v["outs"] = json!(ro.outs);
                            v
                        })
                        .expect("spawn");
                    match h.join() {
                        Ok(v) => v,
                        Err(_) => json!({"r":"panic","loc":"<thread join>","msg":"worker thread panicked outside catch_unwind"}),
                    }
                }
            };
            let mut line = line;
            line["e"] = json!("done");
            line["jx"] = json!(jx);
            line["sx"] = json!(sx);
            line["j"] = j["id"].clone();
            line["s"] = s["id"].clone();
            line["cls"] = s["cls"].clone();
            writeln!(w, "{}", line).unwrap();
        }
    }
    writeln!(w, "{}", json!({"e":"end"})).unwrap();
    w.flush().unwrap();
    let _ = std::fs::remove_dir_all(format!("{outp}.files"));
    0
}

pub fn cmd_crash(args: &[String]) -> i32 {
    if args.is_empty() {
        eprintln!("usage: kverif crash accept|run ...");
        return 2;
    }
    match args[0].as_str() {
        "accept" => cmd_accept(&args[1..]),
        "run" => cmd_run(&args[1..]),
        other => {
            eprintln!("unknown crash subcommand {other}");
            2
        }
    }
}
