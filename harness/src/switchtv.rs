//! C10 translation validation: the real parser's opcodes and the real `Switch::actions` against
//! the expectations computed by TLC from spec/Switch.tla (Compile / Denote / DenoteCases).
//!
//! switch-tv <jobs.ndjson> <out.json>
//! Each input line is one job:
//!   {"cfg": kbd text, "key": code of the defsrc key whose layer-0 action is the switch,
//!    "checks": [{"id": .., "lo": i, "hi": j,            // the sub-slice [i, j) of the switch's cases
//!                "ops": [[u16..]..] | null,            // expected opcodes per case of the slice
//!                "envs": [{"keys":[kc],"coords":[[x,y]],"hk":[{"e":kc,"age":n}],
//!                          "hi":[{"e":[x,y],"age":n}],"layers":[l],"dl":l} ..]
//!                        | name of a list in the job's "envtab",
//!                "den": [[kc of firing actions, in order] ..]   // one list per env
//!               } ..]}
//! A job with a "tree" field instead of "checks" compares the parser's final action tree at `key`
//! (after the post-parse passes, e.g. the resolution of v1 `(chord group key)` placeholders) with the
//! expected tree computed by TLC from spec/ActionTerms.tla (Final): {"id","cfg","key","tree"}.
//! A parse error of the config is reported per job ("expect_reject": true inverts that).
//! Output: counts and the list of disagreements (capped), never a verdict.
use crate::dump::opcode_raw;
use kanata_keyberon::action::switch::Switch;
use kanata_keyberon::action::Action;
use kanata_keyberon::key_code::KeyCode;
use kanata_keyberon::layout::HistoricalEvent;
use kanata_parser::keys::OsCode;
use serde_json::{json, Value};
use std::io::BufRead;

fn kc_of(c: u64) -> Option<KeyCode> {
    OsCode::from_u16(c as u16).map(|o| o.into())
}

struct Env {
    keys: Vec<KeyCode>,
    coords: Vec<(u8, u16)>,
    hk: Vec<HistoricalEvent<KeyCode>>,
    hi: Vec<HistoricalEvent<(u8, u16)>>,
    layers: Vec<u16>,
    dl: u16,
}

fn coord_of(v: &Value) -> (u8, u16) {
    (v[0].as_u64().unwrap_or(0) as u8, v[1].as_u64().unwrap_or(0) as u16)
}

fn env_of(v: &Value) -> Result<Env, String> {
    let arr = |k: &str| v[k].as_array().cloned().unwrap_or_default();
    let mut keys = vec![];
    for k in arr("keys") {
        keys.push(kc_of(k.as_u64().unwrap_or(0)).ok_or_else(|| format!("no key code {k}"))?);
    }
    let coords = arr("coords").iter().map(coord_of).collect();
    let mut hk = vec![];
    // compact form for the threshold sweep: [key, slot, age, age of the other slots], 8 slots
    if let Some(c) = v["hkc"].as_array() {
        let n = |i: usize| c[i].as_u64().unwrap_or(0);
        for j in 0..8u64 {
            hk.push(HistoricalEvent {
                event: kc_of(n(0)).ok_or_else(|| format!("no key code {}", n(0)))?,
                ticks_since_occurrence: (if j == n(1) { n(2) } else { n(3) }) as u16,
            });
        }
    }
    for h in arr("hk") {
        hk.push(HistoricalEvent {
            event: kc_of(h["e"].as_u64().unwrap_or(0)).ok_or_else(|| format!("no key code {h}"))?,
            ticks_since_occurrence: h["age"].as_u64().unwrap_or(0) as u16,
        });
    }
    let hi = arr("hi")
        .iter()
        .map(|h| HistoricalEvent {
            event: coord_of(&h["e"]),
            ticks_since_occurrence: h["age"].as_u64().unwrap_or(0) as u16,
        })
        .collect();
    let layers = arr("layers").iter().map(|l| l.as_u64().unwrap_or(0) as u16).collect();
    Ok(Env {
        keys,
        coords,
        hk,
        hi,
        layers,
        dl: v["dl"].as_u64().unwrap_or(0) as u16,
    })
}

/// the key codes of the actions the real iterator yields, in order (0xFFFF for a non-key action)
fn fire<T>(sw: &Switch<'_, T>, e: &Env) -> Vec<u16> {
    sw.actions(
        e.keys.iter().copied(),
        e.coords.iter().copied(),
        e.hk.iter().copied(),
        e.hi.iter().copied(),
        e.layers.iter().copied(),
        e.dl,
    )
    .map(|a| match a {
        Action::KeyCode(k) => *k as u16,
        _ => 0xFFFF,
    })
    .collect()
}

/// The action as a tree in the vocabulary of ActionTerms.tla Final (coords of a chord group sorted).
pub fn action_tree<T: std::fmt::Debug>(a: &Action<'_, T>) -> Value {
    use crate::dump::bits;
    match a {
        Action::KeyCode(k) => json!({"t":"key","kc":*k as u16}),
        Action::NoOp => json!({"t":"noop"}),
        Action::Trans => json!({"t":"trans"}),
        Action::MultipleActions(acs) => json!({"t":"multi","acs":acs.iter().map(action_tree).collect::<Vec<_>>()}),
        Action::HoldTap(ht) => json!({"t":"holdtap","timeout":ht.timeout,"thi":ht.tap_hold_interval,
            "tap":action_tree(&ht.tap),"hold":action_tree(&ht.hold),"toa":action_tree(&ht.timeout_action),
            "cfg": match ht.config {
                kanata_keyberon::action::HoldTapConfig::Default => "default",
                kanata_keyberon::action::HoldTapConfig::HoldOnOtherKeyPress => "press",
                kanata_keyberon::action::HoldTapConfig::PermissiveHold => "release",
                _ => "custom",
            }}),
        Action::TapDance(td) => json!({"t":"tapdance","timeout":td.timeout,
            "eager":matches!(td.config, kanata_keyberon::action::TapDanceConfig::Eager),
            "acs":td.actions.iter().map(|x| action_tree(x)).collect::<Vec<_>>()}),
        Action::OneShot(os) => json!({"t":"oneshot","timeout":os.timeout,"ac":action_tree(os.action)}),
        Action::Chords(g) => {
            let mut coords: Vec<(u8, u16, Vec<u32>)> = g.coords.iter().map(|(c, m)| (c.0, c.1, bits(*m))).collect();
            coords.sort();
            // (the parser keeps a group's chords in a hash map: listed in ascending mask order)
            let mut ch: Vec<_> = g.chords.iter().collect();
            ch.sort_by_key(|(m, _)| *m);
            let chords: Vec<Value> = ch.iter().map(|(m, ac)| json!({"m":bits(*m),"ac":action_tree(ac)})).collect();
            let coords: Vec<Value> = coords.iter().map(|(x, y, m)| json!({"x":x,"y":y,"m":m})).collect();
            json!({"t":"chords","timeout":g.timeout,"coords":coords,"chords":chords})
        }
        Action::Fork(f) => json!({"t":"fork","left":action_tree(&f.left),"right":action_tree(&f.right),
            "trig":f.right_triggers.iter().map(|k| *k as u16).collect::<Vec<_>>()}),
        Action::Switch(sw) => json!({"t":"switch","cases":sw.cases.iter().map(|(ops, ac, brk)| json!({
            "ops":ops.iter().map(opcode_raw).collect::<Vec<u16>>(),"ac":action_tree(ac),
            "brk":matches!(brk, kanata_keyberon::action::switch::BreakOrFallthrough::Break)})).collect::<Vec<_>>()}),
        other => {
            let d: String = format!("{other:?}").chars().take(120).collect();
            json!({"t":"other","dbg":d})
        }
    }
}

pub fn cmd(args: &[String]) -> i32 {
    let f = std::io::BufReader::new(std::fs::File::open(&args[0]).expect("jobs file"));
    crate::install_panic_hook();
    let cap = 200usize;
    let (mut njobs, mut nchecks, mut nevals, mut nops) = (0u64, 0u64, 0u64, 0u64);
    let (mut n_opsmis, mut n_valmis, mut n_parse, mut n_panic, mut n_rejected_ok) = (0u64, 0u64, 0u64, 0u64, 0u64);
    let mut ops_mis: Vec<Value> = vec![];
    let mut val_mis: Vec<Value> = vec![];
    let mut parse_errs: Vec<Value> = vec![];
    let mut panics: Vec<Value> = vec![];
    let mut samples: Vec<Value> = vec![];
    let (mut ntrees, mut n_treemis) = (0u64, 0u64);
    let mut tree_mis: Vec<Value> = vec![];
    for line in f.lines() {
        let line = line.unwrap();
        if line.trim().is_empty() {
            continue;
        }
        let job: Value = match serde_json::from_str(&line) {
            Ok(v) => v,
            Err(e) => {
                eprintln!("bad job line: {e}");
                return 2;
            }
        };
        njobs += 1;
        let text = job["cfg"].as_str().unwrap_or("");
        let key = job["key"].as_u64().unwrap_or(0) as usize;
        let expect_reject = job["expect_reject"].as_bool().unwrap_or(false);
        let parsed = std::panic::catch_unwind(|| kanata_parser::cfg::new_from_str(text, Default::default()));
        let cfg = match parsed {
            Ok(Ok(c)) => {
                if expect_reject {
                    n_parse += 1;
                    parse_errs.push(json!({"job": job["id"], "err": "accepted but rejection expected"}));
                    continue;
                }
                c
            }
            Ok(Err(e)) => {
                if expect_reject {
                    n_rejected_ok += 1;
                    continue;
                }
                n_parse += 1;
                if parse_errs.len() < cap {
                    let m: String = format!("{e:?}").chars().take(600).collect();
                    parse_errs.push(json!({"job": job["id"], "err": m,
                        "ids": job["checks"].as_array().map(|c| c.iter().map(|x| x["id"].clone()).collect::<Vec<_>>())}));
                }
                continue;
            }
            Err(_) => {
                n_panic += 1;
                let (loc, msg) = crate::take_panic();
                panics.push(json!({"job": job["id"], "where": "parse", "loc": loc, "msg": msg}));
                continue;
            }
        };
        let layout = cfg.layout.b();
        if !job["tree"].is_null() {
            // the final action tree (after the post-parse passes) against the one written
            ntrees += 1;
            let got = match std::panic::catch_unwind(std::panic::AssertUnwindSafe(|| action_tree(&layout.layers[0][0][key]))) {
                Ok(g) => g,
                Err(_) => {
                    n_panic += 1;
                    let (loc, msg) = crate::take_panic();
                    if panics.len() < cap {
                        panics.push(json!({"id": job["id"], "where": "tree", "loc": loc, "msg": msg}));
                    }
                    continue;
                }
            };
            if got != job["tree"] {
                n_treemis += 1;
                if tree_mis.len() < cap {
                    tree_mis.push(json!({"id": job["id"], "expected": job["tree"], "actual": got}));
                }
            }
            continue;
        }
        let sw = match &layout.layers[0][0][key] {
            Action::Switch(sw) => *sw,
            other => {
                eprintln!("job {}: action at key {key} is not a switch: {other:?}", job["id"]);
                return 2;
            }
        };
        for chk in job["checks"].as_array().cloned().unwrap_or_default() {
            nchecks += 1;
            let lo = chk["lo"].as_u64().unwrap_or(0) as usize;
            let hi = chk["hi"].as_u64().unwrap_or(0) as usize;
            if hi > sw.cases.len() || lo > hi {
                eprintln!("check {}: slice {lo}..{hi} outside the {} parsed cases", chk["id"], sw.cases.len());
                return 2;
            }
            let slice = &sw.cases[lo..hi];
            // (i) opcodes produced by the real parser
            let actual_ops: Vec<Vec<u16>> = slice.iter().map(|c| c.0.iter().map(opcode_raw).collect()).collect();
            if let Some(exp) = chk["ops"].as_array() {
                nops += 1;
                let expv: Vec<Vec<u16>> = exp
                    .iter()
                    .map(|o| o.as_array().map(|a| a.iter().map(|x| x.as_u64().unwrap_or(0) as u16).collect()).unwrap_or_default())
                    .collect();
                if expv != actual_ops {
                    n_opsmis += 1;
                    if ops_mis.len() < cap {
                        ops_mis.push(json!({"id": chk["id"], "expected": expv, "actual": actual_ops}));
                    }
                }
            }
            // (ii) the real iterator on the parser-produced cases
            let sub = Switch { cases: slice };
            // inline list of environments, or the name of a list in the job's "envtab"
            let envs = match chk["envs"].as_str() {
                Some(name) => job["envtab"][name].as_array().cloned().unwrap_or_default(),
                None => chk["envs"].as_array().cloned().unwrap_or_default(),
            };
            if envs.is_empty() {
                eprintln!("check {}: no environments", chk["id"]);
                return 2;
            }
            for (ei, ev) in envs.iter().enumerate() {
                let env = match env_of(ev) {
                    Ok(e) => e,
                    Err(m) => {
                        eprintln!("check {}: {m}", chk["id"]);
                        return 2;
                    }
                };
                nevals += 1;
                let got = std::panic::catch_unwind(std::panic::AssertUnwindSafe(|| fire(&sub, &env)));
                let exp: Vec<u16> = chk["den"][ei]
                    .as_array()
                    .map(|a| a.iter().map(|x| x.as_u64().unwrap_or(0) as u16).collect())
                    .unwrap_or_default();
                match got {
                    Ok(g) => {
                        if g != exp {
                            n_valmis += 1;
                            // all of them: c10.py classifies each one (known finding or violation)
                            val_mis.push(json!({"id": chk["id"], "env": ei, "expected": exp, "real": g}));
                        } else if samples.len() < 3 && !exp.is_empty() && ei > 0 {
                            samples.push(json!({"id": chk["id"], "env": ev, "fired": g, "ops": actual_ops}));
                        }
                    }
                    Err(_) => {
                        n_panic += 1;
                        let (loc, msg) = crate::take_panic();
                        if panics.len() < cap {
                            panics.push(json!({"id": chk["id"], "env": ei, "where": "actions", "loc": loc, "msg": msg}));
                        }
                    }
                }
            }
        }
    }
    let res = json!({"jobs": njobs, "checks": nchecks, "evals": nevals, "ops_compared": nops,
        "n_ops_mismatch": n_opsmis, "n_val_mismatch": n_valmis, "n_parse_errors": n_parse, "n_panics": n_panic,
        "n_rejected_as_expected": n_rejected_ok, "trees": ntrees, "n_tree_mismatch": n_treemis, "tree_mismatch": tree_mis,
        "ops_mismatch": ops_mis, "val_mismatch": val_mis, "parse_errors": parse_errs, "panics": panics,
        "samples": samples});
    std::fs::write(&args[1], serde_json::to_string(&res).unwrap()).unwrap();
    0
}
