//! C07 part 3: the real processing thread.
//!
//! loop-run <job.json> <out.ndjson>
//!   job = {"jobs":[{"cfg":text,"tag":any,"runs":[{"events":[["d"|"u"|"r",code]..],"gaps_us":[n..]}]}]}
//! For every run the REAL `Kanata::start_processing_loop` is started in-process (simulated output, `nodelay`), the
//! events are sent through its sync_channel with the given real-time gaps (so the thread goes through its blocking
//! recv(), the try_recv() + 1 ms sleep branch and handle_time_ticks with whatever the wall clock gives), and when
//! the thread is idle again the events it wrote are collected.  The same event order is run by the deterministic
//! stepper.  One line per run, in the pair format of `paired`:
//!   {"e":"pair","mode":"loop","A":[stepper records],"B":[one record with everything the thread wrote], ...}
//! Only meaningful for time-insensitive configurations (the judgement compares the event sequences, not the timing).
//! Nothing is judged here: spec/P_C07.tla (TLC) decides.
use crate::keys::KeyNames;
use crate::sim::{parse_out_event, Sim};
use kanata_parser::keys::OsCode;
use kanata_state_machine::oskbd::{KeyEvent, KeyValue};
use kanata_state_machine::{Kanata, ValidatedArgs};
use serde_json::{json, Value};
use std::io::{BufWriter, Write};
use std::time::{Duration, Instant};

fn strout(out: Vec<Value>) -> Vec<Value> {
    out.into_iter()
        .map(|e| {
            let a = match &e[1] {
                Value::String(s) => Value::String(s.clone()),
                other => Value::String(other.to_string()),
            };
            json!([e[0].clone(), a])
        })
        .collect()
}

fn key_event(kind: &str, code: u16) -> Result<KeyEvent, String> {
    let osc = OsCode::from_u16(code).ok_or(format!("no OsCode for {code}"))?;
    let value = match kind {
        "d" => KeyValue::Press,
        "u" => KeyValue::Release,
        "r" => KeyValue::Repeat,
        _ => return Err(format!("bad event kind {kind}")),
    };
    Ok(KeyEvent { code: osc, value })
}

fn run_loop(names: &KeyNames, cfg_path: &std::path::Path, events: &[(String, u16)], gaps_us: &[u64]) -> Result<(Vec<Value>, Value), String> {
    let args = ValidatedArgs {
        paths: vec![cfg_path.to_path_buf()],
        tcp_server_address: None,
        symlink_path: None,
        nodelay: true,
    };
    let kanata = Kanata::new_arc(&args).map_err(|e| format!("{e:?}"))?;
    // rendezvous channel: when `send` returns the thread has received the event
    let (tx, rx) = std::sync::mpsc::sync_channel(0);
    Kanata::start_processing_loop(kanata.clone(), rx, None, true);
    let t0 = Instant::now();
    let count_ticks = |k: &Kanata| k.kbd_out.outputs.events.iter().filter(|s| s.starts_with("t:")).count();
    let mut ticks_before_last = 0usize;
    for (i, (kind, code)) in events.iter().enumerate() {
        let g = gaps_us.get(i).copied().unwrap_or(0);
        if g > 0 {
            std::thread::sleep(Duration::from_micros(g));
        }
        if i + 1 == events.len() {
            ticks_before_last = count_ticks(&kanata.lock());
        }
        tx.send(key_event(kind, *code)?).map_err(|e| e.to_string())?;
    }
    // wait until the thread has gone quiet: it ticked after the last event, is idle, and wrote nothing new for
    // 80 ms (at most 8 s)
    let mut last_len = usize::MAX;
    let mut stable_since = Instant::now();
    let deadline = Instant::now() + Duration::from_secs(8);
    let mut quiet = false;
    while Instant::now() < deadline {
        std::thread::sleep(Duration::from_millis(5));
        let k = kanata.lock();
        let n = k.kbd_out.outputs.events.len();
        let idle = k.is_idle();
        let ticked = count_ticks(&k) > ticks_before_last;
        drop(k);
        if n != last_len || !idle || !ticked {
            last_len = n;
            stable_since = Instant::now();
        } else if stable_since.elapsed() > Duration::from_millis(80) {
            quiet = true;
            break;
        }
    }
    let wall_ms = t0.elapsed().as_millis() as u64;
    let k = kanata.lock();
    let mut out = vec![];
    let mut ticks = 0u64;
    for s in k.kbd_out.outputs.events.iter() {
        if s.starts_with("t:") {
            ticks += 1;
        }
        if let Some(v) = parse_out_event(names, s) {
            out.push(v);
        }
    }
    drop(k);
    drop(tx); // the thread sees the disconnected channel and returns
    std::thread::sleep(Duration::from_millis(3));
    Ok((strout(out), json!({"quiet": quiet, "wall_ms": wall_ms, "tick_markers": ticks})))
}

fn run_stepper(names: &KeyNames, cfg: &str, events: &[(String, u16)]) -> Result<Vec<Value>, String> {
    let mut sim = Sim::new(cfg, &[])?;
    let mut recs = vec![];
    for (kind, code) in events {
        sim.input(kind, *code)?;
        recs.push(json!({"e":kind,"c":code,"out":strout(sim.drain(names))}));
        for _ in 0..2 {
            let (idle, cb) = sim.tick()?;
            recs.push(json!({"e":"t","n":1,"out":strout(sim.drain(names)),"idle":idle,"cb":cb}));
        }
    }
    for _ in 0..60 {
        let (idle, cb) = sim.tick()?;
        let out = strout(sim.drain(names));
        if !out.is_empty() {
            recs.push(json!({"e":"t","n":1,"out":out,"idle":idle,"cb":cb}));
        }
    }
    Ok(recs)
}

pub fn cmd_loop_run(args: &[String]) -> i32 {
    if args.len() < 2 {
        eprintln!("usage: kverif loop-run <job.json> <out.ndjson>");
        return 2;
    }
    let names = KeyNames::new();
    let job: Value = match std::fs::File::open(&args[0]).map_err(|e| e.to_string()).and_then(|f| serde_json::from_reader(f).map_err(|e| e.to_string())) {
        Ok(j) => j,
        Err(e) => {
            eprintln!("loop-run: {e}");
            return 2;
        }
    };
    let mut w = BufWriter::new(std::fs::File::create(&args[1]).expect("out file"));
    let cfg_path = std::path::PathBuf::from(format!("{}.cfg.kbd", args[1]));
    for (ji, j) in job["jobs"].as_array().unwrap().iter().enumerate() {
        let cfg = j["cfg"].as_str().unwrap_or("").to_string();
        let tag = j.get("tag").cloned().unwrap_or(json!(ji));
        std::fs::write(&cfg_path, &cfg).expect("cfg file");
        for (ri, r) in j["runs"].as_array().unwrap().iter().enumerate() {
            let events: Vec<(String, u16)> = r["events"]
                .as_array()
                .unwrap()
                .iter()
                .map(|e| (e[0].as_str().unwrap_or("").to_string(), e[1].as_u64().unwrap_or(0) as u16))
                .collect();
            let gaps: Vec<u64> = r["gaps_us"].as_array().map(|a| a.iter().filter_map(|x| x.as_u64()).collect()).unwrap_or_default();
            let res = run_loop(&names, &cfg_path, &events, &gaps).and_then(|(out, info)| {
                let a = run_stepper(&names, &cfg, &events)?;
                Ok((a, out, info))
            });
            let line = match res {
                Ok((a, out, info)) => json!({"e":"pair","mode":"loop","job":tag,"case":ri,"cut":0,"K":0,"cont":"all","down":[],
                    "pre":{"osp":0,"ost":0,"nosk":0,"kdiff":false,"cv2edge":false,"drec":false,"xw":0},"gap":[],"info":info,
                    "A":a,"B":[{"e":"t","n":1,"out":out,"idle":true,"cb":true}]}),
                Err(e) => json!({"e":"looperror","job":tag,"case":ri,"msg":e}),
            };
            writeln!(w, "{}", line).unwrap();
        }
    }
    let _ = std::fs::remove_file(&cfg_path);
    writeln!(w, "{}", json!({"e":"end"})).unwrap();
    w.flush().unwrap();
    0
}

/// tick-budget <cfg.kbd> <out.ndjson>
/// The tick clock of the processing loop on the real code (hooks behind cfg(kanata_verif)): sets "0 ms elapsed",
/// busy-waits ~0.6 ms, calls handle_time_ticks twice back to back and records how many ticks each call executed and
/// how much wall clock passed in total.  Only a clean sample (first call 0 ticks, < 0.9 ms in total, so that no
/// scheduling delay can explain a tick) is written, in the pair format (mode "tickclock"); P_C07!TickClockErr (TLC)
/// judges it: executed ticks * 1 ms <= elapsed time.  (Before fix a46d9fa the calls returned 0 and 1: an interval
/// shorter than 1 ms was kept in last_tick AND carried in time_remainder.)
pub fn cmd_tick_budget(args: &[String]) -> i32 {
    let text = std::fs::read_to_string(&args[0]).expect("cfg file");
    let mut sim = match Sim::new(&text, &[]) {
        Ok(s) => s,
        Err(e) => {
            eprintln!("tick-budget: {e}");
            return 2;
        }
    };
    let mut w = BufWriter::new(std::fs::File::create(&args[1]).expect("out file"));
    let mut tries = 0u64;
    let mut clean = 0u64;
    while tries < 400 && clean < 5 {
        tries += 1;
        sim.k.verif_set_elapsed_ms(0);
        let t0 = Instant::now();
        while t0.elapsed() < Duration::from_micros(600) {
            std::hint::spin_loop();
        }
        let a = sim.k.verif_handle_time_ticks(&None).unwrap_or(999);
        let b = sim.k.verif_handle_time_ticks(&None).unwrap_or(999);
        let us = t0.elapsed().as_micros() as u64;
        if a == 0 && us < 900 {
            writeln!(w, "{}", json!({"e":"pair","mode":"tickclock","job":"tickclock","case":clean,"cut":0,"K":0,"cont":"all",
                "down":[],"pre":{"osp":0,"ost":0,"nosk":0,"kdiff":false,"cv2edge":false,"drec":false,"xw":0},"gap":[],"A":[],"B":[],
                "ticks":[a, b],"elapsed_us":us})).unwrap();
            clean += 1;
        }
    }
    writeln!(w, "{}", json!({"e":"case","job":"tickclock","case":0,"steps":0,"scanned":0,"ticks":0,"cbticks":0,
        "points":clean,"used":clean,"problem":""})).unwrap();
    writeln!(w, "{}", json!({"e":"end"})).unwrap();
    w.flush().unwrap();
    0
}
