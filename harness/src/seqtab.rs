//! C12 part 1: give `defseq` tables to the real parser and report what it did.
//!
//! seq-tables <universe.json> <tables.ndjson> <out.ndjson>
//!   universe: {"defs": ["(a b)", "(S-a)", ...], "pre": "<config text before the defseq forms>"}
//!   tables  : one line per table: {"t":[1-based indices into defs]}  or  {"cfg": "<whole text>"}
//!   out     : {"t"|"cfg":.., "ok":bool, "err":str, "keys":[{"k":[u16..],"v":y}..], "probe_bad":n}
//!
//! Definition number i of a table is bound to the virtual key `v<i>` (y = i-1).  The trie contents
//! are read off the derived `Debug` rendering of `cfg.sequences` (the map inside is private) and
//! cross-checked through the public `get_or_descendant_exists`: every dumped key must answer
//! `HasValue((x, y))` with the dumped value and every proper prefix `InTrie` (probe_bad counts the
//! answers that differ).
use kanata_parser::trie::GetOrDescendentExistsResult;
use serde_json::{json, Value};
use std::io::{BufRead, BufWriter, Write};

/// `Trie { inner: {[30, 0, 48, 0]: (1, 0), [..]: (1, 1)} }` -> [(u16 key, x, y)]
pub fn trie_entries(dbg: &str) -> Result<Vec<(Vec<u16>, u8, u16)>, String> {
    let start = dbg.find("inner: {").ok_or("no inner map in Debug output")? + "inner: {".len();
    let body = &dbg[start..];
    let mut out = vec![];
    let mut rest = body;
    loop {
        let rest_t = rest.trim_start_matches([',', ' ', '\n']);
        if rest_t.starts_with('}') || rest_t.is_empty() {
            break;
        }
        let rb = rest_t.strip_prefix('[').ok_or_else(|| format!("expected [ at {rest_t:.40}"))?;
        let close = rb.find(']').ok_or("no ]")?;
        let bytes: Vec<u8> = rb[..close]
            .split(',')
            .filter(|s| !s.trim().is_empty())
            .map(|s| s.trim().parse::<u8>().map_err(|e| format!("byte {s}: {e}")))
            .collect::<Result<_, _>>()?;
        if bytes.len() % 2 != 0 {
            return Err("odd key length".into());
        }
        let key: Vec<u16> = bytes
            .chunks(2)
            .map(|c| u16::from_ne_bytes([c[0], c[1]]))
            .collect();
        let after = rb[close + 1..].trim_start();
        let after = after.strip_prefix(':').ok_or("no :")?.trim_start();
        let after = after.strip_prefix('(').ok_or("no (")?;
        let cp = after.find(')').ok_or("no )")?;
        let mut nums = after[..cp].split(',').map(|s| s.trim().parse::<u32>());
        let x = nums.next().ok_or("no x")?.map_err(|e| e.to_string())? as u8;
        let y = nums.next().ok_or("no y")?.map_err(|e| e.to_string())? as u16;
        out.push((key, x, y));
        rest = &after[cp + 1..];
    }
    Ok(out)
}

pub fn sequences_json(cfg: &kanata_parser::cfg::Cfg) -> Result<(Vec<Value>, u64), String> {
    let dbg = format!("{:?}", cfg.sequences);
    let ents = trie_entries(&dbg)?;
    let mut bad = 0u64;
    let mut keys = vec![];
    for (k, x, y) in &ents {
        match cfg.sequences.get_or_descendant_exists(k) {
            GetOrDescendentExistsResult::HasValue((i, j)) if i == *x && j == *y => {}
            _ => bad += 1,
        }
        for n in 1..k.len() {
            // a proper prefix of a stored key: InTrie (or HasValue when the table is ambiguous)
            if cfg.sequences.get_or_descendant_exists(&k[..n]) == GetOrDescendentExistsResult::NotInTrie {
                bad += 1;
            }
        }
        keys.push(json!({"k": k, "v": y, "x": x}));
    }
    Ok((keys, bad))
}

/// the trie for the parser dump (binding A); an unreadable Debug rendering is reported as a string
pub fn sequences_for_dump(cfg: &kanata_parser::cfg::Cfg) -> Value {
    match sequences_json(cfg) {
        Ok((keys, _)) => json!(keys
            .iter()
            .map(|e| json!({"k": e["k"], "x": e["x"], "y": e["v"]}))
            .collect::<Vec<_>>()),
        Err(e) => json!(format!("unreadable: {e}")),
    }
}

pub fn cmd(args: &[String]) -> i32 {
    let uni: Value = serde_json::from_reader(std::fs::File::open(&args[0]).expect("universe")).expect("json");
    let defs: Vec<String> = uni["defs"]
        .as_array()
        .map(|a| a.iter().map(|x| x.as_str().unwrap_or("").to_string()).collect())
        .unwrap_or_default();
    let pre = uni["pre"].as_str().unwrap_or("").to_string();
    let f = std::io::BufReader::new(std::fs::File::open(&args[1]).expect("tables"));
    let mut w = BufWriter::new(std::fs::File::create(&args[2]).expect("out"));
    crate::install_panic_hook();
    for line in f.lines() {
        let line = line.unwrap();
        if line.trim().is_empty() {
            continue;
        }
        let v: Value = match serde_json::from_str(&line) {
            Ok(v) => v,
            Err(e) => {
                eprintln!("bad table line: {e}");
                return 2;
            }
        };
        let (text, mut res) = if let Some(c) = v.get("cfg").and_then(|c| c.as_str()) {
            (c.to_string(), json!({"cfg": c}))
        } else {
            let t: Vec<usize> = v["t"]
                .as_array()
                .map(|a| a.iter().map(|x| x.as_u64().unwrap_or(0) as usize).collect())
                .unwrap_or_default();
            let mut s = pre.clone();
            for (i, di) in t.iter().enumerate() {
                if *di == 0 || *di > defs.len() {
                    eprintln!("bad def index {di}");
                    return 2;
                }
                s.push_str(&format!("(defseq v{} {})\n", i + 1, defs[*di - 1]));
            }
            (s, json!({"t": t}))
        };
        let r = std::panic::catch_unwind(|| kanata_parser::cfg::new_from_str(&text, Default::default()));
        match r {
            Ok(Ok(cfg)) => match sequences_json(&cfg) {
                Ok((keys, bad)) => {
                    res["ok"] = json!(true);
                    res["keys"] = json!(keys);
                    res["probe_bad"] = json!(bad);
                }
                Err(e) => {
                    eprintln!("cannot read the trie: {e}");
                    return 2;
                }
            },
            Ok(Err(e)) => {
                res["ok"] = json!(false);
                res["keys"] = json!([]);
                res["err"] = json!(format!("{e:?}").chars().take(300).collect::<String>());
            }
            Err(_) => {
                let (loc, msg) = crate::take_panic();
                res["ok"] = json!(false);
                res["keys"] = json!([]);
                res["panic"] = json!(format!("{loc}: {msg}"));
            }
        }
        writeln!(w, "{}", res).unwrap();
    }
    w.flush().unwrap();
    0
}
