//! C20 (zippychord) support.
//!
//! zippy-dump  <job.json> <comma-separated universe codes> <out.json>
//!     job = {"cfg": kbd text, "files": {name: content}}.  Parses the configuration with the real parser and
//!     dumps what `defzippy` produced: the options and, for every chord map (top level and every follow-up map),
//!     the answer of the real `ssm_get_or_is_subset_ksorted` for EVERY subset of the universe (binding A: the
//!     constants of spec/Zippy.tla come from here, the subset-trie semantics is cross-checked in tools/props/c20.py).
//! zippy-edges <job.json> <edges.ndjson> <out.json>
//!     like replay-edges but with a `files` map; compares the OS output of the last step and `idle`.
//!     The zippychord state is a process-global singleton: one Kanata instance at a time (sequential).
use crate::keys::KeyNames;
use crate::sim::Sim;
use kanata_parser::cfg::{ZchOutput, ZchPossibleChords, ZchSmartSpaceCfg};
use kanata_parser::subset::GetOrIsSubsetOfKnownKey;
use serde_json::{json, Value};
use std::io::BufRead;

fn out_json(o: &ZchOutput) -> Value {
    use ZchOutput::*;
    let (sh, ag, ne) = match o {
        Lowercase(_) => (false, false, false),
        Uppercase(_) => (true, false, false),
        AltGr(_) => (false, true, false),
        ShiftAltGr(_) => (true, true, false),
        NoEraseLowercase(_) => (false, false, true),
        NoEraseUppercase(_) => (true, false, true),
        NoEraseAltGr(_) => (false, true, true),
        NoEraseShiftAltGr(_) => (true, true, true),
    };
    json!({"c": o.osc().as_u16(), "sh": sh, "ag": ag, "ne": ne})
}

/// Dumps one chord map: appends to `maps` and `nodes`; returns the map's index (1-based).
fn dump_map(m: &ZchPossibleChords, universe: &[u16], maps: &mut Vec<Value>, nodes: &mut Vec<Value>) -> usize {
    let my = maps.len();
    maps.push(Value::Null);
    let n = universe.len();
    let mut table = vec![];
    for mask in 0u32..(1u32 << n) {
        let mut key: Vec<u16> = (0..n).filter(|i| mask & (1 << i) != 0).map(|i| universe[i]).collect();
        key.sort();
        let r = m.0.ssm_get_or_is_subset_ksorted(&key);
        match r {
            GetOrIsSubsetOfKnownKey::HasValue(a) => {
                let ni = nodes.len();
                nodes.push(Value::Null);
                let fm = match &a.zch_followups {
                    Some(f) => {
                        let g = f.lock();
                        dump_map(&g, universe, maps, nodes)
                    }
                    None => 0,
                };
                nodes[ni] = json!({"out": a.zch_output.iter().map(out_json).collect::<Vec<_>>(), "fmap": fm});
                table.push(json!({"keys": key, "k": "H", "n": ni + 1}));
            }
            GetOrIsSubsetOfKnownKey::IsSubset => table.push(json!({"keys": key, "k": "S", "n": 0})),
            GetOrIsSubsetOfKnownKey::Neither => table.push(json!({"keys": key, "k": "N", "n": 0})),
        }
    }
    maps[my] = json!(table);
    my + 1
}

fn read_job(path: &str) -> (String, Vec<(String, String)>) {
    let job: Value = serde_json::from_reader(std::fs::File::open(path).expect("job file")).expect("job json");
    let cfg = job["cfg"].as_str().expect("cfg").to_string();
    let mut files = vec![];
    if let Some(m) = job["files"].as_object() {
        for (k, v) in m {
            files.push((k.clone(), v.as_str().unwrap_or("").to_string()));
        }
    }
    (cfg, files)
}

pub fn cmd_zippy_dump(args: &[String]) -> i32 {
    let (cfg, files) = read_job(&args[0]);
    let universe: Vec<u16> = args[1].split(',').filter(|s| !s.is_empty()).map(|s| s.parse().expect("code")).collect();
    let mut fc: rustc_hash::FxHashMap<String, String> = Default::default();
    for (k, v) in &files {
        fc.insert(k.clone(), v.clone());
    }
    match kanata_parser::cfg::new_from_str(&cfg, fc) {
        Ok(c) => {
            let Some((chords, zc)) = c.zippy else {
                eprintln!("no defzippy in the configuration");
                return 2;
            };
            let mut maps = vec![];
            let mut nodes = vec![];
            let top = dump_map(&chords, &universe, &mut maps, &mut nodes);
            let mut punct: Vec<Value> = zc.zch_cfg_smart_space_punctuation.iter().map(out_json).collect();
            punct.sort_by_key(|v| v.to_string());
            let v = json!({
                "top": top, "maps": maps, "nodes": nodes,
                "wait_enable": zc.zch_cfg_ticks_wait_enable,
                "deadline": zc.zch_cfg_ticks_chord_deadline,
                "smart_space": match zc.zch_cfg_smart_space {
                    ZchSmartSpaceCfg::Full => "full",
                    ZchSmartSpaceCfg::AddSpaceOnly => "add",
                    ZchSmartSpaceCfg::Disabled => "none",
                },
                "punct": punct,
            });
            std::fs::write(&args[2], serde_json::to_string(&v).unwrap()).unwrap();
            0
        }
        Err(e) => {
            eprintln!("parse error: {e:?}");
            2
        }
    }
}

pub fn cmd_zippy_edges(args: &[String]) -> i32 {
    let names = KeyNames::new();
    let (cfg, files) = read_job(&args[0]);
    let f = std::io::BufReader::new(std::fs::File::open(&args[1]).expect("edges file"));
    let mut total = 0u64;
    let mut nmis = 0u64;
    let mut panics = 0u64;
    let mut samples: Vec<Value> = vec![];
    for line in f.lines() {
        let line = line.unwrap();
        if line.trim().is_empty() {
            continue;
        }
        let e: Value = match serde_json::from_str(&line) {
            Ok(v) => v,
            Err(err) => {
                eprintln!("bad edge line: {err}: {line}");
                return 2;
            }
        };
        total += 1;
        let h = e["h"].as_array().unwrap().clone();
        let x = &e["x"];
        let r = std::panic::catch_unwind(std::panic::AssertUnwindSafe(|| -> Result<Value, String> {
            let mut sim = Sim::new(&cfg, &files)?;
            let mut out: Vec<Value> = vec![];
            let mut flags = None;
            for st in &h {
                let kind = st[0].as_str().unwrap_or("");
                if kind == "t" {
                    flags = Some(sim.tick()?);
                } else {
                    sim.input(kind, st[1].as_u64().unwrap_or(0) as u16)?;
                    flags = None;
                }
                out = sim.drain(&names);
            }
            let mut obs = json!({"out": out});
            if let Some((idle, _cb)) = flags {
                obs["idle"] = json!(idle);
            }
            Ok(obs)
        }));
        let obs = match r {
            Ok(Ok(o)) => o,
            Ok(Err(msg)) => json!({"error": msg}),
            Err(_) => {
                panics += 1;
                json!({"panic": true})
            }
        };
        let mut ok = true;
        if let Some(xm) = x.as_object() {
            for (k, xv) in xm {
                if &obs[k] != xv {
                    ok = false;
                }
            }
        }
        if !ok {
            nmis += 1;
            if samples.len() < 400 {
                samples.push(json!({"h": h, "expected": x, "observed": obs}));
            }
        }
    }
    let res = json!({"edges": total, "mismatches": nmis, "panics": panics, "samples": samples});
    std::fs::write(&args[2], serde_json::to_string(&res).unwrap()).unwrap();
    0
}
