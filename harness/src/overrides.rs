//! C13: drive the real `Overrides::override_keys` (parser/src/cfg/key_override.rs) on enumerated
//! (override table, active-key list) pairs.
//!
//! Tables are built either with the public constructors (`Override::try_new` + `Overrides::new`)
//! or, when a line carries a `cfg` text, by the real parser from a `defoverrides` form.
//! One `OverrideStates` value is reused over all calls of a table, as `Kanata` does.
use kanata_keyberon::key_code::KeyCode;
use kanata_parser::cfg::{Override, OverrideStates, Overrides};
use kanata_parser::keys::OsCode;
use serde_json::{json, Value};
use std::io::{BufRead, BufWriter, Write};

fn codes(v: &Value) -> Vec<u16> {
    v.as_array()
        .map(|a| a.iter().map(|x| x.as_u64().unwrap_or(0) as u16).collect())
        .unwrap_or_default()
}

fn oscs(v: &Value) -> Result<Vec<OsCode>, String> {
    codes(v)
        .into_iter()
        .map(|c| OsCode::from_u16(c).ok_or_else(|| format!("no OsCode for {c}")))
        .collect()
}

/// table = [{"i":[codes],"o":[codes]}...]
fn build_table(ovs: &[&Value]) -> Result<Overrides, String> {
    let mut v = vec![];
    for o in ovs {
        let i = oscs(&o["i"])?;
        let ou = oscs(&o["o"])?;
        v.push(Override::try_new(&i, &ou).map_err(|e| format!("try_new: {e}"))?);
    }
    Ok(Overrides::new(&v))
}

fn build_from_cfg(text: &str) -> Result<Overrides, String> {
    kanata_parser::cfg::new_from_str(text, Default::default())
        .map(|c| c.overrides)
        .map_err(|e| format!("parse: {e:?}"))
}

fn apply(ovr: &Overrides, st: &mut OverrideStates, list: &[u16]) -> Result<Vec<u16>, String> {
    let mut kcs: Vec<KeyCode> = vec![];
    for c in list {
        let o = OsCode::from_u16(*c).ok_or_else(|| format!("no OsCode for {c}"))?;
        kcs.push(o.into());
    }
    ovr.override_keys(&mut kcs, st);
    Ok(kcs.into_iter().map(|k| k as u16).collect())
}

/// ovr-cases <universe.json> <cases.ndjson> <out.json> <mismatch.ndjson>
/// universe: {"ovs":[{"i","o"}...], "lists":[[codes]...]}
/// cases (exported by TLC): {"t":[1-based indices into ovs], "r":{list index: [codes]}} (sparse)
/// Every (table, list) is evaluated on the real code and compared with the expectation; each
/// differing case is written to mismatch.ndjson as {"ovs","lists":[list],"real":[result],"exp":[..]}.
pub fn cmd_cases(args: &[String]) -> i32 {
    let uni: Value =
        serde_json::from_reader(std::fs::File::open(&args[0]).expect("universe")).expect("json");
    let ovs: Vec<&Value> = uni["ovs"].as_array().unwrap().iter().collect();
    let lists: Vec<Vec<u16>> = uni["lists"].as_array().unwrap().iter().map(codes).collect();
    let f = std::io::BufReader::new(std::fs::File::open(&args[1]).expect("cases"));
    let mut mm = BufWriter::new(std::fs::File::create(&args[3]).expect("mismatch file"));
    let (mut ntab, mut ncase, mut nmis, mut nerr, mut nchanged) = (0u64, 0u64, 0u64, 0u64, 0u64);
    let mut samples: Vec<Value> = vec![];
    for line in f.lines() {
        let line = line.unwrap();
        if line.trim().is_empty() {
            continue;
        }
        let c: Value = match serde_json::from_str(&line) {
            Ok(v) => v,
            Err(e) => {
                eprintln!("bad case line: {e}: {line}");
                return 2;
            }
        };
        ntab += 1;
        let tv: Vec<&Value> = c["t"]
            .as_array()
            .unwrap()
            .iter()
            .map(|i| ovs[i.as_u64().unwrap() as usize - 1])
            .collect();
        // sparse expectation: {"<1-based list index>": result} for the lists the model changes,
        // identity for every other list ([] when the table changes no list at all)
        let exp = &c["r"];
        let tab = match build_table(&tv) {
            Ok(t) => t,
            Err(e) => {
                nerr += 1;
                writeln!(mm, "{}", json!({"ovs": tv, "lists": [], "real": [], "err": e})).unwrap();
                continue;
            }
        };
        let mut st = OverrideStates::new();
        for (li, list) in lists.iter().enumerate() {
            ncase += 1;
            let real = match apply(&tab, &mut st, list) {
                Ok(r) => r,
                Err(e) => {
                    eprintln!("{e}");
                    return 2;
                }
            };
            if &real != list {
                nchanged += 1;
            }
            let e = match exp.get((li + 1).to_string()) {
                Some(v) => codes(v),
                None => list.clone(),
            };
            if real != e {
                nmis += 1;
                let v = json!({"ovs": tv, "lists": [list], "real": [real], "exp": [e]});
                writeln!(mm, "{}", v).unwrap();
                if samples.len() < 10 {
                    samples.push(v);
                }
            } else if samples.len() < 3 && &real != list && tv.len() > 1 {
                samples.push(json!({"ovs": tv, "list": list, "real": real, "agrees": true}));
            }
        }
    }
    mm.flush().unwrap();
    let res = json!({"tables": ntab, "cases": ncase, "mismatches": nmis, "build_errors": nerr,
        "changed": nchanged, "samples": samples});
    std::fs::write(&args[2], serde_json::to_string(&res).unwrap()).unwrap();
    0
}

/// ovr-eval <in.ndjson> <out.ndjson>
/// first line may be {"listsets": {name: [[codes]...]}}; then lines
/// {"ovs":[{"i","o"}...], ("cfg": kbd text with defoverrides), "lists":[[codes]...] | "ls": name}
/// Output: the input line plus "real":[[codes] per list] or "err".
pub fn cmd_eval(args: &[String]) -> i32 {
    let f = std::io::BufReader::new(std::fs::File::open(&args[0]).expect("in"));
    let mut w = BufWriter::new(std::fs::File::create(&args[1]).expect("out"));
    let mut listsets = serde_json::Map::new();
    for line in f.lines() {
        let line = line.unwrap();
        if line.trim().is_empty() {
            continue;
        }
        let mut c: Value = match serde_json::from_str(&line) {
            Ok(v) => v,
            Err(e) => {
                eprintln!("bad line: {e}: {line}");
                return 2;
            }
        };
        if let Some(ls) = c.get("listsets") {
            listsets = ls.as_object().unwrap().clone();
            continue;
        }
        let lists: Vec<Vec<u16>> = match c.get("ls").and_then(|v| v.as_str()) {
            Some(name) => listsets[name].as_array().unwrap().iter().map(codes).collect(),
            None => c["lists"].as_array().unwrap().iter().map(codes).collect(),
        };
        let tab = match c.get("cfg").and_then(|v| v.as_str()) {
            Some(text) => build_from_cfg(text),
            None => {
                let tv: Vec<&Value> = c["ovs"].as_array().unwrap().iter().collect();
                build_table(&tv)
            }
        };
        let mut out = serde_json::Map::new();
        out.insert("ovs".into(), c["ovs"].clone());
        if let Some(t) = c.get("tag") {
            out.insert("tag".into(), t.clone());
        }
        if let Some(t) = c.get("cfg") {
            out.insert("cfg".into(), t.clone());
        }
        match tab {
            Err(e) => {
                out.insert("lists".into(), json!([]));
                out.insert("real".into(), json!([]));
                out.insert("err".into(), json!(e));
            }
            Ok(tab) => {
                let mut st = OverrideStates::new();
                let mut real = vec![];
                for l in &lists {
                    match apply(&tab, &mut st, l) {
                        Ok(r) => real.push(r),
                        Err(e) => {
                            eprintln!("{e}");
                            return 2;
                        }
                    }
                }
                match c.get("ls") {
                    Some(name) => out.insert("ls".into(), name.clone()),
                    None => out.insert("lists".into(), json!(lists)),
                };
                out.insert("real".into(), json!(real));
            }
        }
        c = Value::Object(out);
        writeln!(w, "{}", c).unwrap();
    }
    w.flush().unwrap();
    0
}
