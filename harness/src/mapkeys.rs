//! C11, intercept set across live reloads: the set of keys the OS input loop intercepts
//! (`MAPPED_KEYS`, read through the verification hook `Kanata::verif_mapped_keys`) after start-up
//! and after every step of a script that rewrites the configuration file and requests reloads.
//!
//! c11-reload <cases.json> <out.ndjson> <scratch dir>
//!   cases = [{"tag":any, "texts":{kind:kbd text}, "start":kind, "script":[step..]}..]
//!   step  = ["w",kind]  the configuration file gets the content `kind` ("missing": no file)
//!           ["d"|"u",code] | ["t",n]  (n iterations of the processing loop with 1 ms elapsed each:
//!           verif_set_elapsed_ms(1); verif_handle_time_ticks; the deferred reload sits in there)
//!   out   = one line per case {"tag":..,"obs":[{"i":step index (0 = after start-up),"mk":[codes],
//!           "repl":layout object replaced since the previous observation,"file":content kind of
//!           the file at that moment}..]} or {"tag":..,"err":text} / {"tag":..,"panic":text}
//! `xset` is made unavailable (PATH) as in reload.rs, so a new configuration with
//! linux-x11-repeat-delay-rate parses but its reload fails in a late step.  MAPPED_KEYS is
//! process-global: one Kanata is alive at a time and the set is read directly after each step.
//! Nothing is judged here: P_C11!ReloadBad decides.
use crate::sim::Sim;
use kanata_state_machine::Kanata;
use kanata_tcp_protocol::ServerMessage;
use serde_json::{json, Value};
use std::io::{BufWriter, Write};
use std::path::PathBuf;
use std::sync::mpsc::sync_channel;

fn layers_ptr(k: &Kanata) -> usize {
    k.layout.b().layers.as_ptr() as usize
}

fn mapped() -> Vec<u16> {
    let mut v: Vec<u16> = Kanata::verif_mapped_keys().iter().map(|o| o.as_u16()).collect();
    v.sort();
    v
}

fn write_file(p: &PathBuf, texts: &Value, kind: &str) -> Result<(), String> {
    if p.exists() {
        std::fs::remove_file(p).map_err(|e| e.to_string())?;
    }
    if kind != "missing" {
        let t = texts[kind].as_str().ok_or_else(|| format!("no text for kind {kind}"))?;
        std::fs::write(p, t).map_err(|e| e.to_string())?;
    }
    Ok(())
}

fn run_case(case: &Value, dir: &PathBuf) -> Result<Vec<Value>, String> {
    let texts = &case["texts"];
    let start = case["start"].as_str().unwrap_or("O");
    let p = dir.join("f0.kbd");
    write_file(&p, texts, start)?;
    let mut file = start.to_string();
    let mut sim = Sim::new(texts[start].as_str().ok_or("no start text")?, &[])?;
    sim.k.cfg_paths = vec![p.clone()];
    sim.k.cur_cfg_idx = 0;
    let (tx, rx) = sync_channel::<ServerMessage>(1000);
    let tx = Some(tx);
    let mut lp = layers_ptr(&sim.k);
    let mut obs = vec![json!({"i": 0, "mk": mapped(), "repl": false, "file": file})];
    for (si, st) in case["script"].as_array().map(|a| a.as_slice()).unwrap_or(&[]).iter().enumerate() {
        match st[0].as_str().unwrap_or("") {
            "w" => {
                let kind = st[1].as_str().unwrap_or("");
                write_file(&p, texts, kind)?;
                file = kind.to_string();
            }
            k @ ("d" | "u") => sim.input(k, st[1].as_u64().unwrap_or(0) as u16)?,
            "t" => {
                for _ in 0..st[1].as_u64().unwrap_or(1) {
                    sim.k.verif_set_elapsed_ms(1);
                    // a failing reload is reported as Ok by the loop (it logs and goes on); an Err here is data too
                    let _ = sim.k.verif_handle_time_ticks(&tx);
                    while rx.try_recv().is_ok() {}
                }
            }
            _ => return Err(format!("bad step {st}")),
        }
        let np = layers_ptr(&sim.k);
        obs.push(json!({"i": si + 1, "mk": mapped(), "repl": np != lp, "file": file}));
        lp = np;
    }
    Ok(obs)
}

pub fn cmd(args: &[String]) -> i32 {
    std::env::set_var("PATH", "/nonexistent-kverif");
    let cases: Vec<Value> =
        serde_json::from_reader(std::fs::File::open(&args[0]).expect("cases file")).expect("json");
    let mut w = BufWriter::new(std::fs::File::create(&args[1]).expect("out file"));
    let dir = PathBuf::from(&args[2]).join(format!("mk_{}", std::process::id()));
    let _ = std::fs::remove_dir_all(&dir);
    std::fs::create_dir_all(&dir).expect("scratch dir");
    crate::install_panic_hook();
    for case in &cases {
        let r = std::panic::catch_unwind(std::panic::AssertUnwindSafe(|| run_case(case, &dir)));
        let line = match r {
            Ok(Ok(obs)) => json!({"tag": case["tag"], "obs": obs}),
            Ok(Err(e)) => json!({"tag": case["tag"], "err": e.chars().take(300).collect::<String>()}),
            Err(_) => {
                let (loc, msg) = crate::take_panic();
                json!({"tag": case["tag"], "panic": format!("{loc}: {msg}")})
            }
        };
        writeln!(w, "{}", line).unwrap();
    }
    w.flush().unwrap();
    let _ = std::fs::remove_dir_all(&dir);
    0
}
