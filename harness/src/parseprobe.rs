//! C03 workers: configuration parsing is total.
//!
//! parse-probe <in.ndjson> <out.ndjson> [per-text-timeout-ms] [byte offset to start at] [filesets.json]
//!     in : {"id":..,"text":..,"files":{name:content} | "fs":key into filesets.json,("path":<file to load with new_from_file>)}
//!     out: {"id":..,"begin":true} before each text (flushed), then
//!          {"id":..,"outcome":"ok"|"err"|"panic"|"timeout", "span":[start,end] | null, "file":name | null,
//!           "in_bounds":bool, "nolabel":bool, "msg":.., "render_len":n, "loc":panic location, "pmsg":..,
//!           "phase":"load"|"render", "us":micro seconds}
//!     Every text is processed on a fresh thread with an 8 MiB stack inside catch_unwind.  A stack
//!     overflow or an allocation failure kills the process (signal): the orchestrator finds the
//!     culprit as the last `begin` without a result and restarts the worker behind it.  A text
//!     exceeding the watchdog gets outcome "timeout" and the worker exits with status 3 (the stuck
//!     thread cannot be cancelled), to be restarted behind it as well.
//! lex-enum <maxlen> <out.ndjson|-> <shard> <nshards> [check]
//!     all strings up to maxlen over the 12-symbol alphabet of spec/Lexer.tla; records the result of
//!     the real kanata_parser::cfg::sexpr::parse as {"b":[bytes],"r":result} (result format = Lexer!Parse);
//!     with `check` only the outcome relation is evaluated and a summary is written.
//! sexpr-tree <in.ndjson> <out.ndjson>
//!     {"id","text"} -> {"id","ok":true,"top":[node..]} with node = {"a":text,"k":class} | {"l":[node..]},
//!     read by the real reader (sexpr::parse); ok:false when the text does not lex.
use kanata_parser::cfg::sexpr::{self, SExpr, Span};
use miette::{GraphicalReportHandler, GraphicalTheme, SourceSpan};
use serde_json::{json, Value};
use std::io::{BufRead, BufWriter, Write};
use std::time::{Duration, Instant};

const STACK: usize = 8 * 1024 * 1024;

fn probe_one(j: &Value, filesets: &Value) -> Value {
    let text = j["text"].as_str().unwrap_or("").to_string();
    let mut files: std::collections::HashMap<String, String, _> = Default::default();
    // includable files: inline ("files") or a reference ("fs") into the file sets given on the command line
    let fsv = match j.get("fs").and_then(|k| k.as_str()) {
        Some(k) => &filesets[k],
        None => &j["files"],
    };
    if let Some(m) = fsv.as_object() {
        for (k, v) in m {
            files.insert(k.clone(), v.as_str().unwrap_or("").to_string());
        }
    }
    let path = j.get("path").and_then(|p| p.as_str()).map(|s| s.to_string());
    let phase = std::sync::Arc::new(std::sync::Mutex::new("load"));
    let ph2 = phase.clone();
    let t0 = Instant::now();
    let r = std::panic::catch_unwind(std::panic::AssertUnwindSafe(move || -> Value {
        let res = match &path {
            Some(p) => kanata_parser::cfg::new_from_file(std::path::Path::new(p)),
            None => kanata_parser::cfg::new_from_str(&text, files),
        };
        match res {
            Ok(_) => json!({"outcome":"ok"}),
            Err(e) => {
                *ph2.lock().unwrap() = "render";
                let mut out = json!({"outcome":"err","span":Value::Null,"file":Value::Null,"in_bounds":true,"nolabel":true});
                let labels: Vec<miette::LabeledSpan> =
                    e.labels().map(|it| it.collect()).unwrap_or_default();
                if let Some(src) = e.source_code() {
                    if let Ok(c) = src.read_span(&SourceSpan::new(0.into(), 0.into()), 0, 0) {
                        if let Some(n) = c.name() {
                            out["file"] = json!(n);
                        }
                    }
                    if let Some(l) = labels.first() {
                        out["span"] = json!([l.offset(), l.offset() + l.len()]);
                        out["nolabel"] = json!(false);
                        out["in_bounds"] = json!(src.read_span(l.inner(), 0, 0).is_ok());
                    }
                } else if let Some(l) = labels.first() {
                    // a location without a file to look it up in
                    out["span"] = json!([l.offset(), l.offset() + l.len()]);
                    out["nolabel"] = json!(false);
                    out["in_bounds"] = json!(false);
                }
                // what kanata does with the report: log::error!("{e:?}") (default handler) ...
                let r1 = format!("{:?}", e);
                // ... and what an interactive terminal would get (unicode theme, fixed width)
                let mut r2 = String::new();
                let h = GraphicalReportHandler::new_themed(GraphicalTheme::unicode()).with_width(80);
                let _ = h.render_report(&mut r2, e.as_ref());
                let msg = e
                    .help()
                    .map(|h| h.to_string())
                    .unwrap_or_else(|| e.to_string());
                let msg: String = msg.lines().next().unwrap_or("").chars().take(160).collect();
                out["msg"] = json!(msg);
                out["render_len"] = json!(r1.len() + r2.len());
                out
            }
        }
    }));
    let us = t0.elapsed().as_micros() as u64;
    let mut v = match r {
        Ok(v) => v,
        Err(_) => {
            let (loc, msg) = crate::take_panic();
            let msg: String = msg.chars().take(200).collect();
            json!({"outcome":"panic","loc":loc,"pmsg":msg,"phase":*phase.lock().unwrap()})
        }
    };
    v["us"] = json!(us);
    v
}

pub fn cmd_parse_probe(args: &[String]) -> i32 {
    use std::sync::atomic::{AtomicBool, AtomicU64, Ordering};
    use std::sync::{Arc, Mutex};
    let inp = args[0].clone();
    let w = Arc::new(Mutex::new(BufWriter::new(
        std::fs::File::create(&args[1]).expect("output file"),
    )));
    let to_ms: u64 = args.get(2).map(|s| s.parse().expect("timeout ms")).unwrap_or(5000);
    let skip: u64 = args.get(3).map(|s| s.parse().expect("skip")).unwrap_or(0);
    let filesets: Value = match args.get(4) {
        Some(p) => serde_json::from_reader(std::fs::File::open(p).expect("file sets")).expect("file sets json"),
        None => Value::Null,
    };
    crate::install_panic_hook();
    // One long-lived worker thread with the 8 MiB stack does all the work; this thread is only the
    // watchdog (a hand-over per text costs about a millisecond of wake-up latency here).
    let started = Arc::new(AtomicU64::new(0)); // ms since t0 at which the current text began, 0 = none
    let cur: Arc<Mutex<Value>> = Arc::new(Mutex::new(Value::Null));
    let done = Arc::new(AtomicBool::new(false));
    let rc = Arc::new(AtomicU64::new(0));
    let t0 = Instant::now();
    let (w2, started2, cur2, done2, rc2) = (w.clone(), started.clone(), cur.clone(), done.clone(), rc.clone());
    let th = std::thread::Builder::new()
        .stack_size(STACK)
        .spawn(move || {
            use std::io::{Seek, SeekFrom};
            let mut file = std::fs::File::open(&inp).expect("input file");
            file.seek(SeekFrom::Start(skip)).expect("seek");
            let f = std::io::BufReader::new(file);
            for line in f.lines() {
                let line = line.unwrap();
                let j: Value = match serde_json::from_str(&line) {
                    Ok(v) => v,
                    Err(e) => {
                        eprintln!("bad probe line: {e}");
                        rc2.store(2, Ordering::SeqCst);
                        break;
                    }
                };
                let id = j["id"].clone();
                {
                    let mut g = w2.lock().unwrap();
                    writeln!(g, "{}", json!({"id": id, "begin": true})).unwrap();
                    g.flush().unwrap();
                }
                *cur2.lock().unwrap() = id.clone();
                started2.store(t0.elapsed().as_millis() as u64 + 1, Ordering::SeqCst);
                let mut v = probe_one(&j, &filesets);
                started2.store(0, Ordering::SeqCst);
                v["id"] = id;
                let mut g = w2.lock().unwrap();
                writeln!(g, "{}", v).unwrap();
                g.flush().unwrap();
            }
            done2.store(true, Ordering::SeqCst);
        })
        .expect("spawn");
    loop {
        if done.load(Ordering::SeqCst) {
            let _ = th.join();
            break;
        }
        if th.is_finished() {
            // the worker died without finishing (cannot happen with catch_unwind, kept as a guard)
            return 4;
        }
        let st = started.load(Ordering::SeqCst);
        if st != 0 && t0.elapsed().as_millis() as u64 + 1 > st + to_ms {
            let id = cur.lock().unwrap().clone();
            // still the same text?
            if started.load(Ordering::SeqCst) == st {
                let mut g = w.lock().unwrap();
                writeln!(g, "{}", json!({"id": id, "outcome":"timeout", "ms": to_ms})).unwrap();
                g.flush().unwrap();
                std::process::exit(3);
            }
        }
        std::thread::sleep(Duration::from_millis(20));
    }
    w.lock().unwrap().flush().unwrap();
    rc.load(std::sync::atomic::Ordering::SeqCst) as i32
}

// ------------------------------------------------------------------ lexer conformance
pub const ALPHABET: [&[u8]; 12] = [
    b"(", b")", b"\"", b";", b"#", b"|", b"r", b"a", b"$", b" ", b"\n", &[0xC3, 0xA9],
];

fn span6(s: &Span) -> Value {
    json!([
        s.start.absolute,
        s.end.absolute,
        s.start.line,
        s.start.line_beginning,
        s.end.line,
        s.end.line_beginning
    ])
}

fn node(e: &SExpr) -> Value {
    match e {
        SExpr::Atom(a) => json!({"a": span6(&a.span)}),
        SExpr::List(l) => {
            json!({"l": span6(&l.span), "c": l.t.iter().map(node).collect::<Vec<_>>()})
        }
    }
}

fn err_code(msg: &str) -> String {
    for (p, c) in [
        ("Unterminated string", "ustr"),
        ("Unterminated multiline string", "umstr"),
        ("Unterminated multiline comment", "ucomment"),
        ("Unexpected closing parenthesis", "uclose"),
        ("Unclosed opening parenthesis", "uopen"),
        ("Everything must be in a list", "topatom"),
    ] {
        if msg.starts_with(p) {
            return c.to_string();
        }
    }
    msg.to_string()
}

/// result of the real reader in the format of Lexer!Parse
fn lex_result(text: &str) -> Value {
    let r = std::panic::catch_unwind(|| sexpr::parse(text, "f"));
    match r {
        Ok(Ok(tops)) => {
            let top: Vec<Value> = tops
                .iter()
                .map(|t| json!({"l": span6(&t.span), "c": t.t.iter().map(node).collect::<Vec<_>>()}))
                .collect();
            json!({"ok": true, "top": top})
        }
        Ok(Err(e)) => match &e.span {
            Some(s) => json!({"ok": false, "err": err_code(&e.msg), "span": span6(s)}),
            None => json!({"ok": false, "err": err_code(&e.msg), "span": []}),
        },
        Err(_) => {
            let (loc, _) = crate::take_panic();
            json!({"ok": false, "err": "panic", "span": [], "loc": loc})
        }
    }
}

fn spans_of(v: &Value, out: &mut Vec<(usize, usize)>) {
    if let Some(a) = v.get("a").or_else(|| v.get("l")).or_else(|| v.get("span")) {
        if let Some(a) = a.as_array() {
            if a.len() >= 2 {
                out.push((a[0].as_u64().unwrap() as usize, a[1].as_u64().unwrap() as usize));
            }
        }
    }
    for k in ["c", "top"] {
        if let Some(c) = v.get(k).and_then(|c| c.as_array()) {
            for x in c {
                spans_of(x, out);
            }
        }
    }
}

pub fn cmd_lex_enum(args: &[String]) -> i32 {
    let maxlen: usize = args[0].parse().expect("maxlen");
    let shard: u64 = args.get(2).map(|s| s.parse().unwrap()).unwrap_or(0);
    let nshards: u64 = args.get(3).map(|s| s.parse().unwrap()).unwrap_or(1);
    let check_only = args.get(4).map(|s| s == "check").unwrap_or(false);
    let mut w: Box<dyn Write> = if args[1] == "-" {
        Box::new(BufWriter::new(std::io::stdout()))
    } else {
        Box::new(BufWriter::new(std::fs::File::create(&args[1]).expect("out")))
    };
    crate::install_panic_hook();
    let k = ALPHABET.len() as u64;
    let (mut total, mut oks, mut errs, mut bad) = (0u64, 0u64, 0u64, 0u64);
    let mut bad_samples: Vec<Value> = vec![];
    let mut idx: u64 = 0;
    for len in 0..=maxlen {
        let n = k.pow(len as u32);
        for c in 0..n {
            idx += 1;
            if idx % nshards != shard {
                continue;
            }
            let mut syms = vec![0usize; len];
            let mut x = c;
            for i in (0..len).rev() {
                syms[i] = (x % k) as usize;
                x /= k;
            }
            let mut bytes: Vec<u8> = vec![];
            for s in &syms {
                bytes.extend_from_slice(ALPHABET[*s]);
            }
            let text = std::str::from_utf8(&bytes).expect("utf8");
            let r = lex_result(text);
            total += 1;
            if check_only {
                let mut sp = vec![];
                spans_of(&r, &mut sp);
                let aligned = sp.iter().all(|(s, e)| {
                    s <= e && *e <= text.len() && text.is_char_boundary(*s) && text.is_char_boundary(*e)
                });
                let within = sp.iter().all(|(s, e)| s <= e && *e <= text.len());
                let panicked = r["err"] == "panic";
                if r["ok"] == true {
                    oks += 1
                } else {
                    errs += 1
                }
                if panicked || !within {
                    bad += 1;
                    if bad_samples.len() < 20 {
                        bad_samples.push(json!({"b": bytes, "r": r, "why": if panicked {"panic"} else {"span outside text"}}));
                    }
                } else if !aligned {
                    // reported separately: inside the text but not on a character boundary
                    if bad_samples.len() < 20 {
                        bad_samples.push(json!({"b": bytes, "r": r, "why": "unaligned"}));
                    }
                }
            } else {
                writeln!(w, "{}", json!({"b": bytes, "r": r})).unwrap();
            }
        }
    }
    if check_only {
        writeln!(w, "{}", json!({"strings": total, "ok": oks, "err": errs, "bad": bad, "samples": bad_samples})).unwrap();
    }
    w.flush().unwrap();
    0
}

// ------------------------------------------------------------------ seed trees
fn atom_class(t: &str) -> &'static str {
    if t.starts_with('"') || t.starts_with("r#\"") {
        "str"
    } else if t.starts_with('$') {
        "var"
    } else if t.starts_with('@') {
        "alias"
    } else if !t.is_empty() && t.bytes().all(|b| b.is_ascii_digit()) {
        "num"
    } else {
        "name"
    }
}

fn tree(e: &SExpr) -> Value {
    match e {
        SExpr::Atom(a) => json!({"a": a.t, "k": atom_class(&a.t)}),
        SExpr::List(l) => json!({"l": l.t.iter().map(tree).collect::<Vec<_>>()}),
    }
}

pub fn cmd_sexpr_tree(args: &[String]) -> i32 {
    let f = std::io::BufReader::new(std::fs::File::open(&args[0]).expect("input file"));
    let mut w = BufWriter::new(std::fs::File::create(&args[1]).expect("output file"));
    crate::install_panic_hook();
    for line in f.lines() {
        let line = line.unwrap();
        if line.trim().is_empty() {
            continue;
        }
        let j: Value = serde_json::from_str(&line).expect("json");
        let text = j["text"].as_str().unwrap_or("").to_string();
        let r = std::panic::catch_unwind(|| sexpr::parse(&text, "seed"));
        let v = match r {
            Ok(Ok(tops)) => {
                let top: Vec<Value> = tops
                    .iter()
                    .map(|t| json!({"l": t.t.iter().map(tree).collect::<Vec<_>>()}))
                    .collect();
                json!({"id": j["id"], "ok": true, "top": top})
            }
            _ => json!({"id": j["id"], "ok": false}),
        };
        writeln!(w, "{}", v).unwrap();
    }
    w.flush().unwrap();
    0
}
