//! Dump what the real parser produced, as JSON, for the TLA+ model constants (binding A).
use kanata_keyberon::action::*;
use kanata_keyberon::key_code::KeyCode;
use kanata_parser::cfg::{Cfg, KanataAction};
use kanata_parser::custom_action::*;
use serde_json::{json, Value};
use std::collections::HashMap;

pub struct Dumper {
    ids: HashMap<usize, usize>,
    pub acts: Vec<Value>,
}

fn kc(k: KeyCode) -> u16 {
    k as u16
}

fn fk_op(a: FakeKeyAction) -> &'static str {
    match a {
        FakeKeyAction::Press => "press",
        FakeKeyAction::Release => "release",
        FakeKeyAction::Tap => "tap",
        FakeKeyAction::Toggle => "toggle",
    }
}

pub fn custom_json(c: &CustomAction) -> Value {
    use CustomAction::*;
    match c {
        FakeKey { coord, action } => {
            json!({"c":"fakekey","x":coord.x,"y":coord.y,"op":fk_op(*action)})
        }
        FakeKeyOnRelease { coord, action } => {
            json!({"c":"fakekey_rel","x":coord.x,"y":coord.y,"op":fk_op(*action)})
        }
        FakeKeyOnIdle(f) => {
            json!({"c":"fakekey_idle","x":f.coord.x,"y":f.coord.y,"op":fk_op(f.action),"d":f.idle_duration})
        }
        FakeKeyHoldForDuration(f) => {
            json!({"c":"fakekey_hold","x":f.coord.x,"y":f.coord.y,"d":f.hold_duration})
        }
        Unicode(ch) => json!({"c":"unicode","ch":ch.to_string()}),
        Mouse(b) => json!({"c":"mouse","btn":format!("{b:?}")}),
        MouseTap(b) => json!({"c":"mousetap","btn":format!("{b:?}")}),
        MWheel {
            direction,
            interval,
            distance,
        } => json!({"c":"mwheel","dir":format!("{direction:?}"),"interval":interval,"distance":distance}),
        MWheelNotch { direction } => json!({"c":"mwheelnotch","dir":format!("{direction:?}")}),
        MoveMouse {
            direction,
            interval,
            distance,
        } => json!({"c":"movemouse","dir":format!("{direction:?}"),"interval":interval,"distance":distance}),
        MoveMouseAccel {
            direction,
            interval,
            accel_time,
            min_distance,
            max_distance,
        } => json!({"c":"movemouseaccel","dir":format!("{direction:?}"),"interval":interval,
                    "accel_time":accel_time,"min":min_distance,"max":max_distance}),
        MoveMouseSpeed { speed } => json!({"c":"movemousespeed","speed":speed}),
        SequenceCancel => json!({"c":"seqcancel"}),
        SequenceLeader(t, m) => json!({"c":"seqleader","timeout":t,"mode":format!("{m:?}")}),
        SequenceNoerase(n) => json!({"c":"seqnoerase","n":n}),
        LiveReload => json!({"c":"lrld"}),
        LiveReloadNext => json!({"c":"lrld_next"}),
        LiveReloadPrev => json!({"c":"lrld_prev"}),
        LiveReloadNum(n) => json!({"c":"lrld_num","n":n}),
        LiveReloadFile(p) => json!({"c":"lrld_file","p":p}),
        Repeat => json!({"c":"repeat"}),
        CancelMacroOnRelease => json!({"c":"cancel_macro_rel"}),
        CancelMacroOnNextPress(d) => json!({"c":"cancel_macro_press","d":d}),
        DynamicMacroRecord(n) => json!({"c":"dynrec","n":n}),
        DynamicMacroRecordStop(n) => json!({"c":"dynstop","n":n}),
        DynamicMacroPlay(n) => json!({"c":"dynplay","n":n}),
        SendArbitraryCode(n) => json!({"c":"arbcode","n":n}),
        CapsWord(cfg) => json!({"c":"capsword",
            "cap": cfg.keys_to_capitalize.iter().map(|k| kc(*k)).collect::<Vec<_>>(),
            "nonterm": cfg.keys_nonterminal.iter().map(|k| kc(*k)).collect::<Vec<_>>(),
            "timeout": cfg.timeout,
            "toggle": matches!(cfg.repress_behaviour, CapsWordRepressBehaviour::Toggle)}),
        SetMouse { x, y } => json!({"c":"setmouse","x":x,"y":y}),
        Unmodded { keys, mods } => json!({"c":"unmod",
            "keys": keys.iter().map(|k| kc(*k)).collect::<Vec<_>>(), "mods": mods.bits()}),
        Unshifted { keys } => json!({"c":"unshift",
            "keys": keys.iter().map(|k| kc(*k)).collect::<Vec<_>>()}),
        ReverseReleaseOrder => json!({"c":"revrel"}),
        Delay(d) => json!({"c":"delay","d":d}),
        DelayOnRelease(d) => json!({"c":"delay_rel","d":d}),
        other => json!({"c":"other","dbg":format!("{other:?}")}),
    }
}

impl Dumper {
    pub fn new() -> Self {
        Self {
            ids: HashMap::new(),
            acts: vec![],
        }
    }

    fn seq_events(&mut self, evs: &[SequenceEvent<'static, kanata_parser::cfg::KanataCustom>]) -> Vec<Value> {
        evs.iter()
            .map(|e| match e {
                SequenceEvent::NoOp => json!({"e":"noop","kc":0,"d":0,"cu":[]}),
                SequenceEvent::Press(k) => json!({"e":"press","kc":kc(*k),"d":0,"cu":[]}),
                SequenceEvent::Release(k) => json!({"e":"release","kc":kc(*k),"d":0,"cu":[]}),
                SequenceEvent::Tap(k) => json!({"e":"tap","kc":kc(*k),"d":0,"cu":[]}),
                SequenceEvent::Delay { duration } => json!({"e":"delay","kc":0,"d":duration,"cu":[]}),
                SequenceEvent::Custom(c) => json!({"e":"custom","kc":0,"d":0,
                    "cu": c.iter().map(|x| custom_json(x)).collect::<Vec<_>>()}),
                SequenceEvent::Complete => json!({"e":"complete","kc":0,"d":0,"cu":[]}),
                _ => json!({"e":"unknown","kc":0,"d":0,"cu":[]}),
            })
            .collect()
    }

    /// Returns the 1-based id of the action.
    pub fn act(&mut self, a: &'static KanataAction) -> usize {
        let addr = a as *const _ as usize;
        if let Some(id) = self.ids.get(&addr) {
            return *id;
        }
        // reserve the slot first so ids are in pre-order
        self.acts.push(Value::Null);
        let id = self.acts.len();
        self.ids.insert(addr, id);
        let v = match a {
            Action::NoOp => json!({"t":"noop"}),
            Action::Trans => json!({"t":"trans"}),
            Action::Src => json!({"t":"src"}),
            Action::Repeat => json!({"t":"repeat"}),
            Action::CancelSequences => json!({"t":"cancelseq"}),
            Action::KeyCode(k) => json!({"t":"key","kc":kc(*k)}),
            Action::MultipleKeyCodes(ks) => {
                json!({"t":"mkeys","kcs":ks.iter().map(|k| kc(*k)).collect::<Vec<_>>()})
            }
            Action::MultipleActions(acs) => {
                let ids: Vec<usize> = acs.iter().map(|x| self.act(x)).collect();
                json!({"t":"multi","acs":ids})
            }
            Action::Layer(l) => json!({"t":"layer","l":l}),
            Action::DefaultLayer(l) => json!({"t":"deflayer","l":l}),
            Action::Sequence { events } => json!({"t":"seq","evs":self.seq_events(events)}),
            Action::RepeatableSequence { events } => {
                json!({"t":"rseq","evs":self.seq_events(events)})
            }
            Action::ReleaseState(ReleasableState::KeyCode(k)) => json!({"t":"relkey","kc":kc(*k)}),
            Action::ReleaseState(ReleasableState::Layer(l)) => json!({"t":"rellayer","l":l}),
            Action::HoldTap(ht) => {
                let hold = self.act(&ht.hold);
                let tap = self.act(&ht.tap);
                let toa = self.act(&ht.timeout_action);
                let cfg = match ht.config {
                    HoldTapConfig::Default => "default",
                    HoldTapConfig::HoldOnOtherKeyPress => "press",
                    HoldTapConfig::PermissiveHold => "release",
                    HoldTapConfig::Custom(_) => "custom",
                    _ => "unknown",
                };
                json!({"t":"holdtap","timeout":ht.timeout,"hold":hold,"tap":tap,"toa":toa,
                       "cfg":cfg,"thi":ht.tap_hold_interval,"ckind":"","ckeys":[]})
            }
            Action::Custom(c) => {
                json!({"t":"custom","cu":c.iter().map(|x| custom_json(x)).collect::<Vec<_>>()})
            }
            Action::OneShot(os) => {
                let ac = self.act(os.action);
                let end = match os.end_config {
                    OneShotEndConfig::EndOnFirstPress => "press",
                    OneShotEndConfig::EndOnFirstPressOrRepress => "press_repress",
                    OneShotEndConfig::EndOnFirstRelease => "release",
                    OneShotEndConfig::EndOnFirstReleaseOrRepress => "release_repress",
                    _ => "unknown",
                };
                json!({"t":"oneshot","ac":ac,"timeout":os.timeout,"end":end})
            }
            Action::OneShotIgnoreEventsTicks(t) => json!({"t":"osignore","ticks":t}),
            Action::TapDance(td) => {
                let ids: Vec<usize> = td.actions.iter().map(|x| self.act(x)).collect();
                json!({"t":"tapdance","acs":ids,"timeout":td.timeout,
                       "eager":matches!(td.config, TapDanceConfig::Eager)})
            }
            Action::Chords(g) => {
                let coords: Vec<Value> = g
                    .coords
                    .iter()
                    .map(|(c, m)| json!({"x":c.0,"y":c.1,"m":bits(*m)}))
                    .collect();
                let chords: Vec<Value> = g
                    .chords
                    .iter()
                    .map(|(m, a)| {
                        let id = self.act(a);
                        json!({"m":bits(*m),"ac":id})
                    })
                    .collect();
                json!({"t":"chords","coords":coords,"chords":chords,"timeout":g.timeout})
            }
            Action::Fork(f) => {
                let l = self.act(&f.left);
                let r = self.act(&f.right);
                json!({"t":"fork","left":l,"right":r,
                       "trig":f.right_triggers.iter().map(|k| kc(*k)).collect::<Vec<_>>()})
            }
            Action::Switch(sw) => {
                let cases: Vec<Value> = sw
                    .cases
                    .iter()
                    .map(|(ops, ac, brk)| {
                        let id = self.act(ac);
                        let raw: Vec<u16> = ops.iter().map(|o| opcode_raw(o)).collect();
                        json!({"ops":raw,"ac":id,"brk":matches!(brk, BreakOrFallthrough::Break)})
                    })
                    .collect();
                json!({"t":"switch","cases":cases})
            }
        };
        self.acts[id - 1] = v;
        id
    }
}

pub fn opcode_raw(o: &OpCode) -> u16 {
    let s = format!("{o:?}");
    s.trim_start_matches("OpCode(")
        .trim_end_matches(')')
        .parse::<u16>()
        .unwrap_or(0)
}

pub fn bits(m: u128) -> Vec<u32> {
    (0..128).filter(|b| (m >> b) & 1 == 1).collect()
}

/// The parsed `defoverrides` table.  The fields of `Override` are private, so the table is read off
/// the derived `Debug` rendering of `cfg.overrides`:
///   Override { in_non_mod_osc: KEY_A, out_non_mod_osc: KEY_X, in_mod_oscs: [KEY_LEFTSHIFT], out_mod_oscs: [] }
/// Result: [{"ik","okc","im":[..],"om":[..]}...] (codes); the order within one input key is the
/// parser's, which is all that matters (the table is grouped by input key).
pub fn overrides_json(cfg: &Cfg) -> Value {
    use kanata_parser::keys::OsCode;
    let mut by_name: HashMap<String, u16> = HashMap::new();
    for c in 0u16..=767 {
        if let Some(o) = OsCode::from_u16(c) {
            by_name.entry(format!("{o:?}")).or_insert(c);
        }
    }
    let dbg = format!("{:?}", cfg.overrides);
    let code = |n: &str| -> Value {
        by_name.get(n.trim()).map(|c| json!(c)).unwrap_or(json!(n.trim()))
    };
    let list = |s: &str| -> Vec<Value> {
        s.split(',').filter(|x| !x.trim().is_empty()).map(|x| code(x)).collect()
    };
    let field = |chunk: &str, name: &str, open: &str, close: &str| -> String {
        let key = format!("{name}: {open}");
        match chunk.find(&key) {
            Some(i) => {
                let rest = &chunk[i + key.len()..];
                let j = rest.find(close).unwrap_or(rest.len());
                rest[..j].to_string()
            }
            None => String::new(),
        }
    };
    let mut out = vec![];
    for chunk in dbg.split("Override { ").skip(1) {
        let ik = field(chunk, "in_non_mod_osc", "", ",");
        let okc = field(chunk, "out_non_mod_osc", "", ",");
        let im = field(chunk, "in_mod_oscs", "[", "]");
        let om = field(chunk, "out_mod_oscs", "[", "]");
        out.push(json!({"ik": code(&ik), "okc": code(&okc), "im": list(&im), "om": list(&om)}));
    }
    json!(out)
}

/// `universe`: the real-key codes of the instance. Virtual keys: all defined ones.
pub fn dump_cfg(cfg: &Cfg, universe: &[u16]) -> Value {
    let l = cfg.layout.b();
    let mut d = Dumper::new();
    let nfake = cfg.fake_keys.len();
    let mut layers = vec![];
    for layer in l.layers.iter() {
        let mut real = serde_json::Map::new();
        for &c in universe {
            let a: &'static KanataAction = unsafe { std::mem::transmute(&layer[0][c as usize]) };
            real.insert(c.to_string(), json!(d.act(a)));
        }
        let mut fake = vec![];
        for y in 0..nfake {
            let a: &'static KanataAction = unsafe { std::mem::transmute(&layer[1][y]) };
            fake.push(d.act(a));
        }
        layers.push(json!({"real": real, "fake": fake}));
    }
    let mut src = serde_json::Map::new();
    for &c in universe {
        let a: &'static KanataAction = unsafe { std::mem::transmute(&l.src_keys[c as usize]) };
        src.insert(c.to_string(), json!(d.act(a)));
    }
    let o = &cfg.options;
    let mut fake_names: Vec<(String, usize)> =
        cfg.fake_keys.iter().map(|(k, v)| (k.clone(), *v)).collect();
    fake_names.sort_by_key(|x| x.1);
    let mut key_outputs = vec![];
    for ko in cfg.key_outputs.iter() {
        let mut m = serde_json::Map::new();
        for &c in universe {
            if let Some(osc) = kanata_parser::keys::OsCode::from_u16(c) {
                if let Some(outs) = ko.get(&osc) {
                    m.insert(
                        c.to_string(),
                        json!(outs.iter().map(|o| o.as_u16()).collect::<Vec<_>>()),
                    );
                }
            }
        }
        key_outputs.push(Value::Object(m));
    }
    let mut mapped: Vec<u16> = cfg.mapped_keys.iter().map(|o| o.as_u16()).collect();
    mapped.sort();
    // defchordsv2 table (ChordsV2.tla): every chord once (the per-key map lists a chord under each of its keys),
    // ordered by its (sorted, unique per chord) key list
    let mut chv2: Vec<(Vec<u16>, Value)> = vec![];
    if let Some(cv2) = l.chords_v2.as_ref() {
        // the parser stores one copy of a chord per participating key; key sets are unique per chord
        let mut seen: Vec<Vec<u16>> = vec![];
        for cfk in cv2.chords().mapping.values() {
            for ch in cfk.chords.iter() {
                if seen.contains(&ch.participating_keys.to_vec()) {
                    continue;
                }
                seen.push(ch.participating_keys.to_vec());
                let a: &'static KanataAction = unsafe { std::mem::transmute(ch.action) };
                chv2.push((
                    ch.participating_keys.to_vec(),
                    json!({"ks": ch.participating_keys, "ac": d.act(a), "T": ch.pending_duration,
                           "dis": ch.disabled_layers,
                           "first": matches!(ch.release_behaviour, kanata_keyberon::chord::ReleaseBehaviour::OnFirstRelease)}),
                ));
            }
        }
        chv2.sort_by(|a, b| a.0.cmp(&b.0));
    }
    let chv2: Vec<Value> = chv2.into_iter().map(|x| x.1).collect();
    // per participating key: the key lists of its chords in the parser's own order (KeyRepeat.tla: the chords-v2 arm of
    // the KeyOutputs collection appends in this order)
    let mut chv2_key_order = serde_json::Map::new();
    if let Some(cv2) = l.chords_v2.as_ref() {
        for (k, cfk) in cv2.chords().mapping.iter() {
            let lists: Vec<Value> = cfk.chords.iter().map(|ch| json!(ch.participating_keys)).collect();
            chv2_key_order.insert(k.to_string(), json!(lists));
        }
    }
    json!({
        "acts": d.acts,
        "layers": layers,
        "src": src,
        "nlayers": l.layers.len(),
        "layer_names": cfg.layer_info.iter().map(|i| i.name.clone()).collect::<Vec<_>>(),
        "fake_names": fake_names.iter().map(|x| x.0.clone()).collect::<Vec<_>>(),
        "key_outputs": key_outputs,
        "mapped_keys": mapped,
        "switch_max_key_timing": cfg.switch_max_key_timing,
        "has_chords_v2": l.chords_v2.is_some(),
        "chv2": chv2,
        "chv2_key_order": chv2_key_order,
        "has_zippy": cfg.zippy.is_some(),
        // defseq trie: [{"k":[u16..],"x":row,"y":col}..] (SeqMode.tla Opts.seqtrie)
        "sequences": crate::seqtab::sequences_for_dump(cfg),
        "opts": {
            "trans_v2": o.trans_resolution_behavior_v2,
            "delegate": o.delegate_to_first_layer,
            "concurrent_tap_hold": o.concurrent_tap_hold,
            "rapid_event_delay": o.rapid_event_delay,
            "process_unmapped_keys": o.process_unmapped_keys,
            "block_unmapped_keys": o.block_unmapped_keys,
            "sequence_timeout": o.sequence_timeout,
            "sequence_input_mode": format!("{:?}", o.sequence_input_mode),
            "sequence_backtrack_modcancel": o.sequence_backtrack_modcancel,
            "sequence_always_on": o.sequence_always_on,
            "override_release_on_activation": o.override_release_on_activation,
            "overrides": overrides_json(cfg),
            "dynamic_macro_max_presses": o.dynamic_macro_max_presses,
            "dynamic_macro_replay_delay_behaviour": format!("{:?}", o.dynamic_macro_replay_delay_behaviour),
            "chords_v2_min_idle": o.chords_v2_min_idle,
            "allow_hardware_repeat": o.allow_hardware_repeat,
        }
    })
}
