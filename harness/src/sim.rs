//! The deterministic stepper: one iteration of the polling branch of the processing loop.
use crate::keys::KeyNames;
use kanata_keyberon::layout::{Event, State};
use kanata_parser::custom_action::FakeKeyAction;
use kanata_parser::keys::OsCode;
use kanata_state_machine::oskbd::{KeyEvent, KeyValue};
use kanata_state_machine::Kanata;
use serde_json::{json, Value};

pub struct Sim {
    pub k: Kanata,
    drained: usize,
    /// number of `tick_states` the latest `tick_ms(1)` call executed (> 1 while a dynamic macro is
    /// replayed with recorded delays), read off the `t:Nms` markers of the simulated output
    pub last_nt: u64,
}

/// Debug name of an OsCode -> code (dynamic macro items are only reachable through `Debug`)
fn osc_by_debug_name(name: &str) -> Option<u16> {
    static TAB: std::sync::OnceLock<std::collections::HashMap<String, u16>> = std::sync::OnceLock::new();
    TAB.get_or_init(|| {
        let mut m = std::collections::HashMap::new();
        for c in 0u16..=767 {
            if let Some(o) = OsCode::from_u16(c) {
                m.entry(format!("{o:?}")).or_insert(c);
            }
        }
        m
    })
    .get(name)
    .copied()
}

/// "Press((KEY_A, 3))" -> ["p", 30]; "Release((KEY_A, 0))" -> ["r", 30]; "EndMacro(1)" -> ["e", 1]
/// (the recorded delays are not projected: they show as the tick count of the replay)
fn dyn_item_json(dbg: &str) -> Value {
    let (kind, rest) = if let Some(r) = dbg.strip_prefix("Press((") {
        ("p", r)
    } else if let Some(r) = dbg.strip_prefix("Release((") {
        ("r", r)
    } else if let Some(r) = dbg.strip_prefix("EndMacro(") {
        let id: u64 = r.trim_end_matches(')').trim().parse().unwrap_or(0);
        return json!(["e", id]);
    } else {
        return json!(["?", dbg]);
    };
    let inner = rest.trim_end_matches(')');
    let mut parts = inner.split(',');
    let name = parts.next().unwrap_or("").trim();
    let code = osc_by_debug_name(name).map(|c| json!(c)).unwrap_or(json!(name));
    json!([kind, code])
}

pub fn parse_out_event(names: &KeyNames, s: &str) -> Option<Value> {
    if s.starts_with("t:") {
        return None;
    }
    if let Some(rest) = s.strip_prefix("out:") {
        let mut ch = rest.chars();
        let dir = ch.next().unwrap_or('?');
        let name: String = ch.collect();
        let code = names.code(&name).map(|c| json!(c)).unwrap_or(json!(name));
        return Some(match dir {
            '↓' => json!(["d", code]),
            '↑' => json!(["u", code]),
            _ => json!(["?", s]),
        });
    }
    if let Some(rest) = s.strip_prefix("out🖰:") {
        if let Some(b) = rest.strip_prefix('↓') {
            return Some(json!(["bd", b]));
        }
        if let Some(b) = rest.strip_prefix('↑') {
            return Some(json!(["bu", b]));
        }
        if let Some(m) = rest.strip_prefix("move ") {
            return Some(json!(["mv", m]));
        }
        return Some(json!(["?", s]));
    }
    if let Some(rest) = s.strip_prefix("scroll:") {
        return Some(json!(["sc", rest]));
    }
    if let Some(rest) = s.strip_prefix("outU:") {
        return Some(json!(["U", rest]));
    }
    if let Some(rest) = s.strip_prefix("out-code:") {
        return Some(json!(["code", rest]));
    }
    if let Some(rest) = s.strip_prefix("out-raw:") {
        return Some(json!(["raw", rest]));
    }
    Some(json!(["?", s]))
}

impl Sim {
    pub fn new(cfg: &str, files: &[(String, String)]) -> Result<Sim, String> {
        let mut fc: rustc_hash::FxHashMap<String, String> = Default::default();
        for (k, v) in files {
            fc.insert(k.clone(), v.clone());
        }
        match Kanata::new_from_str(cfg, fc) {
            Ok(k) => Ok(Sim { k, drained: 0, last_nt: 1 }),
            Err(e) => Err(format!("{e:?}")),
        }
    }

    pub fn input(&mut self, kind: &str, code: u16) -> Result<(), String> {
        let osc = match OsCode::from_u16(code) {
            Some(o) => o,
            None => return Err(format!("no OsCode for {code}")),
        };
        let value = match kind {
            "d" => KeyValue::Press,
            "u" => KeyValue::Release,
            "r" => KeyValue::Repeat,
            "p" => KeyValue::Tap,
            "w" => KeyValue::WakeUp,
            _ => return Err(format!("bad input kind {kind}")),
        };
        self.k
            .handle_input_event(&KeyEvent { code: osc, value })
            .map_err(|e| format!("{e:?}"))
    }

    /// Direct virtual-key operation: the function the TCP server calls after its name lookup.
    pub fn fakekey(&mut self, y: u16, op: &str) -> Result<(), String> {
        let action = match op {
            "press" => FakeKeyAction::Press,
            "release" => FakeKeyAction::Release,
            "tap" => FakeKeyAction::Tap,
            "toggle" => FakeKeyAction::Toggle,
            _ => return Err(format!("bad fakekey op {op}")),
        };
        kanata_state_machine::handle_fakekey_action(action, self.k.layout.bm(), 1, y);
        Ok(())
    }

    pub fn drain(&mut self, names: &KeyNames) -> Vec<Value> {
        let evs = &self.k.kbd_out.outputs.events;
        let mut out = vec![];
        for s in &evs[self.drained..] {
            if let Some(v) = parse_out_event(names, s) {
                out.push(v);
            }
        }
        self.drained = evs.len();
        // keep memory bounded on long runs
        if self.drained > 100_000 {
            self.k.kbd_out.outputs.events.clear();
            self.drained = 0;
        }
        out
    }

    /// tick_ms(1), counting the `tick_states` it executed: the simulated output writes a `t:Nms`
    /// marker (ticks since the previous output event) in front of every output event; a sentinel
    /// output event after the call flushes the ticks that followed the last real event and is
    /// removed again, so the counter is 0 at the start of every call.
    fn tick_ms_counted(&mut self) -> Result<(), String> {
        let start = self.k.kbd_out.outputs.events.len();
        let r = self.k.tick_ms(1, &None).map_err(|e| format!("{e:?}"));
        let base = self.k.kbd_out.outputs.events.len();
        let _ = self.k.kbd_out.write(kanata_state_machine::oskbd::InputEvent { code: 1, up: true });
        let mut nt: u64 = 0;
        for (i, s) in self.k.kbd_out.outputs.events[start..].iter().enumerate() {
            if start + i == self.k.kbd_out.outputs.events.len() - 1 {
                break; // the sentinel itself
            }
            if let Some(n) = s.strip_prefix("t:").and_then(|x| x.strip_suffix("ms")) {
                nt += n.parse::<u64>().unwrap_or(0);
            }
        }
        self.k.kbd_out.outputs.events.truncate(base);
        self.last_nt = nt;
        r
    }

    /// tick_ms(1) followed by can_block_update_idle_waiting(1)
    pub fn tick(&mut self) -> Result<(bool, bool), String> {
        self.tick_ms_counted()?;
        let idle = self.k.is_idle();
        let cb = self.k.can_block_update_idle_waiting(1);
        Ok((idle, cb))
    }

    /// tick_ms(1) only (what the repository's simulation tests do)
    pub fn tick_plain(&mut self) -> Result<(), String> {
        self.tick_ms_counted()
    }

    /// Projection of the implementation state on what the detailed model tracks
    /// (public fields only; ages capped by `cap`).
    pub fn proj(&self, cap: u16) -> Value {
        let l = self.k.layout.b();
        let capv = |v: u16| -> u16 { v.min(cap) };
        let states: Vec<Value> = l
            .states
            .iter()
            .map(|s| match s {
                State::NormalKey {
                    keycode,
                    coord,
                    flags,
                } => json!(["nk", *keycode as u16, coord.0, coord.1, flags.0]),
                State::LayerModifier { value, coord } => json!(["lm", value, coord.0, coord.1, 0]),
                State::Custom { coord, .. } => json!(["cu", 0, coord.0, coord.1, 0]),
                State::FakeKey { keycode } => json!(["fk", *keycode as u16, 0, 0, 0]),
                State::RepeatingSequence { coord, .. } => json!(["rs", 0, coord.0, coord.1, 0]),
                State::SeqCustomPending(_) => json!(["scp", 0, 0, 0, 0]),
                State::SeqCustomActive(_) => json!(["sca", 0, 0, 0, 0]),
                State::Tombstone => json!(["tomb", 0, 0, 0, 0]),
            })
            .collect();
        let queue: Vec<Value> = l
            .queue
            .iter()
            .map(|q| match q.event() {
                Event::Press(i, j) => json!([1, i, j]),
                Event::Release(i, j) => json!([0, i, j]),
            })
            .collect();
        // dynamic macros: the stored macros (sorted by id; the trailing run of releases
        // of a macro sorted by code, because the code emits the releases of keys still down at the
        // stop in HashSet iteration order), whether a recording / a replay is in progress
        let mut dm: Vec<(u16, Value)> = self
            .k
            .dynamic_macros
            .iter()
            .map(|(id, items)| {
                let mut v: Vec<Value> = items.iter().map(|it| dyn_item_json(&format!("{it:?}"))).collect();
                let mut t = v.len();
                while t > 0 && v[t - 1][0] == "r" {
                    t -= 1;
                }
                v[t..].sort_by_key(|x| x[1].as_u64().unwrap_or(0));
                (*id, json!(v))
            })
            .collect();
        dm.sort_by_key(|x| x.0);
        let dm: Vec<Value> = dm.into_iter().map(|(id, v)| json!([id, v])).collect();
        let os = &l.oneshot;
        let coords = |it: &mut dyn Iterator<Item = &(u8, u16)>| -> Vec<Value> {
            it.map(|c| json!([c.0, c.1])).collect()
        };
        json!({
            "st": states,
            "q": queue,
            "w": l.waiting.is_some(),
            "xw": l.extra_waiting.len(),
            "tde": l.tap_dance_eager.is_some(),
            "osk": coords(&mut os.keys.iter()),
            "osr": coords(&mut os.released_keys.iter()),
            "oso": coords(&mut os.other_pressed_keys.iter()),
            "ost": capv(os.timeout),
            "osrn": os.release_on_next_tick,
            "osp": capv(os.pause_input_processing_ticks),
            "osi": capv(os.ticks_to_ignore_events),
            "lpc": [l.last_press_tracker.coord.0, l.last_press_tracker.coord.1],
            "lpt": capv(l.last_press_tracker.tap_hold_timeout),
            "nseq": l.active_sequences.len(),
            "naq": l.action_queue.len(),
            "dl": l.default_layer,
            "prev": self.k.prev_keys.iter().map(|k| *k as u16).collect::<Vec<u16>>(),
            "tsi": capv(self.k.ticks_since_idle),
            "nwfi": self.k.waiting_for_idle.len(),
            "nvpr": self.k.vkeys_pending_release.len(),
            // mouse wheel: [vertical, horizontal], each [] or [direction, ticks until the next event] (Kanata.tla K.scroll / K.hscroll)
            "scr": [
                self.k.scroll_state.as_ref().map(|s| json!([format!("{:?}", s.direction), s.ticks_until_scroll])).unwrap_or(json!([])),
                self.k.hscroll_state.as_ref().map(|s| json!([format!("{:?}", s.direction), s.ticks_until_scroll])).unwrap_or(json!([])),
            ],
            // caps-word: [] or [remaining ticks] (Kanata.tla K.cw)
            "cw": self.k.caps_word.as_ref().map(|c| vec![c.timeout_ticks]).unwrap_or_default(),
            // chords v2 reports idle (no queued input, no active chord); true without defchordsv2 (C01 diagnosis)
            "chv2i": l.chords_v2.as_ref().map(|c| c.is_idle_chv2()).unwrap_or(true),
            // defseq sequence mode (SeqMode.tla SqProj)
            "sq": {
                "act": self.k.sequence_state.is_active(),
                "seq": self.k.sequence_state.sequence.clone(),
                "ov": self.k.sequence_state.overlapped_sequence.clone(),
                "raw": self.k.sequence_state.raw_oscs.iter().map(|o| o.as_u16()).collect::<Vec<u16>>(),
                "ttl": self.k.sequence_state.ticks_until_timeout,
                "mode": format!("{:?}", self.k.sequence_state.sequence_input_mode),
            },
            // chords v2 (private state): only the two public predicates are observable without hooks
            "cv2i": l.chords_v2.as_ref().map(|c| c.is_idle_chv2()).unwrap_or(true),
            "cv2a": l.chords_v2.as_ref().map(|c| c.accepts_chords_chv2()).unwrap_or(true),
            "dm": dm,
            "drec": self.k.dynamic_macro_record_state.is_some(),
            "drep": self.k.dynamic_macro_replay_state.is_some(),
            "nt": self.last_nt,
        })
    }
}
