//! C15 (live reload is all-or-nothing): the deterministic stepper around the deferred reload,
//! fault injection on the configuration files, and the three relational lanes.
//!
//! reload <job.json> <out.ndjson> <scratch dir>
//!   job  = {"cases":[case..]}
//!   case = {"id":any, "params":{..},
//!           "texts":{kind:kbd text},      contents a file can have ("O" = the start-up configuration, "N" = another
//!                                         valid one, "S" = does not parse, "R" = parses as s-expressions but is refused ...)
//!           "btexts":{kind:kbd text},     the same valid contents with every reload-request action replaced by a
//!                                         neutral custom action (lane B, "no reload was requested")
//!           "aux":{name:content},         auxiliary files the contents refer to (zippychord dictionary), optional
//!           "start":[kind..],             initial content of file 0..n-1 (file 0 is what kanata starts with);
//!                                         besides the keys of texts: "missing" (no such file), "unreadable" (a directory)
//!           "script":[step..],            ["d"|"u",code]  ["t"] | ["t",n] (n loop iterations)  ["w",file index,kind]
//!           "lanes":bool,                 run lanes B and C as well
//!           "proj":bool,"cap":n}          edge mode only
//!   One loop iteration = verif_set_elapsed_ms(1); verif_handle_time_ticks(&tx); can_block_update_idle_waiting(n)
//!   (what start_processing_loop does per iteration with 1 ms elapsed; the deferred reload sits inside handle_time_ticks).
//!
//!   lane A = the script on kanata started from file 0, cfg_paths = the n files.
//!   lane B = the same script on btexts[start[0]] (no request is ever made); compared until A's first successful reload.
//!   lane C = a fresh instance of the content A loaded (cfg_paths, cur_cfg_idx as in A), created right after the
//!            iteration of that reload and fed with the rest of the script (everything A's new layout sees); it is
//!            shown (= compared) from the step after the first iteration at which no physical key is held and both
//!            A's and its own loop would block (can_block = true); before that only {"on":false,"run":true,"cb":b}.
//!   The lanes are run one after the other, each from scratch, in this process: the zippychord state and MAPPED_KEYS
//!   are process-global and every Kanata::new_from_str reconfigures them, so two instances must never be alive together.
//!   That a reload took place is decided by ground truth (the layout object of A was replaced), not by A's messages.
//!
//! Output: {"e":"reset","job":id,"script":0,"params":..} then one line per step
//!   {"e":"d"|"u","c":code,"A":lane,"B":lane,"C":lane}
//!   {"e":"t","n":k,"phys":held physical keys,"A":lane,"B":lane,"C":lane}   (n>1: k identical silent iterations)
//!   {"e":"w","i":file,"k":kind,"valid":b}
//!   lane = {"on":false} | {"on":true,"out":[[kind,arg]..],"idle":b,"cb":b,"msgs":[[kind,arg]..],"lrr":b,"idx":i,
//!           "layer":name,"repl":b}      (input lines: out only)
//!   {"e":"panic","lane":"A","loc":..,"msg":..}  {"e":"error","msg":..}  and a final {"e":"end"}.
//! Output arguments are strings so that TLC compares homogeneous values.  Nothing is judged here: spec/P_C15.tla decides.
//!
//! reload-edges <case.json> <edges.ndjson> <out.json> <scratch dir> [cap]
//!   binding B for the reload model (spec/Reload.tla): every line {"h":[step..],"x":{expected}} is replayed on lane A
//!   from a fresh instance and the observation after the last step is compared on the keys the model supplies
//!   (out, idle, cb, msgs, lrr, idx, li (layer index), repl, proj).
use crate::keys::KeyNames;
use crate::sim::Sim;
use crate::{install_panic_hook, take_panic};
use kanata_state_machine::Kanata;
use kanata_tcp_protocol::ServerMessage;
use serde_json::{json, Value};
use std::collections::HashMap;
use std::io::{BufRead, BufWriter, Write};
use std::path::{Path, PathBuf};
use std::sync::mpsc::{sync_channel, Receiver, SyncSender};

struct Files {
    dir: PathBuf,
    paths: Vec<PathBuf>,
    state: Vec<String>,
    texts: HashMap<String, String>,
    /// auxiliary files the contents refer to (e.g. a zippychord dictionary): name -> content; written next to the
    /// configuration files and given to new_from_str as its file set
    aux: Vec<(String, String)>,
}

impl Files {
    fn new(dir: &Path, n: usize, texts: &Value) -> Files {
        let _ = std::fs::remove_dir_all(dir);
        std::fs::create_dir_all(dir).expect("scratch dir");
        let mut t = HashMap::new();
        if let Some(m) = texts.as_object() {
            for (k, v) in m {
                t.insert(k.clone(), v.as_str().unwrap_or("").to_string());
            }
        }
        Files {
            dir: dir.to_path_buf(),
            paths: (0..n).map(|i| dir.join(format!("f{i}.kbd"))).collect(),
            state: vec!["missing".to_string(); n],
            texts: t,
            aux: vec![],
        }
    }
    fn set_aux(&mut self, aux: &Value) {
        if let Some(m) = aux.as_object() {
            for (k, v) in m {
                let c = v.as_str().unwrap_or("").to_string();
                std::fs::write(self.dir.join(k), &c).expect("aux file");
                self.aux.push((k.clone(), c));
            }
        }
    }
    fn is_valid(&self, kind: &str) -> bool {
        // by convention the contents that parse have kinds not starting with S (syntax) or R (refused)
        self.texts.contains_key(kind) && !matches!(kind.chars().next(), Some('S') | Some('R'))
    }
    fn write(&mut self, i: usize, kind: &str) -> Result<(), String> {
        let p = &self.paths[i];
        if p.is_dir() {
            std::fs::remove_dir_all(p).map_err(|e| e.to_string())?;
        } else if p.exists() {
            std::fs::remove_file(p).map_err(|e| e.to_string())?;
        }
        match kind {
            "missing" => {}
            "unreadable" => std::fs::create_dir_all(p).map_err(|e| e.to_string())?,
            k => {
                let t = self.texts.get(k).ok_or_else(|| format!("no text for kind {k}"))?;
                std::fs::write(p, t).map_err(|e| e.to_string())?;
            }
        }
        self.state[i] = kind.to_string();
        Ok(())
    }
    fn set_all(&mut self, kinds: &[String]) -> Result<(), String> {
        for (i, k) in kinds.iter().enumerate() {
            self.write(i, k)?;
        }
        Ok(())
    }
    fn cleanup(&self) {
        let _ = std::fs::remove_dir_all(&self.dir);
    }
}

pub struct Lane {
    pub sim: Sim,
    tx: Option<SyncSender<ServerMessage>>,
    rx: Receiver<ServerMessage>,
    layers_ptr: usize,
}

#[derive(Debug)]
pub struct TickGlitch;

fn layers_ptr(k: &Kanata) -> usize {
    k.layout.b().layers.as_ptr() as usize
}

impl Lane {
    fn new(text: &str, aux: &[(String, String)], paths: &[PathBuf], idx: usize) -> Result<Lane, String> {
        let mut sim = Sim::new(text, aux)?;
        sim.k.cfg_paths = paths.to_vec();
        sim.k.cur_cfg_idx = idx;
        let (tx, rx) = sync_channel::<ServerMessage>(1000);
        let p = layers_ptr(&sim.k);
        Ok(Lane {
            sim,
            tx: Some(tx),
            rx,
            layers_ptr: p,
        })
    }

    fn msgs(&mut self, paths: &[PathBuf]) -> Vec<Value> {
        let mut v = vec![];
        while let Ok(m) = self.rx.try_recv() {
            match m {
                ServerMessage::ConfigFileReload { new } => {
                    let i = paths.iter().position(|p| p.to_str() == Some(new.as_str()));
                    v.push(json!(["reload", i.map(|i| i.to_string()).unwrap_or(new)]));
                }
                ServerMessage::LayerChange { new } => v.push(json!(["layer", new])),
                ServerMessage::MessagePush { .. } => {} // the neutral action of lane B
                other => v.push(json!(["other", format!("{other:?}")])),
            }
        }
        v
    }

    /// One iteration of the processing loop with 1 ms elapsed. Err(None) = the wall clock slipped
    /// (more than one tick was executed): the caller restarts the lane.
    fn iter(&mut self) -> Result<(bool, bool, u16), Option<String>> {
        self.sim.k.verif_set_elapsed_ms(1);
        let n = self
            .sim
            .k
            .verif_handle_time_ticks(&self.tx)
            .map_err(|e| Some(format!("{e:?}")))?;
        if n != 1 {
            return Err(None);
        }
        let idle = self.sim.k.is_idle();
        let cb = self.sim.k.can_block_update_idle_waiting(n);
        Ok((idle, cb, n))
    }

    fn replaced(&mut self) -> bool {
        let p = layers_ptr(&self.sim.k);
        let r = p != self.layers_ptr;
        self.layers_ptr = p;
        r
    }

    fn layer(&mut self) -> (usize, String) {
        let li = self.sim.k.layout.bm().current_layer();
        let name = self
            .sim
            .k
            .layer_info
            .get(li)
            .map(|l| l.name.clone())
            .unwrap_or_else(|| format!("?{li}"));
        (li, name)
    }
}

fn strs(out: Vec<Value>) -> Vec<Value> {
    out.into_iter()
        .map(|e| {
            let k = e[0].clone();
            let a = match &e[1] {
                Value::String(s) => s.clone(),
                o => o.to_string(),
            };
            json!([k, a])
        })
        .collect()
}

#[derive(Clone)]
enum Step {
    In(String, u16),
    Tick,
    Write(usize, String),
}

fn expand(script: &[Value]) -> Result<Vec<Step>, String> {
    let mut v = vec![];
    for st in script {
        match st[0].as_str().unwrap_or("") {
            "t" => {
                let n = st.get(1).and_then(|x| x.as_u64()).unwrap_or(1);
                for _ in 0..n {
                    v.push(Step::Tick);
                }
            }
            k @ ("d" | "u" | "r" | "p") => v.push(Step::In(k.to_string(), st[1].as_u64().unwrap_or(0) as u16)),
            "w" => v.push(Step::Write(
                st[1].as_u64().unwrap_or(0) as usize,
                st[2].as_str().unwrap_or("").to_string(),
            )),
            _ => return Err(format!("bad step {st}")),
        }
    }
    Ok(v)
}

/// Observations of one lane: one Value per step from `from` on.
struct LaneRun {
    obs: Vec<Value>,
    /// step index of every successful reload, with (idx, kind loaded, file state)
    repls: Vec<(usize, usize, String, Vec<String>)>,
    /// per step: can_block after a tick step (false for other steps)
    cb: Vec<bool>,
    failure: Option<Value>,
}

fn run_lane(
    names: &KeyNames,
    text: &str,
    files: &mut Files,
    file_state: &[String],
    idx: usize,
    steps: &[Step],
    from: usize,
) -> Result<LaneRun, String> {
    let mut attempts = 0;
    'retry: loop {
        attempts += 1;
        if attempts > 20 {
            return Err("the wall clock slipped in 20 consecutive attempts".into());
        }
        files.set_all(file_state)?;
        let paths = files.paths.clone();
        let aux = files.aux.clone();
        let mut run = LaneRun {
            obs: vec![],
            repls: vec![],
            cb: vec![],
            failure: None,
        };
        let r = std::panic::catch_unwind(std::panic::AssertUnwindSafe(|| -> Result<bool, String> {
            let mut lane = Lane::new(text, &aux, &paths, idx)?;
            for (si, st) in steps.iter().enumerate().skip(from) {
                match st {
                    Step::Write(i, kind) => {
                        files.write(*i, kind)?;
                        run.obs.push(json!({"on": true}));
                        run.cb.push(false);
                    }
                    Step::In(kind, c) => {
                        lane.sim.input(kind, *c)?;
                        let out = strs(lane.sim.drain(names));
                        run.obs.push(json!({"on": true, "out": out}));
                        run.cb.push(false);
                    }
                    Step::Tick => {
                        let (idle, cb, _n) = match lane.iter() {
                            Ok(x) => x,
                            Err(None) => return Ok(false),
                            Err(Some(e)) => return Err(e),
                        };
                        let out = strs(lane.sim.drain(names));
                        let msgs = lane.msgs(&paths);
                        let repl = lane.replaced();
                        let (_li, lname) = lane.layer();
                        let cur = lane.sim.k.cur_cfg_idx;
                        if repl {
                            run.repls.push((si, cur, files.state.get(cur).cloned().unwrap_or_default(), files.state.clone()));
                        }
                        run.obs.push(json!({"on": true, "out": out, "idle": idle, "cb": cb, "msgs": msgs,
                            "lrr": lane.sim.k.verif_live_reload_requested(), "idx": cur, "layer": lname, "repl": repl}));
                        run.cb.push(cb);
                    }
                }
            }
            Ok(true)
        }));
        match r {
            Ok(Ok(true)) => return Ok(run),
            // the clock slipped: restart the lane from scratch
            Ok(Ok(false)) => continue 'retry,
            Ok(Err(e)) => return Err(e),
            Err(_) => {
                let (loc, msg) = take_panic();
                run.failure = Some(json!({"e": "panic", "loc": loc, "msg": msg}));
                return Ok(run);
            }
        }
    }
}

fn run_case(names: &KeyNames, case: &Value, scratch: &Path, w: &mut dyn Write) -> Result<(), String> {
    let start: Vec<String> = case["start"]
        .as_array()
        .ok_or("start")?
        .iter()
        .map(|x| x.as_str().unwrap_or("").to_string())
        .collect();
    let steps = expand(case["script"].as_array().ok_or("script")?)?;
    let lanes = case.get("lanes").and_then(|v| v.as_bool()).unwrap_or(true);
    let mut files = Files::new(scratch, start.len(), &case["texts"]);
    files.set_aux(&case["aux"]);
    let text_o = files.texts.get(&start[0]).ok_or("file 0 must start with a valid content")?.clone();
    // physical keys held after each step
    let mut phys: Vec<usize> = vec![];
    {
        let mut down: std::collections::BTreeSet<u16> = Default::default();
        for st in &steps {
            if let Step::In(k, c) = st {
                match k.as_str() {
                    "d" => {
                        down.insert(*c);
                    }
                    "u" => {
                        down.remove(c);
                    }
                    _ => {}
                }
            }
            phys.push(down.len());
        }
    }
    let a = run_lane(names, &text_o, &mut files, &start, 0, &steps, 0)?;
    let na = a.obs.len();
    let mut b: Option<LaneRun> = None;
    let mut c: Option<(usize, usize, LaneRun)> = None;
    if lanes {
        let tb = case["btexts"][&start[0]].as_str().ok_or("btexts for the start content")?.to_string();
        b = Some(run_lane(names, &tb, &mut files, &start, 0, &steps, 0)?);
        // For every reload of A, until a comparison has started: a fresh instance of the loaded content is created
        // right after the iteration of the reload and fed with the rest of the script (everything A's new layout
        // sees).  The comparison starts after the first iteration at which no physical key is held and both A and
        // the fresh instance would block; a further reload before that point restarts the procedure.
        for (ri, p) in a.repls.iter().enumerate() {
            let (rs, idx, kind, _fstate) = p;
            let next_repl = a.repls.get(ri + 1).map(|r| r.0).unwrap_or(na);
            let mut fs = start.clone();
            for st in steps.iter().take(rs + 1) {
                if let Step::Write(i, k) = st {
                    fs[*i] = k.clone();
                }
            }
            let tc = files.texts.get(kind).ok_or("loaded kind has no text")?.clone();
            let run = run_lane(names, &tc, &mut files, &fs, *idx, &steps, rs + 1)?;
            let mut sync = None;
            for si in *rs..next_repl.min(na) {
                let c_cb = if si == *rs { true } else { run.cb.get(si - (rs + 1)).copied().unwrap_or(false) };
                if matches!(steps[si], Step::Tick) && a.cb[si] && phys[si] == 0 && c_cb {
                    sync = Some(si);
                    break;
                }
            }
            if let Some(si) = sync {
                c = Some((rs + 1, si + 1, run));
                break;
            } else if ri + 1 == a.repls.len() {
                // never compared: still shown as running (its can_block decides the start of the comparison)
                c = Some((rs + 1, usize::MAX, run));
            }
        }
    }
    let first_repl = a.repls.first().map(|r| r.0);
    let off = json!({"on": false});
    let mut pending_line: Option<(Value, u64)> = None;
    macro_rules! flush {
        () => {
            if let Some((mut l, n)) = pending_line.take() {
                l["n"] = json!(n);
                writeln!(w, "{}", l).map_err(|e| e.to_string())?;
            }
        };
    }
    for si in 0..na {
        let la = a.obs[si].clone();
        let lb = match (&b, first_repl) {
            (Some(b), fr) if fr.map(|f| si <= f).unwrap_or(true) && si < b.obs.len() => b.obs[si].clone(),
            _ => off.clone(),
        };
        let lc = match &c {
            Some((from, shown, c)) if si >= *shown && si - from < c.obs.len() => {
                let mut o = c.obs[si - from].clone();
                o["run"] = json!(true);
                o
            }
            Some((from, _, c)) if si >= *from && si - from < c.obs.len() => {
                json!({"on": false, "run": true, "cb": c.cb[si - from]})
            }
            _ => json!({"on": false, "run": false}),
        };
        match &steps[si] {
            Step::Write(i, k) => {
                flush!();
                writeln!(w, "{}", json!({"e":"w","i":i,"k":k,"valid":files.is_valid(k)})).map_err(|e| e.to_string())?;
            }
            Step::In(k, code) => {
                flush!();
                writeln!(w, "{}", json!({"e":k,"c":code,"A":la,"B":lb,"C":lc})).map_err(|e| e.to_string())?;
            }
            Step::Tick => {
                let line = json!({"e":"t","n":1,"phys":phys[si],"A":la,"B":lb,"C":lc});
                let silent = |l: &Value| -> bool {
                    !l["on"].as_bool().unwrap_or(false)
                        || (l["out"].as_array().map(|x| x.is_empty()).unwrap_or(true)
                            && l["msgs"].as_array().map(|x| x.is_empty()).unwrap_or(true)
                            && !l["repl"].as_bool().unwrap_or(false))
                };
                let all_silent = silent(&line["A"]) && silent(&line["B"]) && silent(&line["C"]);
                match &mut pending_line {
                    Some((pl, n)) if all_silent && {
                        let mut x = pl.clone();
                        x["n"] = json!(1);
                        x == line
                    } =>
                    {
                        *n += 1;
                    }
                    _ => {
                        flush!();
                        if all_silent {
                            pending_line = Some((line, 1));
                        } else {
                            writeln!(w, "{}", line).map_err(|e| e.to_string())?;
                        }
                    }
                }
            }
        }
    }
    flush!();
    for (name, f) in [
        ("A", a.failure.as_ref()),
        ("B", b.as_ref().and_then(|x| x.failure.as_ref())),
        ("C", c.as_ref().and_then(|x| x.2.failure.as_ref())),
    ] {
        if let Some(f) = f {
            let mut f = f.clone();
            f["lane"] = json!(name);
            writeln!(w, "{}", f).map_err(|e| e.to_string())?;
        }
    }
    files.cleanup();
    Ok(())
}

fn no_xset() {
    // fault injection for the post-parse step of do_live_reload (linux-x11-repeat-delay-rate runs `xset`):
    // the command is never found, independently of the machine the check runs on
    std::env::set_var("PATH", "/nonexistent-kverif");
}

pub fn cmd(args: &[String]) -> i32 {
    no_xset();
    let names = KeyNames::new();
    let job: Value = serde_json::from_reader(std::fs::File::open(&args[0]).expect("job file")).expect("job json");
    let mut w = BufWriter::new(std::fs::File::create(&args[1]).expect("out file"));
    let scratch = PathBuf::from(&args[2]).join(format!("files_{}", std::process::id()));
    install_panic_hook();
    for case in job["cases"].as_array().unwrap() {
        writeln!(w, "{}", json!({"e":"reset","job":case["id"],"script":0,"params":case["params"]})).unwrap();
        let mut buf: Vec<u8> = vec![];
        match run_case(&names, case, &scratch, &mut buf) {
            Ok(()) => w.write_all(&buf).unwrap(),
            Err(e) => {
                w.write_all(&buf).unwrap();
                writeln!(w, "{}", json!({"e":"error","msg":e})).unwrap();
            }
        }
    }
    writeln!(w, "{}", json!({"e":"end"})).unwrap();
    w.flush().unwrap();
    let _ = std::fs::remove_dir_all(&scratch);
    0
}

/// reload-kinds <case.json> <out.json> <scratch dir>: which content kinds the real file loader accepts
/// (cfg::new_from_file on a file with that content; "missing" / "unreadable" included)
pub fn cmd_kinds(args: &[String]) -> i32 {
    let case: Value = serde_json::from_reader(std::fs::File::open(&args[0]).expect("case file")).expect("case json");
    let scratch = PathBuf::from(&args[2]).join(format!("files_{}", std::process::id()));
    let mut files = Files::new(&scratch, 1, &case["texts"]);
    files.set_aux(&case["aux"]);
    let mut kinds: Vec<String> = files.texts.keys().cloned().collect();
    kinds.push("missing".into());
    kinds.push("unreadable".into());
    let mut res = serde_json::Map::new();
    for k in kinds {
        files.write(0, &k).expect("write");
        let ok = std::panic::catch_unwind(|| kanata_parser::cfg::new_from_file(&files.paths[0]).is_ok()).unwrap_or(false);
        res.insert(k, json!(ok));
    }
    files.cleanup();
    std::fs::write(&args[1], serde_json::to_string(&Value::Object(res)).unwrap()).unwrap();
    0
}

/// reload-edges <case.json> <edges.ndjson> <out.json> <scratch dir> [cap]
pub fn cmd_edges(args: &[String]) -> i32 {
    no_xset();
    let names = KeyNames::new();
    let case: Value = serde_json::from_reader(std::fs::File::open(&args[0]).expect("case file")).expect("case json");
    let f = std::io::BufReader::new(std::fs::File::open(&args[1]).expect("edges file"));
    let scratch = PathBuf::from(&args[3]).join(format!("files_{}", std::process::id()));
    let cap: u16 = args.get(4).map(|s| s.parse().unwrap()).unwrap_or(60000);
    let start: Vec<String> = case["start"]
        .as_array()
        .unwrap()
        .iter()
        .map(|x| x.as_str().unwrap_or("").to_string())
        .collect();
    let mut files = Files::new(&scratch, start.len(), &case["texts"]);
    files.set_aux(&case["aux"]);
    let aux = files.aux.clone();
    let text_o = files.texts.get(&start[0]).expect("valid start content").clone();
    install_panic_hook();
    let (mut total, mut nmis, mut panics, mut slips) = (0u64, 0u64, 0u64, 0u64);
    let mut mismatches: Vec<Value> = vec![];
    for line in f.lines() {
        let line = line.unwrap();
        if line.trim().is_empty() {
            continue;
        }
        let e: Value = match serde_json::from_str(&line) {
            Ok(v) => v,
            Err(err) => {
                eprintln!("bad edge line: {err}: {line}");
                return 2;
            }
        };
        total += 1;
        let steps = match expand(e["h"].as_array().unwrap()) {
            Ok(s) => s,
            Err(m) => {
                eprintln!("{m}");
                return 2;
            }
        };
        let x = &e["x"];
        let mut obs = json!({"error": "clock"});
        for _attempt in 0..20 {
            if let Err(m) = files.set_all(&start) {
                eprintln!("{m}");
                return 2;
            }
            let paths = files.paths.clone();
            let r = std::panic::catch_unwind(std::panic::AssertUnwindSafe(|| -> Result<Option<Value>, String> {
                let mut lane = Lane::new(&text_o, &aux, &paths, 0)?;
                let mut last = json!({});
                for st in &steps {
                    match st {
                        Step::Write(i, k) => {
                            files.write(*i, k)?;
                            last = json!({});
                        }
                        Step::In(k, c) => {
                            lane.sim.input(k, *c)?;
                            last = json!({"out": lane.sim.drain(&names)});
                            lane.replaced();
                        }
                        Step::Tick => {
                            let (idle, cb, _) = match lane.iter() {
                                Ok(v) => v,
                                Err(None) => return Ok(None),
                                Err(Some(m)) => return Err(m),
                            };
                            let out = lane.sim.drain(&names);
                            let msgs = lane.msgs(&paths);
                            let repl = lane.replaced();
                            let (li, _) = lane.layer();
                            last = json!({"out": out, "idle": idle, "cb": cb, "msgs": msgs, "repl": repl, "li": li,
                                "lrr": lane.sim.k.verif_live_reload_requested(), "idx": lane.sim.k.cur_cfg_idx});
                        }
                    }
                }
                last["proj"] = lane.sim.proj(cap);
                Ok(Some(last))
            }));
            match r {
                Ok(Ok(Some(o))) => {
                    obs = o;
                    break;
                }
                Ok(Ok(None)) => {
                    slips += 1;
                    continue;
                }
                Ok(Err(m)) => {
                    obs = json!({"error": m});
                    break;
                }
                Err(_) => {
                    panics += 1;
                    let (loc, msg) = take_panic();
                    obs = json!({"panic": loc, "msg": msg});
                    break;
                }
            }
        }
        let mut ok = true;
        if let Some(xm) = x.as_object() {
            for (k, xv) in xm {
                if k == "proj" {
                    if let Some(pm) = xv.as_object() {
                        for (pk, pv) in pm {
                            if &obs["proj"][pk] != pv {
                                ok = false;
                            }
                        }
                    }
                } else if &obs[k] != xv {
                    ok = false;
                }
            }
        }
        if !ok {
            nmis += 1;
            if mismatches.len() < 50 {
                mismatches.push(json!({"h": e["h"], "expected": x, "observed": obs}));
            }
        }
    }
    files.cleanup();
    let res = json!({"edges": total, "mismatches": nmis, "panics": panics, "clock_slips": slips, "samples": mismatches});
    std::fs::write(&args[2], serde_json::to_string(&res).unwrap()).unwrap();
    0
}
