//! Key code tables obtained by calling the real conversion functions of the working tree.
use kanata_keyberon::key_code::KeyCode;
use kanata_parser::keys::OsCode;
use std::collections::HashMap;

pub struct KeyNames {
    /// Debug name of KeyCode -> u16 value (as OsCode::as_u16)
    pub name_to_code: HashMap<String, u16>,
}

impl KeyNames {
    pub fn new() -> Self {
        let mut name_to_code = HashMap::new();
        for c in 0u16..=767 {
            if let Some(osc) = OsCode::from_u16(c) {
                let kc: KeyCode = osc.into();
                let name = format!("{:?}", kc);
                // keep the first (lowest) code for a name; duplicates are reported by the
                // C11 tables check, not here.
                name_to_code.entry(name).or_insert(c);
            }
        }
        Self { name_to_code }
    }
    pub fn code(&self, name: &str) -> Option<u16> {
        self.name_to_code.get(name).copied()
    }
}

pub fn kc_u16(kc: KeyCode) -> u16 {
    kc as u16
}
