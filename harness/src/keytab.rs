//! C11: key code tables obtained by calling the real functions of the working tree, and batch
//! parsing of small configurations (intercept set, key names in every position).
use kanata_keyberon::key_code::KeyCode;
use kanata_parser::keys::{str_to_oscode, OsCode};
use serde_json::{json, Value};

/// c11-tables <names.json> <out.json>
/// names.json: candidate key names (extracted from the source text by tools/props/c11.py).
pub fn cmd_tables(args: &[String]) -> i32 {
    let names: Vec<String> =
        serde_json::from_reader(std::fs::File::open(&args[0]).expect("names file")).expect("json");
    // (i) from_u16 / as_u16 over the whole u16 domain
    let mut from = vec![];
    let mut none_count = 0u32;
    // (ii) conversions between the two code enums, by value and by reference, and the integer
    // conversions of OsCode
    let mut conv = vec![];
    let mut modifiers = vec![];
    for c in 0u16..=65535 {
        match OsCode::from_u16(c) {
            None => none_count += 1,
            Some(osc) => {
                let v = osc.as_u16();
                from.push(json!([c, v]));
                let kc: KeyCode = osc.into();
                let kcv = kc as u16;
                let back: OsCode = kc.into();
                let kc_ref: KeyCode = (&osc).into();
                let back_ref: OsCode = (&kc).into();
                let as_usize: usize = osc.into();
                let as_u32: u32 = osc.into();
                let as_i32: i32 = osc.into();
                let as_u16b: u16 = osc.into();
                let try_usize = OsCode::try_from(c as usize).map(|o| o.as_u16() as i64).unwrap_or(-1);
                conv.push(json!({"c": c, "kc": kcv, "back": back.as_u16(), "kc_ref": kc_ref as u16,
                    "back_ref": back_ref.as_u16(), "usize": as_usize, "u32": as_u32, "i32": as_i32,
                    "u16": as_u16b, "try_usize": try_usize}));
                if osc.is_modifier() {
                    modifiers.push(c);
                }
            }
        }
    }
    // (iii) names
    let mut accepted = vec![];
    let mut rejected = vec![];
    for n in &names {
        match str_to_oscode(n) {
            Some(o) => accepted.push(json!({"n": n, "c": o.as_u16()})),
            None => rejected.push(n.clone()),
        }
    }
    let out = json!({"from": from, "none_count": none_count, "conv": conv, "modifiers": modifiers,
        "names": accepted, "rejected": rejected,
        "keys_in_row": kanata_parser::layers::KEYS_IN_ROW});
    std::fs::write(&args[1], serde_json::to_string(&out).unwrap()).unwrap();
    0
}

/// c11-parse <in.json> <out.json>
/// in: [{"tag":.., "cfg": kbd text, "probe":[codes]}...]; out: per entry the parse verdict, the
/// intercept set (Cfg.mapped_keys) and the parsed actions of the probed coordinates (dump format).
/// With "full": true the probed coordinates are the intercepted keys (when at most 8) and the
/// output also has "layers" (every layer at those coordinates), "ovr" (defoverrides table), "seq"
/// (defseq trie) and "chv2" (defchordsv2 table).  All entries are parsed in this one process, in
/// the given order (the custom key-name table of the parser is process-global state).
pub fn cmd_parse(args: &[String]) -> i32 {
    let jobs: Vec<Value> =
        serde_json::from_reader(std::fs::File::open(&args[0]).expect("in file")).expect("json");
    let mut out = vec![];
    for j in &jobs {
        let text = j["cfg"].as_str().unwrap_or("");
        let probe: Vec<u16> = j["probe"]
            .as_array()
            .map(|a| a.iter().map(|x| x.as_u64().unwrap_or(0) as u16).collect())
            .unwrap_or_default();
        let full = j["full"].as_bool().unwrap_or(false);
        match kanata_parser::cfg::new_from_str(text, Default::default()) {
            Ok(cfg) => {
                // "full": the probed coordinates are the intercepted keys themselves (when there are
                // few), and every layer, the override table, the defseq trie and the chords-v2 table
                // are reported too (key names observed in further configuration positions)
                let mut probe = probe;
                if full && cfg.mapped_keys.len() <= 8 {
                    probe = cfg.mapped_keys.iter().map(|o| o.as_u16()).collect();
                    probe.sort();
                }
                let d = crate::dump::dump_cfg(&cfg, &probe);
                let mut o = json!({"tag": j["tag"], "ok": true, "mapped": d["mapped_keys"],
                    "acts": d["acts"], "l0": d["layers"][0]["real"], "src": d["src"]});
                if full {
                    o["layers"] = json!(d["layers"]
                        .as_array()
                        .map(|a| a.iter().map(|l| l["real"].clone()).collect::<Vec<_>>())
                        .unwrap_or_default());
                    o["ovr"] = crate::dump::overrides_json(&cfg);
                    o["seq"] = d["sequences"].clone();
                    o["chv2"] = d["chv2"].clone();
                }
                out.push(o);
            }
            Err(e) => {
                let msg = format!("{e:?}");
                out.push(json!({"tag": j["tag"], "ok": false, "err": msg.chars().take(300).collect::<String>()}));
            }
        }
    }
    std::fs::write(&args[1], serde_json::to_string(&out).unwrap()).unwrap();
    0
}
