mod cfgeq;
mod crash;
mod dump;
mod keys;
mod keytab;
mod overrides;
mod looprun;
mod mapkeys;
mod paired;
mod parseprobe;
mod reload;
mod seqtab;
mod sim;
mod switchtv;
mod zippy;

use keys::KeyNames;
use serde_json::{json, Value};
use sim::Sim;
use std::io::{BufRead, BufWriter, Write};
use std::sync::Mutex;

static LAST_PANIC: Mutex<Option<(String, String)>> = Mutex::new(None);

fn install_panic_hook() {
    std::panic::set_hook(Box::new(|info| {
        let loc = info
            .location()
            .map(|l| format!("{}:{}", l.file(), l.line()))
            .unwrap_or_default();
        let msg = if let Some(s) = info.payload().downcast_ref::<&str>() {
            s.to_string()
        } else if let Some(s) = info.payload().downcast_ref::<String>() {
            s.clone()
        } else {
            "<non-string panic>".to_string()
        };
        *LAST_PANIC.lock().unwrap() = Some((loc, msg));
    }));
}

fn take_panic() -> (String, String) {
    LAST_PANIC
        .lock()
        .unwrap()
        .take()
        .unwrap_or((String::new(), String::new()))
}

fn files_of(v: &Value) -> Vec<(String, String)> {
    let mut r = vec![];
    if let Some(m) = v.as_object() {
        for (k, val) in m {
            r.push((k.clone(), val.as_str().unwrap_or("").to_string()));
        }
    }
    r
}

/// Executes one script on a fresh instance, writing one ndjson line per input and per group of
/// ticks. Returns Err(msg) on tool-level errors (not on panics of the code under test, which
/// are recorded as data).
fn run_script(
    names: &KeyNames,
    cfg: &str,
    files: &[(String, String)],
    script: &[Value],
    opts: &Value,
    w: &mut dyn Write,
) -> Result<(), String> {
    let want_proj = opts.get("proj").and_then(|v| v.as_bool()).unwrap_or(false);
    let cap = opts.get("cap").and_then(|v| v.as_u64()).unwrap_or(60000) as u16;
    let plain = opts.get("mode").and_then(|v| v.as_str()) == Some("plain");
    // mode "block": the blocking stepper.  As the processing loop does, it stops ticking once
    // can_block_update_idle_waiting returned true and resumes with the next input (`input; tick`); the ticks of the
    // script that are not executed are written as {"e":"skip","n":k} (ignored by the monitors).
    let block = opts.get("mode").and_then(|v| v.as_str()) == Some("block");
    let mut blocked = false;
    let mut skipped: u64 = 0;
    // proj_sparse (with proj): silent ticks that leave the projected state unchanged are run-length compressed
    let sparse = want_proj && opts.get("proj_sparse").and_then(|v| v.as_bool()).unwrap_or(false);
    let mut last_proj: Option<Value> = None;
    let mut sim = Sim::new(cfg, files)?;
    // pending run of silent ticks
    let mut silent: u64 = 0;
    let mut silent_flags = (false, false);
    macro_rules! flush {
        () => {
            if silent > 0 {
                let mut line = json!({"e":"t","n":silent,"out":[],"idle":silent_flags.0,"cb":silent_flags.1});
                if want_proj {
                    line["proj"] = if sparse { last_proj.clone().unwrap_or(Value::Null) } else { sim.proj(cap) };
                }
                writeln!(w, "{}", line).map_err(|e| e.to_string())?;
                silent = 0;
            }
        };
    }
    for st in script {
        let kind = st[0].as_str().unwrap_or("");
        match kind {
            "t" => {
                let n = st[1].as_u64().unwrap_or(1);
                for _ in 0..n {
                    if block && blocked {
                        skipped += 1;
                        continue;
                    }
                    let (idle, cb) = if plain {
                        sim.tick_plain()?;
                        (sim.k.is_idle(), false)
                    } else {
                        sim.tick()?
                    };
                    blocked = cb;
                    let out = sim.drain(names);
                    let mut unchanged = false;
                    if sparse {
                        let p = sim.proj(cap);
                        unchanged = silent > 0 && last_proj.as_ref() == Some(&p);
                        if out.is_empty() && !unchanged {
                            // first tick of a possible run: emitted below as a run of length 1 if the next differs
                            flush!();
                            unchanged = true;
                        }
                        last_proj = Some(p);
                    }
                    if out.is_empty() && (!want_proj || unchanged) {
                        if silent > 0 && silent_flags != (idle, cb) {
                            flush!();
                        }
                        silent += 1;
                        silent_flags = (idle, cb);
                    } else {
                        flush!();
                        let mut line = json!({"e":"t","n":1,"out":out,"idle":idle,"cb":cb});
                        if sim.last_nt != 1 {
                            // tick_states executed by this tick_ms(1) call (dynamic macro replay with recorded delays)
                            line["nt"] = json!(sim.last_nt);
                        }
                        if want_proj {
                            line["proj"] = sim.proj(cap);
                        }
                        writeln!(w, "{}", line).map_err(|e| e.to_string())?;
                    }
                }
            }
            "d" | "u" | "r" | "p" | "w" => {
                flush!();
                if skipped > 0 {
                    writeln!(w, "{}", json!({"e":"skip","n":skipped})).map_err(|e| e.to_string())?;
                    skipped = 0;
                }
                blocked = false;
                let c = st[1].as_u64().unwrap_or(0) as u16;
                sim.input(kind, c)?;
                let out = sim.drain(names);
                let mut line = json!({"e":kind,"c":c,"out":out});
                if want_proj {
                    line["proj"] = sim.proj(cap);
                }
                writeln!(w, "{}", line).map_err(|e| e.to_string())?;
            }
            "fk" => {
                flush!();
                blocked = false;
                let y = st[1].as_u64().unwrap_or(0) as u16;
                let op = st[2].as_str().unwrap_or("");
                sim.fakekey(y, op)?;
                let line = json!({"e":"fk","y":y,"op":op});
                writeln!(w, "{}", line).map_err(|e| e.to_string())?;
            }
            _ => return Err(format!("bad step {st}")),
        }
    }
    flush!();
    if skipped > 0 {
        writeln!(w, "{}", json!({"e":"skip","n":skipped})).map_err(|e| e.to_string())?;
    }
    Ok(())
}

/// run <job.json> <out.ndjson>
/// job: {"jobs":[{"cfg":text,"files":{},"opts":{},"scripts":[[step..]..]}]}
fn cmd_run(args: &[String]) -> i32 {
    let names = KeyNames::new();
    let job: Value = serde_json::from_reader(std::fs::File::open(&args[0]).expect("job file"))
        .expect("job json");
    let mut w = BufWriter::new(std::fs::File::create(&args[1]).expect("out file"));
    install_panic_hook();
    for (ji, j) in job["jobs"].as_array().unwrap().iter().enumerate() {
        let cfg = j["cfg"].as_str().unwrap().to_string();
        let files = files_of(&j["files"]);
        let opts = j["opts"].clone();
        for (si, s) in j["scripts"].as_array().unwrap().iter().enumerate() {
            writeln!(w, "{}", json!({"e":"reset","job":j.get("tag").cloned().unwrap_or(json!(ji)),"script":si,
                "params": j.get("params").cloned().unwrap_or(Value::Null)})).unwrap();
            let script = s.as_array().unwrap().clone();
            let mut buf: Vec<u8> = vec![];
            let r = std::panic::catch_unwind(std::panic::AssertUnwindSafe(|| {
                run_script(&names, &cfg, &files, &script, &opts, &mut buf)
            }));
            w.write_all(&buf).unwrap();
            match r {
                Ok(Ok(())) => {}
                Ok(Err(e)) => {
                    writeln!(w, "{}", json!({"e":"error","msg":e})).unwrap();
                }
                Err(_) => {
                    let (loc, msg) = take_panic();
                    writeln!(w, "{}", json!({"e":"panic","loc":loc,"msg":msg})).unwrap();
                }
            }
        }
    }
    writeln!(w, "{}", json!({"e":"end"})).unwrap();
    w.flush().unwrap();
    0
}

/// dump-cfg <cfg.kbd> <comma-separated universe codes> <out.json>
fn cmd_dump(args: &[String]) -> i32 {
    let text = std::fs::read_to_string(&args[0]).expect("cfg file");
    let universe: Vec<u16> = args[1]
        .split(',')
        .filter(|s| !s.is_empty())
        .map(|s| s.parse().expect("code"))
        .collect();
    match kanata_parser::cfg::new_from_str(&text, Default::default()) {
        Ok(cfg) => {
            let v = dump::dump_cfg(&cfg, &universe);
            std::fs::write(&args[2], serde_json::to_string(&v).unwrap()).unwrap();
            0
        }
        Err(e) => {
            eprintln!("parse error: {e:?}");
            2
        }
    }
}

fn step_apply(sim: &mut Sim, names: &KeyNames, st: &Value) -> Result<(Vec<Value>, Option<(bool, bool)>), String> {
    let kind = st[0].as_str().unwrap_or("");
    match kind {
        "t" => {
            let (idle, cb) = sim.tick()?;
            Ok((sim.drain(names), Some((idle, cb))))
        }
        "fk" => {
            sim.fakekey(st[1].as_u64().unwrap_or(0) as u16, st[2].as_str().unwrap_or(""))?;
            Ok((sim.drain(names), None))
        }
        _ => {
            sim.input(kind, st[1].as_u64().unwrap_or(0) as u16)?;
            Ok((sim.drain(names), None))
        }
    }
}

/// replay-edges <cfg.kbd> <edges.ndjson> <out.json> [cap]
/// Each line: {"h":[steps...], "x":{"out":[..],"idle":b,"cb":b,"proj":{..}}}
/// Replays h on a fresh instance and compares the observation after the last step.
fn cmd_replay_edges(args: &[String]) -> i32 {
    let names = KeyNames::new();
    let text = std::fs::read_to_string(&args[0]).expect("cfg file");
    // the age cap comes from the largest number in the (possibly mutated) parser dump: clamp it to u16
    let cap: u16 = args
        .get(3)
        .map(|s| s.parse::<u64>().unwrap().min(u16::MAX as u64) as u16)
        .unwrap_or(60000);
    let f = std::io::BufReader::new(std::fs::File::open(&args[1]).expect("edges file"));
    install_panic_hook();
    let mut total = 0u64;
    let mut mismatches: Vec<Value> = vec![];
    let mut nmis = 0u64;
    let mut panics = 0u64;
    let mut drift_lines: Vec<String> = vec![];
    for line in f.lines() {
        let line = line.unwrap();
        if line.trim().is_empty() {
            continue;
        }
        let e: Value = match serde_json::from_str(&line) {
            Ok(v) => v,
            Err(err) => {
                eprintln!("bad edge line: {err}: {line}");
                return 2;
            }
        };
        total += 1;
        let h = e["h"].as_array().unwrap().clone();
        let x = &e["x"];
        let r = std::panic::catch_unwind(std::panic::AssertUnwindSafe(|| -> Result<Value, String> {
            let mut sim = Sim::new(&text, &[])?;
            let mut last = (vec![], None);
            for st in &h {
                last = step_apply(&mut sim, &names, st)?;
            }
            let mut obs = json!({"out": last.0, "proj": sim.proj(cap)});
            if let Some((idle, cb)) = last.1 {
                obs["idle"] = json!(idle);
                obs["cb"] = json!(cb);
            }
            Ok(obs)
        }));
        let obs = match r {
            Ok(Ok(o)) => o,
            Ok(Err(msg)) => json!({"error": msg}),
            Err(_) => {
                panics += 1;
                let (loc, msg) = take_panic();
                json!({"panic": loc, "msg": msg})
            }
        };
        // compare only the keys the model supplies
        let mut ok = true;
        if let Some(xm) = x.as_object() {
            for (k, xv) in xm {
                if k == "proj" {
                    if let Some(pm) = xv.as_object() {
                        for (pk, pv) in pm {
                            if &obs["proj"][pk] != pv {
                                ok = false;
                            }
                        }
                    }
                } else if &obs[k] != xv {
                    ok = false;
                }
            }
        }
        if !ok {
            nmis += 1;
            // every drifting history goes to <out>.drift.ndjson (the monitors judge them, DESIGN 3.3)
            drift_lines.push(serde_json::to_string(&json!({"h": h})).unwrap());
            if mismatches.len() < 50 {
                mismatches.push(json!({"h": h, "expected": x, "observed": obs}));
            }
        }
    }
    let res = json!({"edges": total, "mismatches": nmis, "panics": panics, "samples": mismatches});
    std::fs::write(&args[2], serde_json::to_string(&res).unwrap()).unwrap();
    let mut dl = drift_lines.join("\n");
    if !dl.is_empty() {
        dl.push('\n');
    }
    std::fs::write(format!("{}.drift.ndjson", &args[2]), dl).unwrap();
    0
}

/// keytable <out.json>: every key name accepted by str_to_oscode among a candidate list, with
/// its code; plus code -> KeyCode debug name for all codes.
fn cmd_keytable(args: &[String]) -> i32 {
    let mut names = serde_json::Map::new();
    let cands = [
        "a","b","c","d","e","f","g","h","i","j","k","l","m","n","o","p","q","r","s","t","u","v","w","x","y","z",
        "1","2","3","4","5","6","7","8","9","0","lsft","rsft","lctl","rctl","lalt","ralt","lmet","rmet",
        "spc","ret","tab","esc","bspc","del","caps","f1","f2","f3","f4","f5","f6","f7","f8","f9","f10","f11","f12",
        "left","right","up","down","home","end","pgup","pgdn","ins","min","eql","lbrc","rbrc","scln","apos","grv",
        "bksl","comm","dot","slsh","kp0","kp1","kp2","kp3","kp4","kp5","kp6","kp7","kp8","kp9","mlft","mrgt","mmid",
        "mbck","mfwd","mwu","mwd","mwl","mwr",
    ];
    for n in cands {
        if let Some(o) = kanata_parser::keys::str_to_oscode(n) {
            names.insert(n.to_string(), json!(o.as_u16()));
        }
    }
    let mut codes = serde_json::Map::new();
    for c in 0u16..=767 {
        if let Some(o) = kanata_parser::keys::OsCode::from_u16(c) {
            let kc: kanata_keyberon::key_code::KeyCode = o.into();
            codes.insert(c.to_string(), json!(format!("{kc:?}")));
        }
    }
    std::fs::write(&args[0], serde_json::to_string(&json!({"names": names, "codes": codes})).unwrap()).unwrap();
    0
}

fn main() {
    let args: Vec<String> = std::env::args().collect();
    if args.len() < 2 {
        eprintln!("usage: kverif <cmd> ...");
        std::process::exit(2);
    }
    let rest = &args[2..];
    let code = match args[1].as_str() {
        "run" => cmd_run(rest),
        "dump-cfg" => cmd_dump(rest),
        "replay-edges" => cmd_replay_edges(rest),
        "keytable" => cmd_keytable(rest),
        "zippy-dump" => zippy::cmd_zippy_dump(rest),
        "zippy-edges" => zippy::cmd_zippy_edges(rest),
        "ovr-cases" => overrides::cmd_cases(rest),
        "ovr-eval" => overrides::cmd_eval(rest),
        "c11-tables" => keytab::cmd_tables(rest),
        "c11-parse" => keytab::cmd_parse(rest),
        "c11-reload" => mapkeys::cmd(rest),
        "switch-tv" => switchtv::cmd(rest),
        "seq-tables" => seqtab::cmd(rest),
        "cfgeq" => cfgeq::cmd(rest),
        "crash" => crash::cmd_crash(rest),
        "loop-run" => looprun::cmd_loop_run(rest),
        "tick-budget" => looprun::cmd_tick_budget(rest),
        "paired" => paired::cmd_paired(rest),
        "reload" => reload::cmd(rest),
        "reload-edges" => reload::cmd_edges(rest),
        "reload-kinds" => reload::cmd_kinds(rest),
        "parse-probe" => parseprobe::cmd_parse_probe(rest),
        "lex-enum" => parseprobe::cmd_lex_enum(rest),
        "sexpr-tree" => parseprobe::cmd_sexpr_tree(rest),
        other => {
            eprintln!("unknown command {other}");
            2
        }
    };
    std::process::exit(code);
}
