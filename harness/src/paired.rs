//! C07 (idle blocking is unobservable): paired runs on the real code.
//!
//! paired <job.json> <out.ndjson>
//!   job  = {"jobs":[{"cfg":text,"files":{name:content},"tag":any,"params":{..},"cases":[case..]}]}
//!   case = {"hist":[step..],            history (harness script steps: ["d"|"u"|"r"|"p"|"w",code] ["t",n] ["fk",y,op])
//!           "points":"end"|"first"|"firstlast"|"none",   where the history is cut:
//!                 end       = after the last step (must be a tick),
//!                 first     = after every tick at which the real can_block_update_idle_waiting turned true,
//!                 firstlast = those, and the last tick of every blocked stretch (just before the next input)
//!           "max_points":m,             at most m cut points (evenly thinned)
//!           "ks":[K..],                 gap lengths of lane A
//!           "conts":[[step..]..],       continuations tried at every cut point
//!           "rest":n,                   if > 0: also the next n atomic steps of the history itself (starting at
//!                                       its next input) as a continuation
//!           "tail":t,                   silent ticks appended to every continuation
//!           "block":bool,               also whole-history pairs: ticking stepper vs blocking stepper
//!           "long_gap":n}               (block) the guarded blocking stepper does not sleep through more than n ticks
//!
//! For every cut point where the REAL decision `can_block_update_idle_waiting` returned true (the loop would
//! block on the channel), every continuation c and every K:
//!     lane A = prefix ; tick x K ; c ; tail      (the loop had kept ticking through the gap)
//!     lane B = prefix ;            c ; tail      (the loop blocked: no tick is executed until the next input)
//! each lane on a fresh Kanata.  One output line per pair:
//!   {"e":"pair","job":tag,"case":i,"cut":atomic step index,"K":K,"cont":j|"rest","mode":"gap",
//!    "down":[codes the OS sees pressed at the cut],"gap":[rec..],"A":[rec..],"B":[rec..],
//!    "pre":{"osp":oneshot.pause_input_processing_ticks,"ost":oneshot.timeout,"nosk":oneshot.keys.len()} at the cut}
//! rec = {"e":"t","n":k,"out":[[kind,arg]..],"idle":b,"cb":b} (silent ticks run-length compressed, n>1 only if out=[])
//!     | {"e":"d"|"u"|"r"|"p"|"w","c":code,"out":[..]} | {"e":"fk","y":y,"op":op,"out":[]}
//!     | {"e":"skip","n":k} (ticks not executed by the blocking stepper) | {"e":"panic","loc":..,"msg":..}
//!     | {"e":"error","msg":..}
//! Output arguments are always strings so that TLC compares homogeneous values.
//! "block" pair (mode "block"): A = the whole history with every tick executed, B = the same history where the
//! ticks following a tick with can_block = true are skipped until the next input (what the processing loop does).
//! A second pair (mode "blockg") is written when the guarded blocking stepper decided differently: it does not block
//! in the states of the recorded findings of C07 ("guards": how often each guard changed a decision); it is used
//! only to attribute a rejected "block" pair to those findings.
//! Nothing is judged here: spec/P_C07.tla (TLC) decides.
use crate::keys::KeyNames;
use crate::sim::Sim;
use crate::{files_of, install_panic_hook, take_panic};
use serde_json::{json, Value};
use std::io::{BufWriter, Write};

#[derive(Clone, Debug)]
enum Step {
    Tick,
    In(String, u16),
    Fk(u16, String),
}

fn expand(steps: &[Value], limit: usize) -> Result<Vec<Step>, String> {
    let mut v = vec![];
    for st in steps {
        let kind = st[0].as_str().unwrap_or("");
        match kind {
            "t" => {
                let n = st[1].as_u64().unwrap_or(1) as usize;
                if v.len() + n > limit {
                    return Err(format!("history longer than {limit} atomic steps"));
                }
                for _ in 0..n {
                    v.push(Step::Tick);
                }
            }
            "d" | "u" | "r" | "p" | "w" => v.push(Step::In(kind.to_string(), st[1].as_u64().unwrap_or(0) as u16)),
            "fk" => v.push(Step::Fk(
                st[1].as_u64().unwrap_or(0) as u16,
                st[2].as_str().unwrap_or("").to_string(),
            )),
            _ => return Err(format!("bad step {st}")),
        }
    }
    Ok(v)
}

fn strout(out: Vec<Value>) -> Vec<Value> {
    out.into_iter()
        .map(|e| {
            let k = e[0].clone();
            let a = match &e[1] {
                Value::String(s) => Value::String(s.clone()),
                other => Value::String(other.to_string()),
            };
            json!([k, a])
        })
        .collect()
}

/// Recorder of one lane with run-length compression of silent ticks.
struct Lane {
    recs: Vec<Value>,
    silent: u64,
    flags: (bool, bool),
    skipped: u64,
}

impl Lane {
    fn new() -> Self {
        Lane { recs: vec![], silent: 0, flags: (false, false), skipped: 0 }
    }
    fn flush(&mut self) {
        if self.silent > 0 {
            self.recs.push(json!({"e":"t","n":self.silent,"out":[],"idle":self.flags.0,"cb":self.flags.1}));
            self.silent = 0;
        }
        if self.skipped > 0 {
            self.recs.push(json!({"e":"skip","n":self.skipped}));
            self.skipped = 0;
        }
    }
    fn tick(&mut self, out: Vec<Value>, idle: bool, cb: bool) {
        if self.skipped > 0 {
            self.flush();
        }
        if out.is_empty() {
            if self.silent > 0 && self.flags != (idle, cb) {
                self.flush();
            }
            self.silent += 1;
            self.flags = (idle, cb);
        } else {
            self.flush();
            self.recs.push(json!({"e":"t","n":1,"out":strout(out),"idle":idle,"cb":cb}));
        }
    }
    fn skip(&mut self) {
        if self.silent > 0 {
            self.flush();
        }
        self.skipped += 1;
    }
    fn push(&mut self, v: Value) {
        self.flush();
        self.recs.push(v);
    }
    fn take(&mut self) -> Vec<Value> {
        self.flush();
        std::mem::take(&mut self.recs)
    }
}

/// Applies one atomic step; returns Some((idle, cb)) for a tick.
fn apply(sim: &mut Sim, names: &KeyNames, st: &Step, lane: Option<&mut Lane>) -> Result<Option<(bool, bool)>, String> {
    match st {
        Step::Tick => {
            let (idle, cb) = sim.tick()?;
            let out = sim.drain(names);
            if let Some(l) = lane {
                l.tick(out, idle, cb);
            }
            Ok(Some((idle, cb)))
        }
        Step::In(kind, c) => {
            sim.input(kind, *c)?;
            let out = sim.drain(names);
            if let Some(l) = lane {
                l.push(json!({"e":kind,"c":c,"out":strout(out)}));
            }
            Ok(None)
        }
        Step::Fk(y, op) => {
            sim.fakekey(*y, op)?;
            let out = sim.drain(names);
            if let Some(l) = lane {
                l.push(json!({"e":"fk","y":y,"op":op,"out":strout(out)}));
            }
            Ok(None)
        }
    }
}

/// Runs `f` on a fresh Sim; a panic / error of the code under test ends the lane with a record.
fn guarded(lane: &mut Lane, f: &mut dyn FnMut(&mut Lane) -> Result<(), String>) {
    let r = std::panic::catch_unwind(std::panic::AssertUnwindSafe(|| f(lane)));
    match r {
        Ok(Ok(())) => {}
        Ok(Err(e)) => lane.push(json!({"e":"error","msg":e})),
        Err(_) => {
            let (loc, msg) = take_panic();
            lane.push(json!({"e":"panic","loc":loc,"msg":msg}));
        }
    }
}

struct Scan {
    /// (idle, cb) after every atomic step that is a tick, None for inputs
    flags: Vec<Option<(bool, bool)>>,
    /// OS keys down after every atomic step
    down: Vec<Vec<String>>,
    /// the fields by which the recorded findings of C07 are recognised, after every atomic step
    pre: Vec<Pre>,
    /// the scan ended early (panic / error of the code under test) after this many steps
    done: usize,
    problem: Option<Value>,
}

fn scan(names: &KeyNames, cfg: &str, files: &[(String, String)], hist: &[Step]) -> Scan {
    let mut sc = Scan { flags: vec![], down: vec![], pre: vec![], done: 0, problem: None };
    let r = std::panic::catch_unwind(std::panic::AssertUnwindSafe(|| -> Result<(), String> {
        let mut sim = Sim::new(cfg, files)?;
        let mut down: Vec<String> = vec![];
        let mut lane = Lane::new();
        for st in hist {
            let fl = apply(&mut sim, names, st, Some(&mut lane))?;
            // outputs of this step: the last record if it is not a silent run
            lane.flush();
            if let Some(last) = lane.recs.last() {
                if let Some(out) = last["out"].as_array() {
                    for e in out {
                        let k = e[0].as_str().unwrap_or("");
                        let a = e[1].as_str().unwrap_or("").to_string();
                        if k == "d" {
                            if !down.contains(&a) {
                                down.push(a);
                            }
                        } else if k == "u" {
                            down.retain(|x| *x != a);
                        }
                    }
                }
            }
            lane.recs.clear();
            sc.flags.push(fl);
            sc.down.push(down.clone());
            let prev_cv2a = sc.pre.last().map(|p| p.cv2a).unwrap_or(true);
            sc.pre.push(pre_of(&sim, prev_cv2a));
            sc.done += 1;
        }
        Ok(())
    }));
    match r {
        Ok(Ok(())) => {}
        Ok(Err(e)) => sc.problem = Some(json!({"e":"error","msg":e})),
        Err(_) => {
            let (loc, msg) = take_panic();
            sc.problem = Some(json!({"e":"panic","loc":loc,"msg":msg}));
        }
    }
    sc
}

/// Public state by which a may-block decision point is matched with a recorded finding of C07.
#[derive(Clone, Copy, Debug, Default)]
struct Pre {
    /// oneshot.pause_input_processing_ticks (the rapid-event pause)
    osp: u16,
    /// oneshot.timeout / oneshot.keys.len()
    ost: u16,
    nosk: usize,
    /// the key set of the layout differs from prev_keys: a release / press is still to be written by the next tick
    /// (also true while an override / unmod rewrites the key set; the attribution additionally needs the
    /// counterfactual "the same pair one tick later agrees")
    kdiff: bool,
    /// chords v2 accepts chords (ticks_to_ignore_chord == 0)
    cv2a: bool,
    /// ... and did not after the previous step: the first tick after the chords-v2-min-idle window
    cv2edge: bool,
    /// a dynamic macro is being recorded
    drec: bool,
    /// layout.extra_waiting.len(): tap-holds / chords still deciding next to (or after) `waiting` (concurrent-tap-hold)
    xw: usize,
}

fn pre_of(sim: &Sim, prev_cv2a: bool) -> Pre {
    let l = sim.k.layout.b();
    let mut cur: Vec<u16> = l.keycodes().map(|k| k as u16).collect();
    let mut prev: Vec<u16> = sim.k.prev_keys.iter().map(|k| *k as u16).collect();
    cur.sort();
    cur.dedup();
    prev.sort();
    prev.dedup();
    let cv2a = l.chords_v2.as_ref().map(|c| c.accepts_chords_chv2()).unwrap_or(true);
    Pre {
        osp: l.oneshot.pause_input_processing_ticks,
        ost: l.oneshot.timeout,
        nosk: l.oneshot.keys.len(),
        kdiff: sim.k.caps_word.is_none() && cur != prev,
        cv2a,
        cv2edge: l.chords_v2.is_some() && cv2a && !prev_cv2a,
        drec: sim.k.dynamic_macro_record_state.is_some(),
        xw: l.extra_waiting.len(),
    }
}

fn pre_json(p: &Pre) -> Value {
    json!({"osp": p.osp, "ost": p.ost, "nosk": p.nosk, "kdiff": p.kdiff, "cv2edge": p.cv2edge, "drec": p.drec, "xw": p.xw})
}

const GUARDS: [&str; 7] = ["pause", "os0", "kdiff", "cv2", "drec", "long", "xw"];
/// Which recorded finding (index into GUARDS) covers this may-block decision, if any.
fn guard_of(p: &Pre, ahead: usize, long_gap: usize) -> Option<usize> {
    if p.osp > 0 {
        Some(0)
    } else if p.ost == 0 && p.nosk > 0 {
        Some(1)
    } else if p.kdiff {
        Some(2)
    } else if p.cv2edge {
        Some(3)
    } else if p.drec {
        Some(4)
    } else if ahead > long_gap {
        Some(5)
    } else if p.xw > 0 {
        Some(6)
    } else {
        None
    }
}

fn is_input(s: &Step) -> bool {
    !matches!(s, Step::Tick)
}

fn cmd_paired_inner(args: &[String]) -> Result<(), String> {
    let names = KeyNames::new();
    let job: Value = serde_json::from_reader(std::fs::File::open(&args[0]).map_err(|e| e.to_string())?)
        .map_err(|e| e.to_string())?;
    let mut w = BufWriter::new(std::fs::File::create(&args[1]).map_err(|e| e.to_string())?);
    install_panic_hook();
    const LIMIT: usize = 400_000;
    for (ji, j) in job["jobs"].as_array().ok_or("jobs")?.iter().enumerate() {
        let cfg = j["cfg"].as_str().ok_or("cfg")?.to_string();
        let files = files_of(&j["files"]);
        let tag = j.get("tag").cloned().unwrap_or(json!(ji));
        for (ci, c) in j["cases"].as_array().ok_or("cases")?.iter().enumerate() {
            let hist = expand(c["hist"].as_array().ok_or("hist")?, LIMIT)?;
            let ks: Vec<u64> = c["ks"].as_array().map(|a| a.iter().filter_map(|x| x.as_u64()).collect()).unwrap_or_default();
            let tail = c["tail"].as_u64().unwrap_or(0) as usize;
            let rest = c["rest"].as_u64().unwrap_or(0) as usize;
            let mode = c["points"].as_str().unwrap_or("end");
            let maxp = c["max_points"].as_u64().unwrap_or(1_000_000) as usize;
            let mut conts: Vec<(Value, Vec<Step>)> = vec![];
            if let Some(cs) = c["conts"].as_array() {
                for (i, s) in cs.iter().enumerate() {
                    conts.push((json!(i), expand(s.as_array().ok_or("cont")?, LIMIT)?));
                }
            }
            let sc = scan(&names, &cfg, &files, &hist);
            // ---- cut points (indices = number of atomic steps in the prefix)
            let mut cuts: Vec<usize> = vec![];
            let cb_at = |i: usize| -> bool { i >= 1 && i <= sc.done && matches!(sc.flags[i - 1], Some((_, true))) };
            match mode {
                "end" => {
                    if sc.done == hist.len() && cb_at(hist.len()) {
                        cuts.push(hist.len());
                    }
                }
                "none" => {}
                _ => {
                    for i in 1..=sc.done {
                        if !cb_at(i) {
                            continue;
                        }
                        let first = !cb_at(i - 1);
                        let last = i == hist.len() || is_input(&hist[i]);
                        if first || (mode == "firstlast" && last) {
                            cuts.push(i);
                        }
                    }
                }
            }
            let ncuts = cuts.len();
            if cuts.len() > maxp && maxp > 0 {
                let n = cuts.len();
                cuts = (0..maxp).map(|k| cuts[k * n / maxp]).collect();
                cuts.dedup();
            }
            let nticks = sc.flags.iter().filter(|f| f.is_some()).count();
            let ncb = sc.flags.iter().filter(|f| matches!(f, Some((_, true)))).count();
            writeln!(w, "{}", json!({"e":"case","job":tag,"case":ci,"steps":hist.len(),"scanned":sc.done,"ticks":nticks,
                "cbticks":ncb,"points":ncuts,"used":cuts.len(),
                "problem":sc.problem.as_ref().map(|p| p.to_string()).unwrap_or_default()})).map_err(|e| e.to_string())?;
            for &cut in &cuts {
                let prefix = &hist[..cut];
                let mut cs: Vec<(Value, Vec<Step>)> = conts.clone();
                if rest > 0 {
                    // the history's own continuation: from its next input on
                    let mut k = cut;
                    while k < hist.len() && !is_input(&hist[k]) {
                        k += 1;
                    }
                    if k < hist.len() {
                        let end = (k + rest).min(hist.len());
                        cs.push((json!("rest"), hist[k..end].to_vec()));
                    }
                }
                for (cname, cont) in &cs {
                    let run = |k: u64| -> (Vec<Value>, Vec<Value>) {
                        let mut lane = Lane::new();
                        let mut gap: Vec<Value> = vec![];
                        let mut in_gap = true;
                        guarded(&mut lane, &mut |lane: &mut Lane| {
                            let mut sim = Sim::new(&cfg, &files)?;
                            for st in prefix {
                                apply(&mut sim, &names, st, None)?;
                            }
                            for _ in 0..k {
                                apply(&mut sim, &names, &Step::Tick, Some(lane))?;
                            }
                            gap = lane.take();
                            in_gap = false;
                            for st in cont {
                                apply(&mut sim, &names, st, Some(lane))?;
                            }
                            for _ in 0..tail {
                                apply(&mut sim, &names, &Step::Tick, Some(lane))?;
                            }
                            Ok(())
                        });
                        if in_gap {
                            // the lane died inside the gap: everything it recorded belongs to the gap
                            gap = lane.take();
                        }
                        (gap, lane.take())
                    };
                    let (_, lane_b) = run(0);
                    for &k in &ks {
                        let (gap, lane_a) = run(k);
                        writeln!(w, "{}", json!({"e":"pair","job":tag,"case":ci,"cut":cut,"K":k,"cont":cname,"mode":"gap",
                            "down":sc.down[cut - 1],"pre":pre_json(&sc.pre[cut - 1]),"gap":gap,"A":lane_a,"B":lane_b})).map_err(|e| e.to_string())?;
                    }
                }
            }
            if c["block"].as_bool().unwrap_or(false) {
                let mut la = Lane::new();
                guarded(&mut la, &mut |lane: &mut Lane| {
                    let mut sim = Sim::new(&cfg, &files)?;
                    for st in &hist {
                        apply(&mut sim, &names, st, Some(lane))?;
                    }
                    Ok(())
                });
                // B = the blocking stepper.  guard = false: blocks wherever the real decision says so.
                // guard = true: does not block where one of the recorded findings of C07 applies (rapid-event pause
                // pending; one-shot end pending with timeout 0; a blocked stretch longer than `long_gap` ticks);
                // `fired` counts the decisions changed by each guard.
                let long_gap = c["long_gap"].as_u64().unwrap_or(9000) as usize;
                            let run_block = |guard: bool, fired: &mut [u64; 7]| -> Vec<Value> {
                    let mut lb = Lane::new();
                    guarded(&mut lb, &mut |lane: &mut Lane| {
                        let mut sim = Sim::new(&cfg, &files)?;
                        let mut blocked = false;
                        let mut prev_cv2a = true;
                        // the "long" guard keeps the stepper ticking through the whole stretch
                        let mut awake_until_input = false;
                        for (i, st) in hist.iter().enumerate() {
                            if is_input(st) {
                                awake_until_input = false;
                            }
                            match st {
                                Step::Tick if blocked => lane.skip(),
                                _ => {
                                    let r = apply(&mut sim, &names, st, Some(lane))?;
                                    let p = pre_of(&sim, prev_cv2a);
                                    prev_cv2a = p.cv2a;
                                    if let Some((_, cb)) = r {
                                        blocked = cb;
                                        if cb && guard && awake_until_input {
                                            blocked = false;
                                        } else if cb && guard {
                                            let mut ahead = 0usize;
                                            while i + 1 + ahead < hist.len() && !is_input(&hist[i + 1 + ahead]) {
                                                ahead += 1;
                                            }
                                            if let Some(g) = guard_of(&p, ahead, long_gap) {
                                                fired[g] += 1;
                                                blocked = false;
                                                awake_until_input = g == 5;
                                            }
                                        }
                                    } else {
                                        blocked = false;
                                    }
                                }
                            }
                        }
                        Ok(())
                    });
                    lb.take()
                };
                let mut none = [0u64; 7];
                let lane_b = run_block(false, &mut none);
                let mut fired = [0u64; 7];
                let lane_g = run_block(true, &mut fired);
                let lane_a = la.take();
                let mut guards = serde_json::Map::new();
                for (i, g) in GUARDS.iter().enumerate() {
                    guards.insert(g.to_string(), json!(fired[i]));
                }
                let guards = Value::Object(guards);
                writeln!(w, "{}", json!({"e":"pair","job":tag,"case":ci,"cut":0,"K":0,"cont":"all","mode":"block",
                    "down":[],"pre":pre_json(&Pre::default()),"guards":guards,"gap":[],"A":lane_a,"B":lane_b})).map_err(|e| e.to_string())?;
                if fired.iter().any(|x| *x > 0) {
                    writeln!(w, "{}", json!({"e":"pair","job":tag,"case":ci,"cut":0,"K":0,"cont":"all","mode":"blockg",
                        "down":[],"pre":pre_json(&Pre::default()),"guards":guards,"gap":[],"A":lane_a,"B":lane_g})).map_err(|e| e.to_string())?;
                }
            }
        }
    }
    writeln!(w, "{}", json!({"e":"end"})).map_err(|e| e.to_string())?;
    w.flush().map_err(|e| e.to_string())?;
    Ok(())
}

pub fn cmd_paired(args: &[String]) -> i32 {
    if args.len() < 2 {
        eprintln!("usage: kverif paired <job.json> <out.ndjson>");
        return 2;
    }
    match cmd_paired_inner(args) {
        Ok(()) => 0,
        Err(e) => {
            eprintln!("paired: {e}");
            2
        }
    }
}
