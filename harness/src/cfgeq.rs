//! C16 (translation validation): load configuration texts with the real parser and compare what
//! it produced for the two sides of a pair.
//!
//! cfgeq <in.json> <out.ndjson>
//!   in:  {"texts":[{"cfg":text,"files":{name:text}}...], "pairs":[[ia, ib, id]...], "detail": n}
//!        a text entry {"skip":true} is not loaded and gets status "abort" (the orchestrator marks a text
//!        that killed a previous worker - stack overflow / abort inside the parser - this way)
//!   out: {"e":"begin","i":i} (flushed) before each text is loaded, then
//!        one line per text  {"e":"text","i":i,"status":"ok"|"err"|"panic"|"abort","msg":..,"mapped":[codes]}
//!        one line per pair  {"e":"pair","id":id,"a":ia,"b":ib,"sa":status,"sb":status,"diff":[field...],
//!                            "detail":{field:[a,b]}}     (detail only for the first n differing pairs)
//!        {"e":"end"}
//!
//! The parsed result is compared BY STRUCTURE: action trees are dumped with `dump.rs` and then
//! unfolded (child ids replaced by the child trees), so that an action shared through an alias and
//! the same action written twice give the same fingerprint.  Fields: every coordinate of every
//! layer (real row and virtual-key row), the defsrc row, key_outputs, mapped_keys, sequences
//! (trie contents), overrides, options, layer names/icons, virtual key names, switch key timing.
//! Opaque to this comparison (covered by the paired behaviour runs): custom tap-hold closures,
//! the chords-v2 table, zippychord.
use crate::dump::Dumper;
use kanata_parser::cfg::{Cfg, KanataAction};
use serde_json::{json, Map, Value};
use std::collections::{BTreeMap, HashMap};
use std::io::{BufWriter, Write};

fn unfold(acts: &[Value], id: usize, memo: &mut HashMap<usize, Value>) -> Value {
    if let Some(v) = memo.get(&id) {
        return v.clone();
    }
    let mut v = acts[id - 1].clone();
    let t = v["t"].as_str().unwrap_or("").to_string();
    let mut sub = |x: &Value, memo: &mut HashMap<usize, Value>| -> Value {
        unfold(acts, x.as_u64().unwrap_or(0) as usize, memo)
    };
    match t.as_str() {
        "multi" | "tapdance" => {
            let ids: Vec<Value> = v["acs"].as_array().cloned().unwrap_or_default();
            v["acs"] = Value::Array(ids.iter().map(|x| sub(x, memo)).collect());
        }
        "holdtap" => {
            for k in ["hold", "tap", "toa"] {
                let x = v[k].clone();
                v[k] = sub(&x, memo);
            }
        }
        "oneshot" => {
            let x = v["ac"].clone();
            v["ac"] = sub(&x, memo);
        }
        "fork" => {
            for k in ["left", "right"] {
                let x = v[k].clone();
                v[k] = sub(&x, memo);
            }
        }
        "chords" => {
            let mut cs = v["chords"].as_array().cloned().unwrap_or_default();
            for c in cs.iter_mut() {
                let x = c["ac"].clone();
                c["ac"] = sub(&x, memo);
            }
            // the order of a chord group's table is an iteration order of a hash map in the parser
            cs.sort_by_key(|c| c["m"].to_string());
            v["chords"] = Value::Array(cs);
        }
        "switch" => {
            let mut cs = v["cases"].as_array().cloned().unwrap_or_default();
            for c in cs.iter_mut() {
                let x = c["ac"].clone();
                c["ac"] = sub(&x, memo);
            }
            v["cases"] = Value::Array(cs);
        }
        _ => {}
    }
    memo.insert(id, v.clone());
    v
}

pub struct Fp {
    pub fields: BTreeMap<String, String>,
    pub mapped: Vec<u16>,
}

pub fn fingerprint(cfg: &Cfg) -> Fp {
    let l = cfg.layout.b();
    let mut d = Dumper::new();
    // first pass: collect ids for every coordinate (the dumper memoises by address)
    let mut coords: Vec<(String, usize)> = vec![];
    for (li, layer) in l.layers.iter().enumerate() {
        for (row, r) in layer.iter().enumerate() {
            for (x, a) in r.iter().enumerate() {
                if matches!(a, kanata_keyberon::action::Action::Trans) {
                    continue;
                }
                let a: &'static KanataAction = unsafe { std::mem::transmute(a) };
                coords.push((format!("{li}:{row}:{x}"), d.act(a)));
            }
        }
    }
    let mut src: Vec<(String, usize)> = vec![];
    for (x, a) in l.src_keys.iter().enumerate() {
        if matches!(a, kanata_keyberon::action::Action::NoOp) {
            continue;
        }
        let a: &'static KanataAction = unsafe { std::mem::transmute(a) };
        src.push((format!("{x}"), d.act(a)));
    }
    let mut memo: HashMap<usize, Value> = HashMap::new();
    let mut layers = Map::new();
    for (k, id) in coords {
        layers.insert(k, unfold(&d.acts, id, &mut memo));
    }
    let mut srcm = Map::new();
    for (k, id) in src {
        srcm.insert(k, unfold(&d.acts, id, &mut memo));
    }
    let mut fields = BTreeMap::new();
    fields.insert("layers".to_string(), Value::Object(layers).to_string());
    fields.insert("defsrc_row".to_string(), Value::Object(srcm).to_string());
    fields.insert("nlayers".to_string(), l.layers.len().to_string());
    let mut ko = vec![];
    for m in cfg.key_outputs.iter() {
        let mut b: BTreeMap<u16, Vec<u16>> = BTreeMap::new();
        for (k, v) in m.iter() {
            b.insert(k.as_u16(), v.iter().map(|o| o.as_u16()).collect());
        }
        ko.push(json!(b.iter().map(|(k, v)| json!([k, v])).collect::<Vec<_>>()));
    }
    fields.insert("key_outputs".to_string(), Value::Array(ko).to_string());
    let mut mapped: Vec<u16> = cfg.mapped_keys.iter().map(|o| o.as_u16()).collect();
    mapped.sort();
    fields.insert("mapped_keys".to_string(), json!(mapped).to_string());
    fields.insert("sequences".to_string(), format!("{:?}", cfg.sequences));
    fields.insert("overrides".to_string(), format!("{:?}", cfg.overrides));
    fields.insert("options".to_string(), format!("{:?}", cfg.options));
    let mut fk: Vec<(usize, String)> = cfg.fake_keys.iter().map(|(k, v)| (*v, k.clone())).collect();
    fk.sort();
    fields.insert("virtual_keys".to_string(), json!(fk).to_string());
    fields.insert(
        "layer_names".to_string(),
        json!(cfg
            .layer_info
            .iter()
            .map(|i| json!([i.name, i.icon]))
            .collect::<Vec<_>>())
        .to_string(),
    );
    fields.insert(
        "switch_max_key_timing".to_string(),
        cfg.switch_max_key_timing.to_string(),
    );
    fields.insert(
        "has_chords_v2_zippy".to_string(),
        format!("{} {}", l.chords_v2.is_some(), cfg.zippy.is_some()),
    );
    Fp { fields, mapped }
}

enum Loaded {
    Ok(Fp),
    Err(String),
    Panic(String),
    Abort,
}

fn load(text: &str, files: &Value) -> Loaded {
    let mut fc: HashMap<String, String> = HashMap::new();
    if let Some(m) = files.as_object() {
        for (k, v) in m {
            fc.insert(k.clone(), v.as_str().unwrap_or("").to_string());
        }
    }
    let r = std::panic::catch_unwind(std::panic::AssertUnwindSafe(|| {
        let fcm = fc.into_iter().collect();
        match kanata_parser::cfg::new_from_str(text, fcm) {
            Ok(cfg) => Loaded::Ok(fingerprint(&cfg)),
            Err(e) => {
                // the help text carries the parser's own message; keep it short and on one line
                let full = format!("{e:?}");
                let help = full.split("help:").nth(1).unwrap_or(&full);
                let one: String = help.split_whitespace().collect::<Vec<_>>().join(" ");
                Loaded::Err(one.chars().take(300).collect())
            }
        }
    }));
    match r {
        Ok(l) => l,
        Err(_) => {
            let (loc, msg) = crate::take_panic();
            Loaded::Panic(format!("{loc}: {msg}"))
        }
    }
}

fn first_diff(a: &str, b: &str) -> (String, String) {
    let ab = a.as_bytes();
    let bb = b.as_bytes();
    let mut i = 0;
    while i < ab.len() && i < bb.len() && ab[i] == bb[i] {
        i += 1;
    }
    let cut = |s: &str| -> String {
        let mut st = i.saturating_sub(120);
        while !s.is_char_boundary(st) {
            st -= 1;
        }
        let mut en = (i + 200).min(s.len());
        while !s.is_char_boundary(en) {
            en += 1;
        }
        s[st..en].to_string()
    };
    (cut(a), cut(b))
}

pub fn cmd(args: &[String]) -> i32 {
    let inp: Value = serde_json::from_reader(std::fs::File::open(&args[0]).expect("in file")).expect("json");
    let mut w = BufWriter::new(std::fs::File::create(&args[1]).expect("out file"));
    crate::install_panic_hook();
    let mut ndetail = inp["detail"].as_u64().unwrap_or(20);
    let texts = inp["texts"].as_array().cloned().unwrap_or_default();
    let mut loaded: Vec<Loaded> = vec![];
    for (i, t) in texts.iter().enumerate() {
        writeln!(w, "{}", json!({"e":"begin","i":i})).unwrap();
        w.flush().unwrap();
        let l = if t["skip"].as_bool() == Some(true) {
            Loaded::Abort
        } else {
            load(t["cfg"].as_str().unwrap_or(""), &t["files"])
        };
        let line = match &l {
            Loaded::Abort => json!({"e":"text","i":i,"status":"abort","msg":"the parser killed the process (stack overflow / abort)"}),
            Loaded::Ok(fp) => json!({"e":"text","i":i,"status":"ok","msg":"","mapped":fp.mapped}),
            Loaded::Err(m) => json!({"e":"text","i":i,"status":"err","msg":m}),
            Loaded::Panic(m) => json!({"e":"text","i":i,"status":"panic","msg":m}),
        };
        writeln!(w, "{line}").unwrap();
        loaded.push(l);
    }
    for p in inp["pairs"].as_array().cloned().unwrap_or_default() {
        let ia = p[0].as_u64().unwrap_or(0) as usize;
        let ib = p[1].as_u64().unwrap_or(0) as usize;
        let st = |l: &Loaded| match l {
            Loaded::Ok(_) => "ok",
            Loaded::Err(_) => "err",
            Loaded::Panic(_) => "panic",
            Loaded::Abort => "abort",
        };
        let mut diff: Vec<String> = vec![];
        let mut detail = Map::new();
        if let (Loaded::Ok(fa), Loaded::Ok(fb)) = (&loaded[ia], &loaded[ib]) {
            for (k, va) in fa.fields.iter() {
                let vb = fb.fields.get(k).cloned().unwrap_or_default();
                if *va != vb {
                    diff.push(k.clone());
                    if ndetail > 0 {
                        let (x, y) = first_diff(va, &vb);
                        detail.insert(k.clone(), json!([x, y]));
                    }
                }
            }
        } else if st(&loaded[ia]) != st(&loaded[ib]) {
            diff.push("accepted".to_string());
            if ndetail > 0 {
                let m = |l: &Loaded| match l {
                    Loaded::Ok(_) => "accepted".to_string(),
                    Loaded::Err(m) => format!("rejected: {m}"),
                    Loaded::Panic(m) => format!("panic: {m}"),
                    Loaded::Abort => "the parser killed the process (stack overflow / abort)".to_string(),
                };
                detail.insert("accepted".to_string(), json!([m(&loaded[ia]), m(&loaded[ib])]));
            }
        }
        if !diff.is_empty() && ndetail > 0 {
            ndetail -= 1;
        }
        writeln!(
            w,
            "{}",
            json!({"e":"pair","id":p[2],"a":ia,"b":ib,"sa":st(&loaded[ia]),"sb":st(&loaded[ib]),
                   "diff":diff,"detail":detail})
        )
        .unwrap();
    }
    writeln!(w, "{}", json!({"e":"end"})).unwrap();
    w.flush().unwrap();
    0
}
