------------------------------ MODULE CfgJudge ------------------------------
(* Evaluates CfgOutcome!Allowed on every probe record of the file named by the environment
   variable TRACE (one JSON object per line) and prints the ids of the records it rejects. *)
EXTENDS CfgOutcome, Json, IOUtils, TLC
Rec == ndJsonDeserialize(IOEnv.TRACE)
VARIABLE l
Init == l = 1 /\ Len(Rec) >= 1
Next == \E c \in {2 * l, 2 * l + 1} : c <= Len(Rec) /\ l' = c
Judge == Allowed(Rec[l]) \/ PrintT(<<"REJECT", ToJson([id |-> Rec[l].id])>>)
AllVisited == TLCGet("distinct") = Len(Rec)
=============================================================================
