---------------------------------- MODULE P_C20 ----------------------------------
(***************************************************************************)
(* L2 for C20: zippychord leaves exactly the expansion on screen.          *)
(* Abstract text-buffer model + expectation, written from the property     *)
(* statement and docs/config.adoc (section Zippychord), NOT from           *)
(* zippychord.rs: there are no erase counters here; the expected text is   *)
(* defined on the history of key events that reached the zippychord stage. *)
(*                                                                         *)
(* Instance assumption: the keyboard layout is the identity (every key of  *)
(* the alphabet maps to itself), so key events reach the zippychord stage  *)
(* in arrival order, one per tick ("zippychord behaves on outputted        *)
(* keycodes": its deadlines are counted at that stage).                     *)
(*                                                                         *)
(* params p (text level, from the dictionary description):                 *)
(*   nodes : Seq([chain : Seq(Seq(code)), out : Seq([c, sh, ag])])  lines   *)
(*           of the dictionary: chord, follow chords..., expansion          *)
(*   D (on-first-press-chord-deadline), W (idle-reactivate-time),           *)
(*   ss \in {"none","add","full"}, punct : Seq([c, sh, ag]),                *)
(*   lsft, rsft, ralt, bspc, spc : codes, chars : Seq(code) (alphabet),     *)
(*   fwin : follow-ups are only required to work when the pause since the   *)
(*          last key event is < fwin ticks (DESIGN C07: the 10 000-tick     *)
(*          state reset; judged by C07, not here), qcap : cap of `quiet`    *)
(*                                                                         *)
(* ACTUAL text: OS events are applied to `buf`: a character key down        *)
(* appends the character (upper case iff a shift is down at the OS at that  *)
(* moment, altgr likewise), backspace deletes the last character (`neg`     *)
(* counts deletions below the last committed point), a press of a key that  *)
(* is already down changes nothing (Obs.tla convention).                     *)
(*                                                                         *)
(* EXPECTED text `exp` (elements [c, sh, ag, any]; `any`: either case):      *)
(*  - a key that does not complete a chord is typed literally;              *)
(*  - sharp zone ("pressed together within the deadline"): zippy is          *)
(*    certainly enabled (start; or right after a cleanly completed chord    *)
(*    was released; or all keys up and no key event for more than W ticks), *)
(*    since the hold began only presses were processed (no release), every  *)
(*    intermediate key set could still become a chord, and the press is     *)
(*    processed less than D ticks after the first press of the attempt /    *)
(*    after the latest activation in the same hold (the deadline restarts   *)
(*    on activation).  Then a press that makes the held set equal to a       *)
(*    chord's key set MUST activate it: exp = text before the first key of  *)
(*    the attempt ++ expansion (++ space if smart space applies); a longer  *)
(*    chord in the same hold replaces the shorter expansion; a follow-up     *)
(*    chord replaces the antecedent's expansion (and everything typed for    *)
(*    it; a follow-up is REQUIRED to work only after "releasing all keys",   *)
(*    in the same hold as its antecedent it is optional).  More than D ticks *)
(*    after the first press without activation: zippy is disabled, the       *)
(*    presses of that hold are literal; after the first release in such a    *)
(*    hold the documentation does not say when zippy is enabled again (soft) *)
(*    until the keyboard was quiet for more than W ticks.                    *)
(*  - soft zone (docs silent: press exactly D ticks after the anchor, press *)
(*    after a release inside the same hold, extra keys held, a key that can *)
(*    not lead to a chord was pressed, chord held beyond the deadline, ...): *)
(*    both outcomes are accepted but never a garbled text: the text after   *)
(*    the press must be the literal one or `base ++ expansion` for a chord  *)
(*    whose keys are all down and include the pressed key, where base is the*)
(*    text before the earliest of those keys (or before the antecedent).     *)
(*    The monitor reads which one happened and continues from there.         *)
(*  - with a shift held at activation the first character of the expansion  *)
(*    may be upper or lower case (docs silent; the repository's tests call   *)
(*    it "capitalize"); the same holds for an expansion that continues (same *)
(*    first element) the preceding expansion made with a shift held;         *)
(*    everything else is exact.                                              *)
(*  - when the literal text and an expansion coincide the monitor cannot     *)
(*    tell what happened and is soft for the rest of the hold.               *)
(*  - smart space "full": a punctuation key right after an activation that   *)
(*    added a space deletes that space.                                      *)
(* CHECKS: T1 at quiescent points (no pending input, no character key held): *)
(* actual text = expected text, T2 nothing erased beyond it; T3 whenever no  *)
(* input is pending: shifts/altgr down at the OS = those the user holds; at  *)
(* quiescent points no other key is down; T4 soft zone: never garbled.       *)
(***************************************************************************)
EXTENDS Obs

Mods(p) == {p.lsft, p.rsft, p.ralt}
Shifts(p) == {p.lsft, p.rsft}
Alphabet(p) == SeqToSet(p.chars) \cup Mods(p)

\* ---- dictionary, text level ---------------------------------------------------------
Ch(p, i) == [j \in 1..Len(p.nodes[i].chain) |-> SeqToSet(p.nodes[i].chain[j])]
Chains(p) == UNION {{SubSeq(Ch(p, i), 1, j) : j \in 1..Len(p.nodes[i].chain)} : i \in DOMAIN p.nodes}
OutOf(p, c) == LET I == {i \in DOMAIN p.nodes : Ch(p, i) = c} IN
               IF I = {} THEN <<>> ELSE p.nodes[CHOOSE i \in I : TRUE].out
HasFollow(p, c) == \E d \in Chains(p) : Len(d) > Len(c) /\ SubSeq(d, 1, Len(c)) = c
Children(p, ctx) == {c \in Chains(p) : Len(c) = Len(ctx) + 1 /\ SubSeq(c, 1, Len(ctx)) = ctx}
KeysOf(c) == c[Len(c)]

\* ---- text elements --------------------------------------------------------------------
Lit(p, c, sh, ag) == [c |-> c, sh |-> sh /\ c # p.spc, ag |-> ag, any |-> FALSE]
ExpOut(p, out, shiftHeld) ==
  [i \in 1..Len(out) |-> [c |-> out[i].c, sh |-> out[i].sh /\ out[i].c # p.spc, ag |-> out[i].ag,
                          any |-> (i = 1 /\ shiftHeld)]]
SmartSpace(p, out) ==
  IF p.ss # "none" /\ out # <<>> /\ out[Len(out)].c \notin {p.spc, p.bspc}
  THEN <<Lit(p, p.spc, FALSE, FALSE)>> ELSE <<>>
ChMatch(a, e) == a.c = e.c /\ a.ag = e.ag /\ (e.any \/ a.sh = e.sh)
TextMatch(buf, exp) == Len(buf) = Len(exp) /\ \A i \in 1..Len(buf) : ChMatch(buf[i], exp[i])
DropLast(s) == IF s = <<>> THEN s ELSE SubSeq(s, 1, Len(s) - 1)
Shortest(T) == CHOOSE t \in T : \A u \in T : Len(t) <= Len(u)

\* Diagnosis attached to a rejection (does not influence acceptance): features of the hold(s) since the last
\* successful check.  fa: activations in the hold; fo: expansion of the latest one; fp: 1 = an activation shared a
\* non-empty prefix with the expansion it superseded, 2 = a further activation followed; fs: a shift was held at
\* such a supersede; fd: the OS received a press of a character key that was already down; fu: a punctuation key
\* deleted a smart space; fc: while a follow-up context was pending a key was pressed that belongs to a follow-up
\* chord of more than one key but to no top-level chord; fh: a follow-up chord was completed in the same hold as its
\* antecedent.  (The classes other than key-already-down name defects repaired in /repo by 8ecf8bd c2d0bef b962802
\* 5894b0a 849a96f: they are kept as a diagnosis of what a rejection looks like, none of them is a known finding.)
\* fx: a press of a character key that is already down reached the OS while the hold was in the sharp zone (every
\* held key was pressed while zippychord was certainly enabled: it knows them) - unlike fd never a known finding.
\* fe: a top-level chord with an empty expansion (the prefix of a line whose first chord has no line of its own) was
\* completed while the follow-up context of another chord was pending.
Class(m, rule) ==
  IF m.fx THEN " class=held-key-not-retyped"
  ELSE IF m.fe THEN " class=empty-prefix-chord-after-pending-followups"
  ELSE IF m.fd THEN " class=key-already-down"
  ELSE IF m.fh THEN " class=followup-in-same-hold"
  ELSE IF m.fc THEN " class=followup-first-key-in-no-top-level-chord"
  ELSE IF (rule = "T4" /\ m.fp >= 1) \/ m.fp = 2 THEN " class=supersede-after-prefix-reuse"
  ELSE IF m.fs THEN " class=shift-prefix-reuse"
  ELSE IF m.fq THEN " class=punctuation-key-is-chord-key"
  ELSE IF m.fu THEN " class=punctuation"
  ELSE " class=none"

MonInit(p) ==
  [p |-> p, pend |-> <<>>, held |-> <<>>, um |-> {}, os |-> {}, buf |-> <<>>, neg |-> 0, exp |-> <<>>,
   zs |-> "on", ph |-> "S", good |-> FALSE, el |-> 0, quiet |-> p.qcap,
   ctx |-> <<>>, ctxSure |-> TRUE, ctxBase |-> <<>>, last |-> "none", sp |-> FALSE, cn |-> FALSE, ck |-> FALSE,
   fa |-> 0, fp |-> 0, fs |-> FALSE, fd |-> FALSE, fu |-> FALSE, fc |-> FALSE, fh |-> FALSE, fe |-> FALSE, fq |-> FALSE, fx |-> FALSE, dn |-> FALSE, sa |-> FALSE, fo |-> <<>>, err |-> ""]

\* ---- the actual text: OS events applied to the buffer ---------------------------------------
RECURSIVE Apply(_, _)
Apply(m, out) ==
  IF out = <<>> \/ m.err # "" THEN m
  ELSE
    LET e == Head(out)
        p == m.p
    IN IF e[1] = "d"
       THEN IF e[2] \in m.os THEN Apply(IF e[2] \in Mods(p) THEN m
                                        ELSE [m EXCEPT !.fd = TRUE, !.dn = TRUE], Tail(out))
            ELSE LET m1 == [m EXCEPT !.os = @ \cup {e[2]}] IN
                 IF e[2] = p.bspc
                 THEN Apply(IF m1.buf = <<>> THEN [m1 EXCEPT !.neg = @ + 1] ELSE [m1 EXCEPT !.buf = DropLast(@)], Tail(out))
                 ELSE IF e[2] \in Mods(p) THEN Apply(m1, Tail(out))
                 ELSE Apply([m1 EXCEPT !.buf = Append(@, [c |-> e[2],
                                                          sh |-> (m.os \cap Shifts(p) # {}) /\ e[2] # p.spc,
                                                          ag |-> p.ralt \in m.os])], Tail(out))
       ELSE IF e[1] = "u" THEN Apply([m EXCEPT !.os = @ \ {e[2]}], Tail(out))
       ELSE Fail(m, "C20: OS event of an unexpected kind")

\* ---- inputs -----------------------------------------------------------------------------------
MonIn(m, r) ==
  IF m.err # "" THEN m
  ELSE IF r.e \notin {"d", "u"} \/ r.c \notin Alphabet(m.p) THEN Fail(m, "C20: input outside the instance alphabet")
  ELSE Apply([m EXCEPT !.pend = Append(@, [e |-> r.e, c |-> r.c])], r.out)

\* ---- a character key press reaches the zippychord stage ---------------------------------------
HeldKeys(m) == {m.held[i].k : i \in DOMAIN m.held}
SnapOf(m, k) == m.held[CHOOSE i \in DOMAIN m.held : m.held[i].k = k].t

PressChar(m, k) ==
  LET p == m.p
      first == m.held = <<>>
      shiftHeld == m.um \cap Shifts(p) # {}
      agHeld == p.ralt \in m.um
      lit == Lit(p, k, shiftHeld, agHeld)
      \* phase of the hold at this press: S sharp, M soft, X disabled by the deadline
      ph0 == IF first THEN (IF m.zs = "on" \/ m.quiet >= p.W + 1 THEN "S" ELSE "M")
             ELSE IF m.ph = "R" THEN "M"
             ELSE IF m.ph = "X" /\ m.quiet >= p.W THEN "M"
             ELSE m.ph
      e == IF first THEN 0 ELSE m.el
      ph1 == IF ph0 = "S" /\ e > p.D THEN "X" ELSE ph0
      boundary == ph1 = "S" /\ e = p.D
      \* a follow-up is only REQUIRED to work after its antecedent was released ("releasing all keys", docs)
      ctxOk == m.ctxSure /\ m.quiet < p.fwin /\ ~m.cn
      S == HeldKeys(m) \cup {k}
      top == Children(p, <<>>)
      kids == IF m.ctx = <<>> THEN {} ELSE Children(p, m.ctx)
      F == {c \in kids : KeysOf(c) = S}
      T == {c \in top : KeysOf(c) = S}
      partialTop == \E c \in top : S \subseteq KeysOf(c)
      partialCtx == \E c \in kids : S \subseteq KeysOf(c) /\ S # KeysOf(c)
      \* smart space: punctuation right after an activation that added a space deletes it
      isPunct == m.sp /\ \E i \in DOMAIN p.punct : p.punct[i] = [c |-> k, sh |-> shiftHeld, ag |-> agHeld]
      spSure == IF first THEN m.zs = "on" /\ m.quiet < p.fwin ELSE ph1 = "S" /\ ~boundary
      pres == IF ~isPunct THEN {m.exp} ELSE IF spSure THEN {DropLast(m.exp)} ELSE {m.exp, DropLast(m.exp)}
      \* the case of the first character is free when a shift is held, and when the expansion continues (same first
      \* element) the expansion of the preceding activation that was made with a shift held
      AnyFirst(o) == shiftHeld \/ (m.sa /\ m.fo # <<>> /\ o # <<>> /\ m.fo[1] = o[1])
      \* candidates
      TopBase(c, pre) == Shortest({SnapOf(m, h) : h \in KeysOf(c) \cap HeldKeys(m)} \cup {pre})
      Act(c, base, pre) ==
        LET o == OutOf(p, c) IN
        [t |-> IF o = <<>> THEN Append(pre, lit) ELSE base \o ExpOut(p, o, AnyFirst(o)) \o SmartSpace(p, o),
         kind |-> "act", c |-> c, base |-> IF o = <<>> /\ Len(c) > 1 THEN m.ctxBase ELSE base, pre |-> pre,
         spc |-> p.ss = "full" /\ SmartSpace(p, o) # <<>>]
      LitC(pre) == [t |-> Append(pre, lit), kind |-> "lit", c |-> <<>>, base |-> <<>>, pre |-> pre, spc |-> FALSE]
      Sharp(pre) ==
        IF F # {} /\ ctxOk THEN {Act(c, m.ctxBase, pre) : c \in F} \cup {Act(c, TopBase(c, pre), pre) : c \in T}
        ELSE IF F # {} THEN {Act(c, m.ctxBase, pre) : c \in F}
                            \cup (IF T # {} THEN {Act(c, TopBase(c, pre), pre) : c \in T} ELSE {LitC(pre)})
        ELSE IF T # {} THEN {Act(c, TopBase(c, pre), pre) : c \in T}
        ELSE {LitC(pre)}
      softKids == {c \in kids : k \in KeysOf(c) /\ KeysOf(c) \subseteq S}
      softTop == {c \in top : k \in KeysOf(c) /\ KeysOf(c) \subseteq S}
      Soft(pre) == {LitC(pre)} \cup {Act(c, m.ctxBase, pre) : c \in softKids}
                   \cup {Act(c, TopBase(c, pre), pre) : c \in softTop}
      cands == UNION {(CASE ph1 = "X" -> {LitC(pre)}
                         [] ph1 = "S" /\ ~boundary -> Sharp(pre)
                         [] OTHER -> Soft(pre)) : pre \in pres}
      sharpWantsAct == \E pre \in pres : \E c \in Sharp(pre) : c.kind = "act"
      \* resolution: a single candidate is taken without looking; otherwise the buffer decides
      matching == IF Cardinality(cands) = 1 THEN cands ELSE {c \in cands : TextMatch(m.buf, c.t)}
      acts == {c \in matching : c.kind = "act"}
      r == IF acts # {} THEN CHOOSE c \in acts : TRUE ELSE CHOOSE c \in matching : TRUE
      amb == Cardinality({c.c : c \in acts}) > 1
      \* the literal text and an expansion coincide: what zippychord did cannot be told from the text
      ambLit == acts # {} /\ \E c \in matching : c.kind = "lit"
      \* the punctuation key that deletes a smart space is itself a key of some chord of the dictionary and is typed
      \* literally (as the possible beginning of that chord); decided by the configuration and the history, not by what
      \* the garbled text looks like.  A punctuation key that COMPLETES a (follow-up) chord is not this situation.
      punctChordKey == isPunct /\ \E c \in Chains(p) : k \in KeysOf(c)
      sharpDup == m.dn /\ ph1 = "S" /\ ~boundary
      share(c) == LET o == OutOf(p, c) IN (m.fa > 0 \/ Len(c) > 1) /\ m.fo # <<>> /\ o # <<>> /\ m.fo[1] = o[1]
      sameHold(c) == m.cn /\ Len(c) > 1
  IN
  IF matching = {}
  THEN Fail(m, "C20 T4: text after a key press is neither the literal one nor base ++ expansion (garbled)"
                \o Class([m EXCEPT !.fu = @ \/ isPunct,
                                    !.fs = @ \/ (shiftHeld /\ \E c \in cands : c.kind = "act" /\ share(c.c)),
                                    !.fh = @ \/ (\E c \in cands : c.kind = "act" /\ sameHold(c.c)),
                                    !.fx = @ \/ sharpDup], "T4"))
  ELSE IF r.kind = "act"
  THEN [m EXCEPT !.exp = r.t, !.el = 0, !.last = "act", !.quiet = 0, !.sp = r.spc,
                 !.ctx = IF HasFollow(p, r.c) THEN r.c ELSE <<>>,
                 !.ctxSure = ~amb /\ ~ambLit, !.ctxBase = IF HasFollow(p, r.c) THEN r.base ELSE <<>>,
                 !.held = Append([i \in DOMAIN m.held |-> [m.held[i] EXCEPT !.t = IF Len(@) > Len(r.base) THEN r.base ELSE @]],
                                 [k |-> k, t |-> IF OutOf(p, r.c) = <<>> THEN r.pre ELSE r.base]),
                 !.ph = IF ambLit THEN "M" ELSE ph1, !.good = FALSE, !.cn = TRUE, !.ck = FALSE,
                 !.fa = OMin(@ + 1, 3), !.fo = OutOf(p, r.c), !.fu = @ \/ isPunct,
                 !.fp = IF @ >= 1 THEN 2 ELSE IF share(r.c) THEN 1 ELSE 0,
                 !.fs = @ \/ (share(r.c) /\ shiftHeld), !.fh = @ \/ sameHold(r.c), !.sa = @ \/ shiftHeld, !.fx = @ \/ sharpDup,
                 !.fe = @ \/ (OutOf(p, r.c) = <<>> /\ Len(r.c) = 1 /\ m.ctx # <<>>)]
  ELSE [m EXCEPT !.exp = r.t, !.el = IF first THEN 0 ELSE @, !.last = "lit", !.quiet = 0, !.sp = FALSE,
                 \* a key that cannot continue a follow-up chord ends the pending context - certainly so only in the
                 \* sharp zone (with extra keys held etc. zippychord may see another key set: the context becomes unsure)
                 !.ctx = IF m.ctx # <<>> /\ ~partialCtx /\ ph1 = "S" THEN <<>> ELSE @,
                 !.ctxSure = IF m.ctx # <<>> /\ ~partialCtx THEN ph1 = "S" ELSE @,
                 !.ctxBase = IF m.ctx # <<>> /\ ~partialCtx /\ ph1 = "S" THEN <<>> ELSE @,
                 \* ... and is over for certain once all keys are released (zippychord clears its history then)
                 !.ck = IF m.ctx # <<>> /\ ~partialCtx /\ ph1 # "S" THEN TRUE ELSE @,
                 !.held = Append(@, [k |-> k, t |-> r.pre]),
                 !.ph = IF ph1 = "S"
                        THEN (IF boundary /\ sharpWantsAct THEN "X"
                              ELSE IF partialTop \/ (partialCtx /\ ctxOk) THEN "S" ELSE "M")
                        ELSE ph1,
                 \* fq: the punctuation key that deleted a smart space is itself a key of a chord (punctChordKey)
                 !.good = FALSE, !.fx = @ \/ sharpDup, !.fu = @ \/ isPunct, !.fq = @ \/ punctChordKey, !.fc = @ \/ (m.ctx # <<>> /\ partialCtx /\ ~partialTop)]

ReleaseChar(m, k) ==
  LET p == m.p
      held1 == SelectSeq(m.held, LAMBDA h : h.k # k)
      \* after a release in a hold that ran into the deadline the documentation does not say when zippy is enabled again
      ph1 == IF m.ph = "S" THEN "R" ELSE IF m.ph = "X" THEN "M" ELSE m.ph
      good1 == IF m.ph = "S" THEN (m.last = "act" /\ m.el < p.D) ELSE m.good
      m1 == [m EXCEPT !.held = held1, !.ph = ph1, !.good = good1, !.quiet = 0]
  IN IF held1 # <<>> THEN m1
     ELSE LET on == ph1 = "R" /\ good1 IN
          \* a follow-up context that was not (re)established by an activation in this hold is over
          IF m.cn /\ ~m.ck
          THEN [m1 EXCEPT !.zs = IF on THEN "on" ELSE "maybe", !.ctxSure = IF on \/ m.ctx = <<>> THEN @ ELSE FALSE,
                          !.ph = "S", !.good = FALSE, !.last = "none", !.cn = FALSE, !.sa = IF m.ctx # <<>> THEN @ ELSE FALSE]
          ELSE [m1 EXCEPT !.zs = IF on THEN "on" ELSE "maybe", !.ctx = <<>>, !.ctxSure = TRUE, !.ctxBase = <<>>,
                          !.ph = "S", !.good = FALSE, !.last = "none", !.cn = FALSE, !.ck = FALSE, !.sa = FALSE]

Process(m, ev) ==
  LET p == m.p IN
  IF ev.c \in Mods(p)
  THEN [m EXCEPT !.um = IF ev.e = "d" THEN @ \cup {ev.c} ELSE @ \ {ev.c}]
  ELSE IF ev.e = "d"
  THEN IF ev.c \in HeldKeys(m) THEN Fail(m, "C20: physically inconsistent input (press of a held key)")
       ELSE PressChar(m, ev.c)
  ELSE ReleaseChar(m, ev.c)

\* ---- checks at the end of a tick -----------------------------------------------------------------
EndChecks(m) ==
  LET p == m.p IN
  IF m.err # "" \/ m.pend # <<>> THEN m
  ELSE IF m.os \cap Mods(p) # m.um
  THEN Fail(m, "C20 T3: shift/altgr down at the OS differ from the ones the user holds")
  ELSE IF m.held # <<>> THEN m
  ELSE IF m.neg > 0 THEN Fail(m, "C20 T2: more characters erased than were typed" \o Class(m, "T2"))
  ELSE IF ~TextMatch(m.buf, m.exp)
  THEN Fail(m, "C20 T1: text on screen differs from the expected text (expansion / literal typing)" \o Class(m, "T1"))
  ELSE IF m.os # m.um THEN Fail(m, "C20 T3: a key is still down at the OS although all keys are released")
  ELSE \* commit: forget the text no later rule can refer to
       LET m0 == [m EXCEPT !.fa = 0, !.fp = 0, !.fs = FALSE, !.fd = FALSE, !.fu = FALSE, !.fc = FALSE, !.fh = FALSE, !.fx = FALSE, !.fq = FALSE, !.fe = IF m.ctx = <<>> THEN FALSE ELSE @,
                            !.fo = IF m.ctx = <<>> THEN <<>> ELSE @] IN
       \* (a pending follow-up context keeps the antecedent's expansion, a pending smart space keeps the space)
       LET n == IF m.ctx # <<>> THEN Len(m.ctxBase) ELSE IF m.sp THEN OMax(Len(m.exp) - 1, 0) ELSE Len(m.exp) IN
       [m0 EXCEPT !.buf = SubSeq(@, n + 1, Len(@)), !.exp = SubSeq(@, n + 1, Len(@)), !.ctxBase = <<>>]

MonTick(m, out, idle, cb) ==
  IF m.err # "" THEN m
  ELSE
    LET p == m.p
        m1 == Apply([m EXCEPT !.dn = FALSE], out)
        \* identity layout: exactly one queued key event reaches the zippychord stage per tick
        m2 == IF m1.err # "" \/ m1.pend = <<>> THEN m1
              ELSE Process([m1 EXCEPT !.pend = Tail(@)], Head(m1.pend))
        m3 == IF m2.err # "" THEN m2
              ELSE [m2 EXCEPT !.el = OMin(@ + 1, p.D + 1), !.quiet = OMin(@ + 1, p.qcap)]
    IN EndChecks(m3)

RECURSIVE MonSilent(_, _, _, _)
MonSilent(m, n, idle, cb) ==
  IF n = 0 \/ m.err # "" THEN m
  ELSE IF m.pend = <<>>
  THEN EndChecks([m EXCEPT !.el = OMin(@ + n, m.p.D + 1), !.quiet = OMin(@ + n, m.p.qcap)])
  ELSE MonSilent(MonTick(m, <<>>, idle, cb), n - 1, idle, cb)
=============================================================================
