---------------------------------- MODULE SeqEnv ----------------------------------
(***************************************************************************)
(* L3 environment for C12 part 2: the *typing histories* the property        *)
(* quantifies over, for one defseq table (SeqTab shape):                      *)
(*   - each defined sequence typed completely, in every permitted order of    *)
(*     its O-(..) groups (plain keys tapped; S-(..): modifiers held around    *)
(*     the keys; O-(..): all keys down, then all up);                          *)
(*   - every proper beginning of a sequence - at item boundaries and inside   *)
(*     S-(..) / O-(..) items - followed by a key that occurs in no sequence;   *)
(*   - a pause of w ticks (w around the timeout) at every item boundary,       *)
(*     then the rest of the sequence;                                          *)
(*   - a leader (the same, or a second one with another mode) at every item     *)
(*     boundary, then the rest;                                                 *)
(*   - the complete sequence / an abandoned beginning with an OS key repeat       *)
(*     after every key press.                                                     *)
(* A history is a harness script: <<"d", code>>, <<"u", code>>, <<"t", n>>.     *)
(* TLC enumerates SeScripts(..) per table and prints them; they are run on    *)
(* the real code and the recorded traces are judged by the monitor P_C12.      *)
(***************************************************************************)
EXTENDS Naturals, Sequences, FiniteSets, TLC, SeqTab

SeD(c) == <<"d", c>>
SeU(c) == <<"u", c>>
SeT(n) == <<"t", n>>
SeRev(s) == [i \in 1..Len(s) |-> s[Len(s) + 1 - i]]
SeTap(c) == <<SeD(c), SeT(1), SeU(c), SeT(1)>>
RECURSIVE SeTaps(_)
SeTaps(ks) == IF ks = <<>> THEN <<>> ELSE SeTap(Head(ks)) \o SeTaps(Tail(ks))
RECURSIVE SeDowns(_)
SeDowns(ks) == IF ks = <<>> THEN <<>> ELSE <<SeD(Head(ks)), SeT(1)>> \o SeDowns(Tail(ks))
RECURSIVE SeUps(_)
SeUps(ks) == IF ks = <<>> THEN <<>> ELSE <<SeU(Head(ks)), SeT(1)>> \o SeUps(Tail(ks))

\* the ways of typing one item completely
SeItem(it) ==
  CASE it.t = "k" -> {SeTap(it.c)}
    [] it.t = "m" -> {SeDowns(it.mods) \o SeTaps(it.ks) \o SeUps(SeRev(it.mods))}
    [] it.t = "o" -> {SeDowns(p) \o SeUps(p) : p \in StPerms(StSetOf(it.ks))}

\* the ways of beginning an item and then typing the foreign key f: the item is abandoned
SeItemBroken(it, f) ==
  CASE it.t = "k" -> {}
    [] it.t = "m" -> {SeDowns(it.mods) \o SeTaps(SubSeq(it.ks, 1, j)) \o SeTap(f) \o SeUps(SeRev(it.mods)) :
                       j \in 0..(Len(it.ks) - 1)}
    [] it.t = "o" -> UNION {{SeDowns(SubSeq(p, 1, j)) \o SeTap(f) \o SeUps(SubSeq(p, 1, j)) : j \in 1..(Len(p) - 1)} :
                            p \in StPerms(StSetOf(it.ks))}

RECURSIVE SeDef(_)
\* the ways of typing a list of items completely
SeDef(items) == IF items = <<>> THEN {<<>>} ELSE {h \o r : h \in SeItem(Head(items)), r \in SeDef(Tail(items))}

SeOne(S) == CHOOSE x \in S : TRUE

\* all histories for one definition; lead = the steps that enter the mode, f = a key of no sequence,
\* waits = the pauses tried at item boundaries, tail = ticks at the end
\* an OS repeat of every key one tick after it went down (the key is held long enough to auto-repeat)
RECURSIVE SeWithRepeats(_)
SeWithRepeats(sc) ==
  IF sc = <<>> THEN <<>>
  ELSE IF Head(sc)[1] = "d" THEN <<Head(sc), SeT(1), <<"r", Head(sc)[2]>>>> \o SeWithRepeats(Tail(sc))
  ELSE <<Head(sc)>> \o SeWithRepeats(Tail(sc))

\* re = the steps of the leader pressed again in the middle (the same leader, or another one with its own mode)
SeDefScripts(items, lead, re, f, waits, tail) ==
  LET n == Len(items)
      full == {lead \o b \o <<SeT(tail)>> : b \in SeDef(items)}
      dead == UNION {{lead \o b \o SeTap(f) \o <<SeT(tail)>> : b \in SeDef(SubSeq(items, 1, k))} : k \in 0..(n - 1)}
      broken == UNION {{lead \o b \o x \o <<SeT(tail)>> :
                          b \in {SeOne(SeDef(SubSeq(items, 1, k)))}, x \in SeItemBroken(items[k + 1], f)} : k \in 0..(n - 1)}
      paused == UNION {{lead \o SeOne(SeDef(SubSeq(items, 1, k))) \o <<SeT(w)>> \o SeOne(SeDef(SubSeq(items, k + 1, n)))
                          \o <<SeT(tail)>> : w \in waits} : k \in 0..(n - 1)}
      \* the leader again in the middle of the sequence (ignored, or a restart with hidden-suppressed)
      again == IF re = <<>> THEN {}
               ELSE {lead \o SeOne(SeDef(SubSeq(items, 1, k))) \o re \o SeOne(SeDef(SubSeq(items, k + 1, n)))
                       \o <<SeT(tail)>> : k \in 1..(n - 1)}
      \* held keys auto-repeat: the complete sequence and one abandoned beginning, with an OS repeat after every press
      held == {lead \o SeWithRepeats(SeOne(SeDef(items))) \o <<SeT(tail)>>,
               lead \o SeWithRepeats(SeOne(SeDef(SubSeq(items, 1, n - 1))) \o SeTap(f)) \o <<SeT(tail)>>}
  IN full \cup dead \cup broken \cup paused \cup again \cup held

SeScripts(table, lead, re, f, waits, tail) ==
  UNION {SeDefScripts(table[i], lead, re, f, waits, tail) : i \in DOMAIN table}
=============================================================================
