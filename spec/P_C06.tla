---------------------------------- MODULE P_C06 ----------------------------------
(***************************************************************************)
(* L2 monitor for C06: a one-shot applies to exactly the next key, or       *)
(* expires; it never lingers.  From the statement and docs/config.adoc.     *)
(*                                                                         *)
(* params p: [oskeys : Seq([c, qs : Seq(code)]),  one-shot keys and the    *)
(*              OS keys each holds (key / output chord)                     *)
(*            variant \in {"press","release","press-pcancel","release-pcancel"}, *)
(*            T, red, others : Seq([c, o])]                                 *)
(* (layer one-shots are observed through P_C06L, a probe-key variant.)      *)
(*                                                                         *)
(* Rules                                                                    *)
(*  O2  press variants: an other key that arrives after the first other key *)
(*      press following the activation is never modified;                   *)
(*  O2' release variants: a key pressed after the first release of a key    *)
(*      pressed after the activation is never modified;                     *)
(*  O6  pcancel: a key pressed after the re-press of an active one-shot key *)
(*      is never modified  (unless a one-shot key is physically held: a     *)
(*      held one-shot key acts as the plain key, O5);                       *)
(*  O3  sharp zone: with no other input the one-shot output goes down on    *)
(*      the tick after the press and up exactly T ticks later; the next key *)
(*      is modified iff it arrives less than T ticks after the last         *)
(*      one-shot press (O2/O4);                                             *)
(*  O5  the output of a physically held one-shot key is not released: at a  *)
(*      quiescent point (idle twice in a row, nothing pending) the outputs  *)
(*      of every one-shot key that is physically held as a plain press      *)
(*      (not a cancelling re-press of the pcancel variants) are down;       *)
(*  O2m release variants: a key pressed while the one-shot is certainly     *)
(*      still active (activation began at a quiescent point; fewer than T   *)
(*      ticks between the processing of the last one-shot press and the     *)
(*      processing of this key; no key pressed after the activation has     *)
(*      been released) is output with the one-shot applied - whatever keys  *)
(*      pressed BEFORE the activation are released meanwhile;               *)
(*  O8  never active past its timeout: when the activation began at a        *)
(*      quiescent point and every one-shot key was released again before    *)
(*      any other input (a clean tap, processed before the timeout), the    *)
(*      one-shot outputs are up from tick 1 + T after the last one-shot     *)
(*      press on - whatever other keys (plain keys, macros) follow: other   *)
(*      keys end a one-shot early, they never prolong it;                   *)
(*  O7  never lingers: with no one-shot key held, every one-shot output is  *)
(*      up within a bound after the last one-shot press.                    *)
(***************************************************************************)
EXTENDS Obs

OsIdx(p, c) == LET I == {i \in DOMAIN p.oskeys : p.oskeys[i].c = c} IN
               IF I = {} THEN 0 ELSE CHOOSE i \in I : TRUE
OutOf(p, c) == LET I == {i \in DOMAIN p.others : p.others[i].c = c} IN
               IF I = {} THEN 0 - 1 ELSE p.others[CHOOSE i \in I : TRUE].o
IsOtherOut(p, o) == \E i \in DOMAIN p.others : p.others[i].o = o
AllQ(p) == UNION {SeqToSet(p.oskeys[i].qs) : i \in DOMAIN p.oskeys}
QOf(p, S) == UNION {SeqToSet(p.oskeys[i].qs) : i \in S}
IsPress(p) == p.variant \in {"press", "press-pcancel"}
IsPcancel(p) == p.variant \in {"press-pcancel", "release-pcancel"}
\* every one-shot key carries its own timeout (oskeys[i].T); the timeout in force is the one of the most recently
\* pressed one-shot key ("one-shot keys tapped in a row combine and restart the timeout"); p.T is the largest of them
KeyT(p, i) == p.oskeys[i].T
\* lagq is an upper bound on the number of inputs kanata has not processed yet; it saturates at LagCap (>= every timeout,
\* so no sharp claim is made there) and a saturated count is only trusted again when kanata reports idle (queue empty)
LagCap(p) == p.T + 2

MonInit(p) ==
  [p |-> p,
   held |-> {},          \* indices of one-shot keys physically down (by arrival)
   chain |-> {},         \* indices of one-shot keys tapped/pressed since the activation began (superset when uncertain)
   sure |-> {},          \* the one-shot keys that are certainly part of the current activation
   el |-> 0,             \* ticks since the last one-shot press arrived (capped)
   curT |-> p.T,         \* timeout of the most recently pressed one-shot key
   sharp |-> FALSE,      \* the activation chain is in the sharp zone
   gapIn |-> 0,          \* inputs arrived since the last tick
   used |-> FALSE,       \* an other key was pressed since the activation (press variants)
   afterAct |-> {},      \* other keys pressed after the activation and still down (release variants)
   maybeAct |-> {},      \* other keys that may or may not count as pressed after the current activation (see MonIn)
   ended |-> "yes",      \* "yes": the one-shot must not modify keys arriving from now on;
                         \* "no": it is active; "maybe": outside the sharp zone, unknown
   plain |-> {},         \* held one-shot keys whose current press acts as a plain key (O5)
   rsharp |-> FALSE,     \* the activation began at a quiescent point (O2m)
   rel |-> 0,            \* ticks since the (estimated) processing of the last one-shot press (O2m)
   lagq |-> 0,           \* upper bound on the number of inputs not yet processed by kanata
   tapS |-> FALSE,       \* the activation is a clean tap in the sharp zone (O8)
   fog |-> FALSE,        \* a key the monitor does not track (a macro ...) was pressed since the last quiescent point: its own
                         \* key presses and releases may end a one-shot, so nothing is REQUIRED to be modified (O2m)
   pend |-> <<>>,        \* other-key presses not output yet: [o, clean, mod]
   down |-> {}, lastIdle |-> TRUE, quiet |-> p.red + 1, err |-> ""]

MonIn(m, r) ==
  IF m.err # "" THEN m
  ELSE IF r.e \notin {"d", "u"} THEN Fail(m, "C06: input kind outside the instance")
  ELSE
    LET p == m.p
        i == OsIdx(p, r.c)
        m0 == [m EXCEPT !.quiet = 0, !.gapIn = @ + 1, !.lagq = OMin(@ + 1, LagCap(m.p))]
        inSync == m.gapIn = 0
    IN IF i # 0
       THEN IF r.e = "d"
            THEN \* a one-shot key press: starts or extends the activation (O4); a re-press of an
                 \* active key ends it in the pcancel variants (O6)
                 \* in the sharp zone a press arriving T or more ticks after the previous one-shot
                 \* press is processed on the tick the previous activation expires: a fresh activation
                 \* press variants: once another key was pressed after the activation, the one-shot is over by the time a later
                 \* one-shot press is processed (events are processed in arrival order)
                 LET over == m.ended = "yes" \/ (m.sharp /\ ~m.used /\ m.el >= m.curT) \/ (IsPress(p) /\ m.used)
                     repress == IsPcancel(p) /\ i \in m.chain /\ ~over
                     surelyExt == ~over /\ m.rsharp /\ m.ended = "no" /\ m.rel + m.lagq < m.curT
                 IN
                 IF repress
                 THEN \* outside the sharp zone the previous activation may have expired before this press is processed: then it
                      \* is a fresh activation, not a cancellation, and keys pressed earlier no longer count
                      LET certain == m.ended = "no" /\ m.sharp /\ inSync IN
                      [m0 EXCEPT !.held = @ \cup {i}, !.sharp = FALSE, !.el = 0, !.plain = @ \ {i}, !.rsharp = FALSE,
                                 !.tapS = FALSE,
                                 !.afterAct = IF certain THEN @ ELSE {},
                                 !.maybeAct = IF certain THEN @ ELSE @ \cup m.afterAct,
                                 !.sure = IF certain THEN @ ELSE {},
                                 !.ended = IF certain THEN "yes" ELSE "maybe"]
                 ELSE [m0 EXCEPT !.held = @ \cup {i}, !.plain = @ \cup {i}, !.curT = KeyT(p, i), !.tapS = FALSE,
                                 !.rel = 0 - m.lagq,
                                 !.rsharp = IF over THEN m.lastIdle /\ m.quiet > p.red /\ m.pend = <<>> /\ m.lagq = 0
                                            ELSE m.rsharp /\ m.lagq < LagCap(p),
                                 !.chain = IF over THEN {i} ELSE @ \cup {i},
                                 !.sure = IF over \/ ~surelyExt THEN {i} ELSE @ \cup {i},
                                 \* keys pressed since the activation began stay "after the activation" when a further
                                 \* one-shot key certainly extends it (their release still ends a release-variant one-shot);
                                 \* when the previous activation may have expired before this press is processed (a fresh
                                 \* activation forgets them) they become uncertain
                                 !.el = 0, !.ended = "no", !.used = FALSE,
                                 !.afterAct = IF over \/ ~surelyExt THEN {} ELSE @,
                                 !.maybeAct = IF over THEN {} ELSE IF surelyExt THEN @ ELSE @ \cup m.afterAct,
                                 !.sharp = IF over
                                           THEN m.lastIdle /\ m.quiet > p.red /\ m.pend = <<>> /\ inSync
                                           ELSE m.sharp /\ inSync]
            ELSE \* release of a one-shot key; O8: the last held one-shot key goes up in the sharp zone, before any other
                 \* input and early enough to be processed before the timeout
                 [m0 EXCEPT !.held = @ \ {i}, !.plain = @ \ {i}, !.sharp = m.sharp /\ inSync,
                            !.tapS = m.sharp /\ inSync /\ ~m.used /\ m.ended = "no" /\ (m.held \ {i}) = {}
                                     /\ i \in m.held /\ m.el >= 1 /\ m.el + 1 < m.curT]
       ELSE IF r.e = "d"
       THEN LET o == OutOf(p, r.c)
                \* must this key come out unmodified?  (decided by what had arrived before it)
                clean == m.held = {} /\ (m.ended = "yes" \/ (IsPress(p) /\ m.used))
                \* must it come out modified?  (sharp zone only)
                mod == \/ m.ended = "no" /\ ~m.used /\ m.sharp /\ inSync /\ m.el < m.curT /\ IsPress(p)
                       \/ ~IsPress(p) /\ m.ended = "no" /\ m.rsharp /\ ~m.fog /\ m.rel + m.lagq < m.curT
                m1 == [m0 EXCEPT !.used = TRUE, !.afterAct = IF m.ended = "yes" THEN @ ELSE @ \cup {r.c},
                                 !.sharp = FALSE, !.fog = @ \/ o < 0]
            IN IF o >= 0 THEN [m1 EXCEPT !.pend = Append(@, [o |-> o, clean |-> clean, mod |-> mod,
                                                            qs |-> QOf(p, m.sure)])]
               ELSE m1
       ELSE \* release of an other key
            IF ~IsPress(p) /\ r.c \in m.afterAct /\ m.ended # "yes"
            THEN [m0 EXCEPT !.ended = "yes", !.afterAct = {}, !.maybeAct = {}, !.sharp = FALSE, !.rsharp = FALSE]
            ELSE IF ~IsPress(p) /\ r.c \in m.maybeAct /\ m.ended = "no"
            THEN [m0 EXCEPT !.ended = "maybe", !.maybeAct = @ \ {r.c}, !.sharp = FALSE, !.rsharp = FALSE]
            ELSE [m0 EXCEPT !.afterAct = @ \ {r.c}, !.maybeAct = @ \ {r.c}, !.sharp = FALSE]

RECURSIVE Scan(_, _)
Scan(m, out) ==
  IF out = <<>> \/ m.err # "" THEN m
  ELSE
    LET e == Head(out)
        rest == Tail(out)
        p == m.p
    IN IF e[1] = "d"
       THEN LET m1 == [m EXCEPT !.down = @ \cup {e[2]}] IN
            IF IsOtherOut(p, e[2])
            THEN LET I == {i \in DOMAIN m.pend : m.pend[i].o = e[2]} IN
                 IF I = {} THEN Scan(m1, rest)
                 ELSE IF 1 \notin I THEN Fail(m, "C06: pressed keys output out of their original order")
                 ELSE LET pe == m.pend[1] IN
                      IF pe.clean /\ (AllQ(p) \cap m.down) # {}
                      THEN Fail(m, "C06 O2/O6: a key after the one-shot's end was modified (one-shot lingered)")
                      ELSE IF pe.mod /\ ~(pe.qs \subseteq m.down)
                      THEN Fail(m, "C06 O2: the next key was not modified by the active one-shot")
                      ELSE Scan([m1 EXCEPT !.pend = Tail(@)], rest)
            ELSE Scan(m1, rest)
       ELSE IF e[1] = "u" THEN Scan([m EXCEPT !.down = @ \ {e[2]}], rest)
       ELSE Scan(m, rest)

MonTick(m, out, idle, cb) ==
  IF m.err # "" THEN m
  ELSE
    LET p == m.p
        T == m.el + 1
        m1 == Scan(m, out)
        qsChain == QOf(p, m.chain)
        \* sharp zone, no other input: down from tick 1, up exactly at tick 1 + T (unless held)
        sharpNow == m.sharp /\ ~m.used /\ m.ended = "no" /\ m.gapIn <= 1
        m2 == IF m1.err # "" THEN m1
              ELSE IF sharpNow /\ T >= 1 /\ T < 1 + m.curT /\ ~(qsChain \subseteq m1.down)
              THEN Fail(m1, "C06 O1/O3: the one-shot output is not applied while the one-shot is active")
              ELSE IF sharpNow /\ T >= 1 + m.curT /\ m.held = {} /\ (qsChain \cap m1.down) # {}
              THEN Fail(m1, "C06 O3: the one-shot did not expire at its timeout")
              ELSE IF m.tapS /\ m.held = {} /\ T >= 1 + m.curT /\ (AllQ(p) \cap m1.down) # {}
              THEN Fail(m1, "C06 O8: the one-shot is still active after its timeout (prolonged by a following key)")
              \* idle twice in a row with no input in between: nothing is pending inside kanata
              ELSE IF m.held = {} /\ idle /\ m.lastIdle /\ m.gapIn = 0 /\ m1.pend = <<>> /\ (AllQ(p) \cap m1.down) # {}
              THEN Fail(m1, "C06 O7: a one-shot output lingers")
              ELSE IF idle /\ m1.pend # <<>>
              THEN Fail(m1, "C06: a pressed key was lost")
              ELSE IF idle /\ m.lastIdle /\ m.gapIn = 0 /\ m1.pend = <<>> /\ ~(QOf(p, m.plain) \subseteq m1.down)
              THEN Fail(m1, "C06 O5: the output of a physically held one-shot key was released")
              ELSE m1
        \* kanata idle twice in a row with no input in between and no one-shot key held: no one-shot is active
        stable == idle /\ m.lastIdle /\ m.gapIn = 0 /\ m.held = {}
        expired == T >= 1 + m.curT /\ m.held = {} /\ sharpNow
    IN [m2 EXCEPT !.el = OMin(T, p.T + 2), !.gapIn = 0, !.lastIdle = idle,
                  !.rel = OMin(m.rel + 1, p.T + 2), !.lagq = IF idle THEN 0 ELSE IF m.lagq >= LagCap(p) THEN LagCap(p) ELSE IF m.lagq > 0 THEN m.lagq - 1 ELSE 0,
                  !.rsharp = m2.rsharp /\ ~expired /\ ~stable,
                  !.fog = m2.fog /\ ~(idle /\ m.lastIdle /\ m.gapIn = 0),
                  !.ended = IF expired \/ stable THEN "yes" ELSE m2.ended,
                  !.chain = IF expired \/ stable THEN {} ELSE m2.chain,
                  !.sure = IF expired \/ stable THEN {} ELSE m2.sure,
                  !.maybeAct = IF expired \/ stable THEN {} ELSE m2.maybeAct,
                  !.quiet = IF out = <<>> THEN OMin(m2.quiet + 1, p.red + 1) ELSE 0]

RECURSIVE MonSilent(_, _, _, _)
MonSilent(m, n, idle, cb) ==
  IF n = 0 \/ m.err # "" THEN m
  ELSE IF m.el >= m.p.T + 2 /\ m.rel >= m.p.T + 2 /\ m.lagq = 0 /\ m.pend = <<>> /\ m.lastIdle = idle /\ idle
          /\ m.quiet > m.p.red /\ m.gapIn = 0 /\ ~m.fog /\ QOf(m.p, m.plain) \subseteq m.down
          /\ (m.held # {} \/ ((AllQ(m.p) \cap m.down) = {} /\ m.ended = "yes"))
  THEN m
  ELSE MonSilent(MonTick(m, <<>>, idle, cb), n - 1, idle, cb)
=============================================================================
