----------------------------- MODULE CfgPrefixes -----------------------------
(* C03: chord / modifier PREFIXES in every position that has its own prefix handling.

   The guide: a key name may carry modifier prefixes - S- C- A- M- for the left-hand shift, ctrl, alt and
   meta keys, RS- RC- RM- for the right-hand ones, RA- / AG- for the right alt - and their unicode
   spellings with a side marker (a marker in front = left, behind = right) or without one; prefixes
   combine (C-S-a); in a macro and in a defseq key list a prefix may also stand in front of a LIST:
   the modifier is held for the whole group, S-(a b).  Output chords are accepted as plain action, inside
   multi / tap-hold / tap-dance / one-shot, as macro item, in a defseq key list, in defoverrides lists,
   as argument of unmod / unshift, as defzippy output, as chord action (defchords, defchordsv2), in switch,
   through an alias or a variable; several other positions take key names only.  Every position parses
   the prefix in its own way (output chord, held-modifier bookkeeping of macro and defseq, override
   modifier sets, zippy output mods), so the requirement - CfgOutcome!Allowed: a configuration or a
   diagnostic - is enumerated over
       every prefix and every ordered PAIR of prefixes (incl. a prefix twice: "redundant", and the same
       key through two spellings)  x  every position  x  {key, group, bare prefix}.
   pre = the prefixes, outermost first; form: "key" = <pre>a, "group" = <pre>(a b), "bare" = <pre> alone
   (a prefix with nothing behind it).  One line per case; the tools only put it into the position's frame. *)
EXTENDS Naturals, Sequences, TLC, Json
Ascii == {"S-", "RS-", "C-", "RC-", "M-", "RM-", "A-", "RA-", "AG-"}
\* unicode spellings (code points written as \u escapes are resolved by the tools): one left / right pair
\* per modifier and one without a side
Uni == {"uLS", "uRS", "uLC", "uRC", "uLM", "uRM", "uLA", "uRA", "uC"}
Prefixes == Ascii \cup Uni
Pres == {<<p>> : p \in Prefixes} \cup {<<p, q>> : p \in Prefixes, q \in Prefixes}
Positions == {"action", "multi", "tap-hold-tap", "tap-hold-hold", "tap-dance", "one-shot", "macro", "macro-in-group",
              "macro-release-cancel", "defseq-first", "defseq-last", "defseq-only", "override-in", "override-out",
              "unmod", "unshift", "zippy-output", "zippy-file", "defchords-action", "defchords-key", "chordsv2-action",
              "chordsv2-key", "switch-match", "switch-action", "alias", "variable", "fork-keys", "release-key",
              "caps-word-keys", "defsrc", "deflayermap-key", "sequence-noerase"}
Forms == {"key", "group", "bare"}
VARIABLES pre, pos, form
Init == pre \in Pres /\ pos \in Positions /\ form \in Forms
Next == UNCHANGED <<pre, pos, form>>
Emit == PrintT(<<"PFX", ToJson([pre |-> pre, pos |-> pos, form |-> form])>>)
=============================================================================
