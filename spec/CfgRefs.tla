------------------------------- MODULE CfgRefs -------------------------------
(* C03: name-resolution graphs.  Variables (defvar) and aliases (defalias) are resolved by following
   references; every graph over N names - each value a constant, a direct reference, a reference inside a
   list, inside (concat ..) or inside a nested list - in the declaration order 1..N (the graph ranges over
   all functions, so every declaration order of every shape occurs), with every use site (none, in action
   position, inside a macro).  One line per (graph, use); the tools render the text.  The outcome relation
   is the one of CfgOutcome.tla: a configuration or a diagnostic, never a crash or a hang - in particular
   for reference cycles of any length reached from any earlier name. *)
EXTENDS Naturals, Sequences, TLC, Json
CONSTANT N
Names == 1..N
Kinds == {"const", "ref", "listref", "concat", "nested"}
VARIABLES g, use, done
Init == g = <<>> /\ use = 0 /\ done = FALSE
Next == \/ /\ Len(g) < N /\ ~done
           /\ \E k \in Kinds, j \in Names : g' = Append(g, [k |-> k, j |-> j])
           /\ UNCHANGED <<use, done>>
        \/ /\ Len(g) >= 1 /\ ~done
           /\ \E u \in 0..(2 * Len(g)) : use' = u
           /\ done' = TRUE /\ UNCHANGED g
Emit == done => PrintT(<<"REFS", ToJson([g |-> g, use |-> use])>>)
=============================================================================
