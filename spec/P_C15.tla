--------------------------------- MODULE P_C15 ---------------------------------
(***************************************************************************)
(* C15 - live reload is all-or-nothing (L2, written from the statement and *)
(* docs/config.adoc "Live reload", not from the code).                     *)
(*                                                                         *)
(* The property is relational, so the monitor reads three lanes that get   *)
(* the same inputs and the same file contents:                             *)
(*   A  kanata started from file 0 of `files`; reload requests are real.   *)
(*   B  the same configuration with every reload-request action replaced  *)
(*      by an action without effect: "no reload has been requested".       *)
(*   C  a freshly started instance of the content A loaded, created when A  *)
(*      reloads and fed with the same inputs from then on; compared from   *)
(*      the first idle point after the reload on (no physical key held and *)
(*      the processing loop of both A and C would block).                  *)
(* The lanes are produced by the real code (harness `reload`, trace check) *)
(* or by the detailed model (spec/Reload.tla, model check); the monitor is *)
(* the same.                                                               *)
(*                                                                         *)
(* F1  until A has reloaded successfully, A = B iteration by iteration     *)
(*     (OS events, client messages, active layer; idle/blocking whenever   *)
(*     no request is pending); no ConfigFileReload unless the              *)
(*     configuration was replaced; a replacement needs a request that has  *)
(*     not been used up by an earlier (failed) attempt and a requested     *)
(*     file that parses.                                                   *)
(* F2  a successful reload (a) happens only in an iteration after which no *)
(*     output key is down, or after one second (`sec` iterations) without  *)
(*     input while the request is pending; (b) is not postponed once no    *)
(*     output key is down; (c) sends ConfigFileReload then LayerChange     *)
(*     naming the first layer, which (d) is the active layer; (e) whatever *)
(*     was down at the OS is released within `bound` iterations; (f) with  *)
(*     no key held kanata becomes idle within `settle` iterations; (g)     *)
(*     from that idle point on A = C; (h) a request does not stay pending  *)
(*     for more than one second without input.                             *)
(* F3  lrld reloads the file in use, lrld-next / lrld-prev its cyclic       *)
(*     neighbours in command-line order, (lrld-num n) the n-th file; a      *)
(*     requested file that parses during the whole batch is applied.        *)
(*     Failed attempts are not observable, so a request of a batch may be   *)
(*     applied to the result of the previous one or to the file in use.     *)
(*     F3x names the one deviation that is explained by "the index moved    *)
(*     although the reload failed".                                         *)
(* Soft (statement silent): (lrld-num n) with n outside the list; requests  *)
(* that are still queued when another request's reload replaces the layout. *)
(*                                                                         *)
(* params = [files  : <<kind..>>  initial content kind of every file,       *)
(*           valid  : <<kind..>>  kinds whose reload can succeed: they parse   *)
(*                    and no step before the first assignment fails (a file  *)
(*                    that parses but needs xset where xset cannot be run is  *)
(*                    not valid: all-or-nothing then means nothing),          *)
(*           first  : [kind |-> name of its first deflayer],                *)
(*           req    : <<[c |-> code, k |-> "lrld"|"next"|"prev"|"num", n |-> Nat]..>>  request keys (every layer), *)
(*           idxsem : "inuse" (statement: a failed request leaves no trace)   *)
(*                    | "requested" (the index moves with every request),    *)
(*           scap   : cap of the idle-time counter (sec + 20 on traces),     *)
(*           sec    : iterations of "one idle second" (1000),               *)
(*           bound, settle : Nat]                                           *)
(* record r: [e |-> "d"|"u"|"r", c, A, B, C] | [e |-> "t", n, phys, A, B, C] | [e |-> "w", i, k, valid]            *)
(* lane: [on |-> FALSE] | [on |-> TRUE, out, idle, cb, msgs, lrr, idx, layer, repl]; C also carries run (the fresh       *)
(*       instance exists) and, while run /\ ~on, its cb                                                          *)
(***************************************************************************)
EXTENDS Obs

Tag(k) == " [content " \o k \o "]"

MonInit(p) ==
  [ err |-> "", p |-> p, files |-> p.files, base |-> 0, cbase |-> 0, pend |-> <<>>, loose |-> FALSE, okall |-> {},
    phase |-> "pre", down |-> {}, since |-> 0, quiet |-> 0, resid |-> {}, age |-> 0 ]

NFiles(m) == Len(m.files)
IsValid(m, k) == InSeq(m.p.valid, k)

\* ----- F3: index selection as documented (0-based indices) ------------------------------
Sel(q, i, n) ==
  CASE q.k = "lrld" -> i
    [] q.k = "next" -> (i + 1) % n
    [] q.k = "prev" -> (i + n - 1) % n
    [] q.k = "num"  -> IF q.n >= 1 /\ q.n <= n THEN q.n - 1 ELSE i
RECURSIVE FoldSel(_, _, _)
FoldSel(qs, i, n) == IF qs = <<>> THEN i ELSE FoldSel(Tail(qs), Sel(Head(qs), i, n), n)
Unspecified(q, n) == q.k = "num" /\ ~(q.n >= 1 /\ q.n <= n)
\* A failed attempt is not observable, so between two requests of a batch the selection may have started over from
\* the file in use b: the indices the requests qs can select
RECURSIVE SetFold(_, _, _, _)
SetFold(qs, S, b, n) == IF qs = <<>> THEN S ELSE SetFold(Tail(qs), {Sel(Head(qs), i, n) : i \in S \cup {b}}, b, n)
\* indices a reload may load: the last requests of the batch may not have been processed yet
TargetsInUse(m) == UNION { SetFold(SubSeq(m.pend, 1, j), {m.base}, m.base, NFiles(m)) : j \in 1..Len(m.pend) }
FinalInUse(m) == SetFold(m.pend, {m.base}, m.base, NFiles(m))
\* the same when every request moves the index whether or not its reload succeeds ("requested")
TargetsReq(m) == { FoldSel(SubSeq(m.pend, 1, j), m.cbase, NFiles(m)) : j \in 1..Len(m.pend) }
FinalReq(m) == FoldSel(m.pend, m.cbase, NFiles(m))
Targets(m) == IF m.p.idxsem = "requested" THEN TargetsReq(m) ELSE TargetsInUse(m)
ValidNow(m) == {i \in 0..(NFiles(m) - 1) : IsValid(m, m.files[i + 1])}

ReqOf(m, c) == LET I == {i \in DOMAIN m.p.req : m.p.req[i].c = c} IN
               IF I = {} THEN <<>> ELSE <<m.p.req[CHOOSE i \in I : TRUE]>>

\* ----- lane comparison ----------------------------------------------------------------------
EqIn(a, x) == a.out = x.out
EqTick(a, x) == /\ a.out = x.out /\ a.msgs = x.msgs /\ a.layer = x.layer
                /\ a.idle = x.idle /\ a.cb = x.cb /\ a.lrr = x.lrr /\ a.repl = x.repl

MonIn(m, r) ==
  LET a == r.A
      m1 == IF m.phase = "pre" /\ r.B.on /\ ~EqIn(a, r.B)
            THEN Fail(m, "F1: before any successful reload the run differs from the run without requests (input step)")
            ELSE IF m.phase = "sync" /\ ~r.C.on THEN Fail(m, "trace: lane C is missing after the idle point")
            ELSE IF m.phase = "sync" /\ ~EqIn(a, r.C)
            THEN Fail(m, "F2g: after the reload the run differs from a freshly started instance (input step)")
            ELSE m
      q == IF r.e = "d" THEN ReqOf(m, r.c) ELSE <<>>
      m2 == IF q = <<>> THEN m1
            ELSE [m1 EXCEPT !.pend = IF Len(@) < 4 THEN @ \o q ELSE @,
                            !.loose = @ \/ Len(m1.pend) >= 4 \/ Unspecified(q[1], NFiles(m1)),
                            \* files that parse during the whole batch
                            !.okall = IF m1.pend = <<>> THEN ValidNow(m1) ELSE @]
  IN [m2 EXCEPT !.down = DownAfter(a.out, @), !.since = 0, !.quiet = 0]

MonW(m, r) == [m EXCEPT !.files[r.i + 1] = r.k, !.okall = IF IsValid(m, r.k) THEN @ ELSE @ \ {r.i}]

IdxStr(i) == ToString(i)
ReloadMsgs(msgs) == SelectSeq(msgs, LAMBDA x : x[1] = "reload")

\* the part of F1-F3 that is checked in the iteration in which the configuration was replaced
ReloadChecks(m, a, down1, since1) ==
  LET rm == ReloadMsgs(a.msgs)
      All == 0..(NFiles(m) - 1)
      T == IF m.loose THEN All ELSE Targets(m)
      Tc == IF m.loose THEN All ELSE TargetsReq(m)
      \* the file that was loaded: as the notification names it; without one, as the active layer tells
      byMsg == IF rm = <<>> THEN {} ELSE {t \in All : IdxStr(t) = rm[1][2]}
      byLayer == {t \in All : IsValid(m, m.files[t + 1]) /\ m.p.first[m.files[t + 1]] = a.layer}
      bl == byLayer \cap (T \cup Tc)
      cand == IF byMsg # {} THEN byMsg
              ELSE IF a.idx \in bl THEN {a.idx}      \* several files with that first layer: the index kanata holds decides
              ELSE IF bl \cap T # {} THEN bl \cap T ELSE bl
      \* several files with the same first layer and no notification: the index kanata holds names the file
      t == IF cand = {} THEN 0 - 1 ELSE IF a.idx \in cand THEN a.idx ELSE CHOOSE x \in cand : TRUE
      k == IF t < 0 THEN "?" ELSE m.files[t + 1]
      n == Len(a.msgs)
      m1 == IF ~(down1 = {} \/ since1 >= m.p.sec)
            THEN Fail(m, "F2a: the reload was applied while an output key was down and before one idle second had passed")
            ELSE IF m.pend = <<>> /\ ~m.loose
            THEN Fail(m, "F1: the configuration was replaced although no request was outstanding (a failed request must not linger)")
            ELSE IF \A x \in T \cup Tc : ~IsValid(m, m.files[x + 1])
            THEN Fail(m, "F1: the configuration was replaced although the reload of the requested file cannot succeed (it does not parse, or a step of the reload fails)")
            ELSE IF t < 0
            THEN Fail(m, "F3: the reload loaded a file that the requests do not select, or an unknown content")
            ELSE IF ~IsValid(m, k)
            THEN Fail(m, "F1: a file whose reload cannot succeed was applied" \o Tag(k))
            ELSE IF ~(t \in T) /\ t \in Tc
            THEN Fail(m, "F3x: index selection continued from a file whose reload had failed, not from the file in use: in use "
                         \o IdxStr(m.base) \o ", requests select " \o ToString(T) \o ", loaded " \o IdxStr(t))
            ELSE IF ~(t \in T)
            THEN Fail(m, "F3: wrong file: in use " \o IdxStr(m.base) \o ", requests select " \o ToString(T)
                         \o ", loaded " \o IdxStr(t))
            ELSE IF a.layer # m.p.first[k]
            THEN Fail(m, "F2d: after the reload the active layer is not the first layer of the new configuration" \o Tag(k))
            ELSE IF ~( /\ n >= 2 /\ a.msgs[n - 1] = <<"reload", IdxStr(t)>> /\ a.msgs[n] = <<"layer", m.p.first[k]>>
                       /\ Len(rm) = 1
                       /\ \A i \in 1..(n - 2) : a.msgs[i][1] = "layer" )
            THEN Fail(m, "F2c: the reload was applied but clients were not sent ConfigFileReload then LayerChange(first layer)" \o Tag(k))
            ELSE IF a.lrr
            THEN Fail(m, "F2: a request is still pending right after a successful reload")
            ELSE m
  IN [m1 EXCEPT !.base = IF t < 0 THEN @ ELSE t, !.cbase = IF t < 0 THEN @ ELSE t, !.pend = <<>>, !.loose = FALSE,
                !.phase = IF @ = "pre" THEN "post" ELSE @, !.resid = down1, !.age = 0, !.quiet = 0]

\* one loop iteration (n > 1: n identical silent iterations)
MonTick(m, r) ==
  LET a == r.A
      n == r.n
      down1 == DownAfter(a.out, m.down)
      \* "one idle second": iterations without input while the request is pending
      since1 == IF a.lrr \/ a.repl THEN OMin(m.since + n, m.p.scap) ELSE 0
      \* --- lane B: as if no reload had been requested
      m1 == IF m.phase = "pre" /\ r.B.on /\ ~(a.out = r.B.out)
            THEN Fail(m, "F1: before any successful reload the OS output differs from the run without requests")
            ELSE IF m.phase = "pre" /\ r.B.on /\ ~a.repl /\ ~(a.msgs = r.B.msgs /\ a.layer = r.B.layer)
            THEN Fail(m, "F1: before any successful reload the client messages / active layer differ from the run without requests")
            ELSE IF m.phase = "pre" /\ r.B.on /\ ~a.repl /\ ~a.lrr /\ ~(a.idle = r.B.idle /\ a.cb = r.B.cb)
            THEN Fail(m, "F1: with no request pending, idle/blocking differs from the run without requests")
            ELSE m
      \* --- reload / no reload
      m2 == IF m1.err # "" THEN m1
            ELSE IF a.repl THEN ReloadChecks(m1, a, down1, since1)
            ELSE IF ReloadMsgs(a.msgs) # <<>>
            THEN Fail(m1, "F1: ConfigFileReload was sent although the configuration was not replaced")
            ELSE IF a.lrr /\ down1 = {}
            THEN Fail(m1, "F2b: a reload is requested and no output key is down, but it was not carried out in this iteration")
            ELSE IF a.lrr /\ since1 >= m.p.sec + 10
            THEN Fail(m1, "F2h: a reload is still pending after more than one second without input (the one-idle-second fallback did not apply it)")
            ELSE IF ~a.lrr /\ a.idle /\ m1.pend # <<>>
            THEN \* every request of the batch has been processed and used up without a successful reload
                 LET fin == IF m1.p.idxsem = "requested" THEN {FinalReq(m1)} ELSE FinalInUse(m1) IN
                 IF ~m1.loose /\ fin \subseteq m1.okall /\ ~(FinalReq(m1) \in m1.okall)
                 THEN Fail(m1, "F3x: index selection continued from a file whose reload had failed, not from the file in use: in use "
                               \o IdxStr(m1.base) \o ", requests select " \o ToString(fin) \o " (parses), nothing was loaded")
                 ELSE IF ~m1.loose /\ fin \subseteq m1.okall
                 THEN Fail(m1, "F3: the requested file parses but was not applied: in use " \o IdxStr(m1.base)
                               \o ", requests select " \o ToString(fin))
                 ELSE [m1 EXCEPT !.cbase = IF m1.loose THEN @ ELSE FinalReq(m1), !.pend = <<>>, !.loose = FALSE]
            ELSE m1
      \* --- lane C: a freshly started instance of the new configuration
      m2c == IF m2.err # "" \/ m.phase # "sync" THEN m2
             ELSE IF ~r.C.on THEN Fail(m2, "trace: lane C is missing after the idle point")
             ELSE IF ~EqTick(a, r.C)
             THEN Fail(m2, "F2g: from the idle point after the reload the run differs from a freshly started instance of the new configuration")
             ELSE m2
      \* --- after a reload: nothing stays pressed, becomes idle
      ups == {a.out[i][2] : i \in {j \in DOMAIN a.out : a.out[j][1] = "u"}}
      resid1 == IF a.repl THEN m2c.resid ELSE m2c.resid \ ups
      age1 == IF a.repl \/ resid1 = {} THEN 0 ELSE OMin(m2c.age + n, m.p.bound + 1)
      quiet1 == IF m2c.phase = "post" /\ r.phys = 0
                THEN OMin((IF a.repl THEN 0 ELSE m2c.quiet) + n, m.p.settle + 1) ELSE 0
      m3 == IF m2c.err # "" \/ m2c.phase = "pre" THEN m2c
            ELSE IF resid1 # {} /\ age1 >= m.p.bound
            THEN Fail(m2c, "F2e: a key that was down at the OS when the reload was applied is still down")
            ELSE IF m2c.phase = "post" /\ quiet1 >= m.p.settle /\ ~a.cb
            THEN Fail(m2c, "F2f: after the reload, with no key held, kanata does not become idle")
            ELSE m2c
      \* the comparison with the fresh instance starts at the first idle point of both (the fresh instance exists from
      \* the iteration after the reload; in the iteration of the reload it is trivially idle)
      phase1 == IF m3.phase = "post" /\ a.cb /\ r.phys = 0 /\ (a.repl \/ (r.C.run /\ r.C.cb)) THEN "sync" ELSE m3.phase
  IN IF m3.err # "" THEN m3
     ELSE [m3 EXCEPT !.down = down1, !.since = since1, !.resid = resid1, !.age = age1, !.quiet = quiet1,
                     !.phase = phase1]

MonStep(m, r) ==
  IF m.err # "" THEN m
  ELSE CASE r.e = "t" -> MonTick(m, r)
         [] r.e \in {"d", "u", "r"} -> MonIn(m, r)      \* "r" = OS key repeat of a held key (its output is immediate)
         [] r.e = "w" -> MonW(m, r)
         [] r.e = "panic" -> Fail(m, "panic in the code under test (lane " \o r.lane \o "): " \o r.loc)
         [] r.e = "error" -> Fail(m, "error from the code under test: " \o r.msg)
         [] OTHER -> m
=============================================================================
