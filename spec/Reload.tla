--------------------------------- MODULE Reload ---------------------------------
(***************************************************************************)
(* L1 detailed model of live reload (src/kanata/mod.rs): the per-iteration *)
(* time handling of the processing loop with the deferred reload           *)
(* (handle_time_ticks 749-799), do_live_reload (598-699) with exactly its  *)
(* list of assigned fields - and therefore the list of fields it leaves    *)
(* alone -, the file index selection of lrld / lrld-next / lrld-prev /     *)
(* lrld-num (1264-1306) and the two client notifications.                  *)
(*                                                                         *)
(* Two configurations can be live in one behaviour: "O" (what kanata was   *)
(* started with) and "N" (another valid one).  Each is an instance of the  *)
(* detailed model Kanata.tla with the constants the real parser produced   *)
(* for it (binding A); the Kanata record K is shared, which is precisely   *)
(* what a reload does: it swaps the configuration under a running state.   *)
(*                                                                         *)
(* A file content kind k is described by CfgOfKind[k] \in {"O","N",""}     *)
(* ("" = cfg::new_from_file fails: syntax error, refused by the parser,    *)
(* missing, unreadable) and k \in PostFail (parses, but the fallible step  *)
(* after the assignments - set_repeat_rate, linux.rs:99 - fails).          *)
(*                                                                         *)
(* Loop state  S = [K, cfg, idx, pl]:                                      *)
(*   K   Kanata.tla record (layout L, prev_keys, waiting_for_idle,         *)
(*       vkeys_pending_release, ticks_since_idle, macro cancel duration,   *)
(*       live_reload_requested, scroll states, last_pressed_key)           *)
(*   cfg which configuration the parsed fields currently come from         *)
(*   idx cur_cfg_idx          pl  prev_layer                               *)
(***************************************************************************)
EXTENDS Naturals, Integers, Sequences, FiniteSets, TLC

CONSTANTS ActO, LayerTabO, SrcTabO, OptsO, NamesO,    \* configuration O (parser dump) + its layer names
          ActN, LayerTabN, SrcTabN, OptsN, NamesN,    \* configuration N
          CapsR, BugR,
          CfgOfKind,       \* content kind -> "O" | "N" | ""
          PostFail,        \* kinds whose post-parse step fails
          NFilesR          \* number of files on the command line

Old == INSTANCE Kanata WITH Act <- ActO, LayerTab <- LayerTabO, SrcTab <- SrcTabO, Opts <- OptsO, Caps <- CapsR, Bug <- "none"
New == INSTANCE Kanata WITH Act <- ActN, LayerTab <- LayerTabN, SrcTab <- SrcTabN, Opts <- OptsN, Caps <- CapsR, Bug <- "none"

IdleReloadAfter == 1000     \* src: mod.rs:776  `self.ticks_since_idle > 1000`

\* ----- dispatch on the configuration in force --------------------------------------------
HandleInputOf(c, K, kind, code) == IF c = "O" THEN Old!HandleInput(K, kind, code) ELSE New!HandleInput(K, kind, code)
TickMsOf(c, K) == IF c = "O" THEN Old!TickMs(K) ELSE New!TickMs(K)
CustomEventOf(c, K) == IF c = "O" THEN Old!TickL(K.L).ce ELSE New!TickL(K.L).ce
CuListOf(c, ce) == IF c = "O" THEN Old!CuList(ce) ELSE New!CuList(ce)
IsIdleOf(c, K) == IF c = "O" THEN Old!IsIdle(K) ELSE New!IsIdle(K)
CanBlockOf(c, K) == IF c = "O" THEN Old!CanBlockUpdate(K) ELSE New!CanBlockUpdate(K)
CurLayerOf(c, K) == IF c = "O" THEN Old!CurrentLayer(K.L) ELSE New!CurrentLayer(K.L)
InitLayoutOf(c) == IF c = "O" THEN Old!InitLayout ELSE New!InitLayout
LayerNameOf(c, l) == IF c = "O" THEN NamesO[l + 1] ELSE NamesN[l + 1]
ProjOf(c, K) == IF c = "O" THEN Old!Proj(K) ELSE New!Proj(K)

InitS == [K |-> Old!InitK, cfg |-> "O", idx |-> 0, pl |-> 0]
\* a freshly started instance of configuration c (Kanata::new: 353-449) with cur_cfg_idx set to i
FreshS(c, i) == [K |-> IF c = "O" THEN Old!InitK ELSE New!InitK, cfg |-> c, idx |-> i, pl |-> 0]

\* ----- file index selection, src: mod.rs:1264-1306 ----------------------------------------
\* q: one custom action of the press list; n = cfg_paths.len(); returns [idx, req]
IsReq(q) == q.c \in {"lrld", "lrld_next", "lrld_prev", "lrld_num"}
SelReq(q, idx, n) ==
  CASE q.c = "lrld" -> [idx |-> idx, req |-> TRUE]
    [] q.c = "lrld_next" -> [idx |-> IF idx = n - 1 THEN 0 ELSE idx + 1, req |-> TRUE]
    [] q.c = "lrld_prev" -> [idx |-> IF idx = 0 THEN n - 1 ELSE idx - 1, req |-> TRUE]
    \* the parser stores n-1 (cfg/mod.rs:3333); `cfg_paths.get(n)` = None only logs, the request stands
    [] q.c = "lrld_num" -> [idx |-> IF q.n < n THEN q.n ELSE idx, req |-> TRUE]
    [] OTHER -> [idx |-> idx, req |-> FALSE]
RECURSIVE SelFold(_, _, _, _)
SelFold(cs, idx, n, req) ==
  IF cs = <<>> THEN [idx |-> idx, req |-> req]
  ELSE LET s == SelReq(Head(cs), idx, n) IN SelFold(Tail(cs), s.idx, n, req \/ s.req)

\* ----- do_live_reload, src: mod.rs:598-717 ---------------------------------------------------
\* Order in the code: parse (599-605) ; fallible steps update_kbd_out / set_repeat_rate (606-610, since 20ca339
\* before the first assignment) ; assignments from the parse result ; reset of the run-time state that refers
\* to the old layout (since 145f589) ; notifications ; prev_layer ; macro_on_press_cancel_duration := 0.
\* Assigned from the parse result (=> the model switches `cfg`, i.e. Act/LayerTab/SrcTab/Opts, and takes a new layout):
\*   sequence_backtrack_modcancel, sequence_always_on, sequence_input_mode, sequence_timeout, layout, key_outputs,
\*   layer_info, sequences, overrides, log_layer_changes, movemouse_smooth_diagonals, override_release_on_activation,
\*   movemouse_inherit_accel_state, dynamic_macro_max_presses, dynamic_macro_replay_behaviour, switch_max_key_timing,
\*   virtual_keys, zippychord configuration, MAPPED_KEYS.
\* Reset (K fields in brackets): scroll_state / hscroll_state [scroll, hscroll], move_mouse_state_*,
\*   move_mouse_speed_modifiers, movemouse_buffer, unmodded_keys [um], unmodded_mods [umm], unshifted_keys [us],
\*   last_pressed_key [lpk], caps_word, sequence_state [sq], waiting_for_idle [wfi], vkeys_pending_release [vpr],
\*   dynamic_macro_replay_state [dyn.rep], dynamic_macro_record_state [dyn.rec], macro_on_press_cancel_duration [mcd].
\* NOT touched (retained from the running instance): prev_keys [prev] (so that what is down is released by the next
\*   tick), cur_keys, cur_cfg_idx [idx], ticks_since_idle [tsi], dynamic_macros [dyn.mac], override_states (scratch),
\*   saved_clipboard_content, kbd_out.
\* BugR (model mutants = the behaviour before the repairs): "post_step_after_assign" (before 20ca339 a failing
\*   set_repeat_rate left the new configuration in force without notifications), "runtime_state_kept" (before 145f589).
\* kind = content of cfg_paths[idx] now.  Returns [S, msgs, repl].
ResetRuntime(K) ==
  IF BugR = "runtime_state_kept" THEN K
  ELSE [K EXCEPT !.scroll = <<>>, !.hscroll = <<>>, !.um = <<>>, !.umm = 0, !.us = <<>>, !.lpk = 0,
                 !.sq = Old!InitSq, !.wfi = {}, !.vpr = <<>>, !.dyn.rep = <<>>, !.dyn.rec = <<>>, !.cw = <<>>]
DoLiveReload(S, kind) ==
  LET c == CfgOfKind[kind] IN
  IF c = "" THEN [S |-> S, msgs |-> <<>>, repl |-> FALSE]                \* 599-605: bail before any assignment
  ELSE IF kind \in PostFail /\ BugR # "post_step_after_assign"
  THEN [S |-> S, msgs |-> <<>>, repl |-> FALSE]                          \* 606-610: `?` before any assignment
  ELSE LET K1 == ResetRuntime([S.K EXCEPT !.L = InitLayoutOf(c)]) IN
       IF kind \in PostFail
       THEN [S |-> [S EXCEPT !.K = K1, !.cfg = c], msgs |-> <<>>, repl |-> TRUE]
       ELSE LET cl == 0 IN     \* current_layer() of a new layout = its default layer 0
            [S |-> [S EXCEPT !.K = [K1 EXCEPT !.mcd = 0], !.cfg = c, !.pl = cl],
             msgs |-> <<<<"reload", ToString(S.idx)>>, <<"layer", LayerNameOf(c, cl)>>>>,
             repl |-> TRUE]

\* ----- one iteration of the loop with 1 ms elapsed ------------------------------------------------
\* handle_time_ticks (749-799) = tick_ms(1) ; check_handle_layer_change ; deferred reload, followed by
\* can_block_update_idle_waiting (2146-2178).  noreq = TRUE models lane B: the request actions have no effect.
\* kind = content of the selected file at the time of the attempt (only read if an attempt is due).
\* Returns [S, out, msgs, idle, cb, repl, att].
Pre(S, noreq) ==
  LET K0 == [S.K EXCEPT !.out = <<>>]
      ce == CustomEventOf(S.cfg, K0)
      cs == IF ce.k = "press" /\ ~noreq THEN SelectSeq(CuListOf(S.cfg, ce), IsReq) ELSE <<>>
      sel == SelFold(cs, S.idx, NFilesR, FALSE)                            \* 1264-1306 (inside tick_states)
      K1 == TickMsOf(S.cfg, K0)                                        \* 757: tick_ms(1)
      K2 == [K1 EXCEPT !.lrr = IF noreq THEN FALSE ELSE (@ \/ sel.req)]    \* 870
      cl == CurLayerOf(S.cfg, K2)                                          \* 772: check_handle_layer_change
      msgs == IF cl # S.pl THEN <<<<"layer", LayerNameOf(S.cfg, cl)>>>> ELSE <<>>
  IN [S |-> [S EXCEPT !.K = K2, !.idx = sel.idx, !.pl = cl], msgs |-> msgs,
      due |-> K2.lrr /\ (K2.prev = <<>> \/ K2.tsi > IdleReloadAfter)]     \* 774-776 (cur_keys is empty after every tick)
AttemptDue(S) == Pre(S, FALSE).due
LoopIter(S, kind, noreq) ==
  LET p == Pre(S, noreq)
      r == IF p.due THEN DoLiveReload([p.S EXCEPT !.K.lrr = FALSE], kind)   \* 787-788
           ELSE [S |-> p.S, msgs |-> <<>>, repl |-> FALSE]
      idle == IsIdleOf(r.S.cfg, r.S.K)
      c == CanBlockOf(r.S.cfg, r.S.K)
  IN [S |-> [r.S EXCEPT !.K = c.K], out |-> r.S.K.out, msgs |-> p.msgs \o r.msgs, idle |-> idle, cb |-> c.cb,
      repl |-> r.repl, att |-> p.due]

InputS(S, kind, code) == [S EXCEPT !.K = HandleInputOf(S.cfg, S.K, kind, code)]
=============================================================================
