--------------------------------- MODULE P_C10 ---------------------------------
(***************************************************************************)
(* L2 monitor for C10, end-to-end through the stepper (binding C):         *)
(* "a switch case fires iff its written condition is true of the current   *)
(*  state, cases are tried top to bottom, break stops and fallthrough      *)
(*  continues, and every firing case's action is performed; fork takes its *)
(*  right branch iff one of its trigger keys is currently active".         *)
(*                                                                         *)
(* The monitor sees only inputs and OS outputs.  It reconstructs the       *)
(* "current state" the documentation speaks about from them:               *)
(*   active keys        = keys the OS sees pressed                         *)
(*   key history / age  = the OS key presses, most recent first, with the  *)
(*                        number of ticks since they were emitted          *)
(*   inputs             = physical keys held (other than the switch key)   *)
(*   input history      = physical presses, most recent first, the switch  *)
(*                        key's own press being number 1                   *)
(*   layer              = l1 while the layer-while-held key is held        *)
(* and uses Denote / DenoteCases of Switch.tla (the documented meaning; no *)
(* opcode machinery) to say which action keys must go down, in which       *)
(* order, in the `win` ticks after the press of the switch / fork key.     *)
(* "Current" is the moment the press is acted upon (operator Decide).       *)
(* It is sharp for quiescent scripts (nothing else happens in the window); *)
(* an input inside the window cancels the pending judgement (soft).        *)
(*                                                                         *)
(* kind "term": the key sk carries a composite action term of             *)
(* ActionTerms.tla (a fork / switch whose branches are keys, v1 chord      *)
(* placeholders, multi, tap-hold, tap-dance, nested fork / switch); the    *)
(* expected output keys are HeldOut(term, current state): the scripts hold *)
(* the key through the window.                                             *)
(*                                                                         *)
(* params: [kind |-> "switch"|"fork"|"term", sk, win, ageoff,               *)
(*          cases |-> Seq([cond, ac, brk]),   (switch; ac = output code)    *)
(*          trig, left, right,                (fork)                        *)
(*          acs |-> Seq(code)  the action output codes (used by nothing     *)
(*                             else in the configuration),                  *)
(*          lk, ll  layer-while-held key code (0 = none) and its layer,     *)
(*          term    (kind "term") the action term of sk]                    *)
(***************************************************************************)
EXTENDS Obs, ActionTerms

CapAge(a) == IF a > 65535 THEN 65535 ELSE a
AgeAll(h, n) == [i \in DOMAIN h |-> [h[i] EXCEPT !.age = CapAge(@ + n)]]
PushHist(h, e) == LET h1 == <<[e |-> e, age |-> 0]>> \o h IN IF Len(h1) > 8 THEN SubSeq(h1, 1, 8) ELSE h1
SetToSeqC(S) == LET RECURSIVE f(_) f(T) == IF T = {} THEN <<>> ELSE LET x == CHOOSE x \in T : TRUE IN <<x>> \o f(T \ {x})
                IN f(S)

MonInit(p) == [p |-> p, down |-> {}, phys |-> {}, hk |-> <<>>, hi |-> <<>>,
               wait |-> 0, pend |-> FALSE, cancel |-> FALSE, exp |-> <<>>, got |-> <<>>, judged |-> 0, err |-> ""]

\* the state the documentation speaks about, at the moment the press of sk is acted upon
EnvNow(m) ==
  [keys |-> SetToSeqC(m.down),
   coords |-> SetToSeqC({<<0, k>> : k \in m.phys \ {m.p.sk}}),
   hk |-> AgeAll(m.hk, m.p.ageoff),
   hi |-> m.hi,
   layers |-> IF m.p.lk # 0 /\ m.p.lk \in m.phys THEN <<m.p.ll, 0>> ELSE <<0>>,
   dl |-> 0]

Expected(m) ==
  IF m.p.kind = "fork"
  THEN IF \E i \in DOMAIN m.p.trig : m.p.trig[i] \in m.down THEN <<m.p.right>> ELSE <<m.p.left>>
  ELSE IF m.p.kind = "term" THEN HeldOut(m.p.term, EnvNow(m))
  ELSE DenoteCases(m.p.cases, EnvNow(m))
\* "current" = when the press is acted upon: the tick after the press; within that tick, after the
\* OS events that precede the first action key (kanata may first release an output chord such as
\* S-x that was held: those keys are then no longer active)
Decide(m) == IF m.pend THEN [m EXCEPT !.exp = Expected(m), !.pend = FALSE] ELSE m

Judge(m) ==
  IF m.got = m.exp THEN [m EXCEPT !.wait = 0, !.judged = @ + 1]
  ELSE Fail(m, "switch/fork performed " \o ToString(m.got) \o " but the written conditions give " \o ToString(m.exp))

Cancel(m) == IF m.wait > 0 THEN [m EXCEPT !.wait = 0, !.pend = FALSE, !.cancel = TRUE] ELSE m
MonIn(m, r) ==
  IF r.e = "d"
  THEN LET m1 == [Cancel(m) EXCEPT !.phys = @ \cup {r.c}, !.hi = PushHist(@, <<0, r.c>>)] IN
       IF r.c = m.p.sk /\ m.wait = 0
       THEN [m1 EXCEPT !.wait = m.p.win, !.pend = TRUE, !.cancel = FALSE, !.got = <<>>]
       ELSE m1
  ELSE IF r.e = "u" THEN [Cancel(m) EXCEPT !.phys = @ \ {r.c}]
  ELSE Cancel(m)

RECURSIVE OutRec(_, _)
OutRec(m, out) ==
  IF out = <<>> \/ m.err # "" THEN m
  ELSE LET e == Head(out) IN
       IF e[1] = "d"
       THEN IF InSeq(m.p.acs, e[2])
            THEN IF m.wait > 0
                 THEN LET m1 == Decide(m) IN
                      OutRec([m1 EXCEPT !.got = Append(@, e[2]), !.down = @ \cup {e[2]}, !.hk = PushHist(@, e[2])], Tail(out))
                 ELSE IF m.cancel
                 THEN OutRec([m EXCEPT !.down = @ \cup {e[2]}, !.hk = PushHist(@, e[2])], Tail(out))
                 ELSE Fail(m, "an action of the switch/fork was performed outside the window after a press of its key")
            ELSE OutRec([m EXCEPT !.down = @ \cup {e[2]}, !.hk = PushHist(@, e[2])], Tail(out))
       ELSE IF e[1] = "u" THEN OutRec([m EXCEPT !.down = @ \ {e[2]}], Tail(out))
       ELSE OutRec(m, Tail(out))

MonTick(m, out, idle, cb) ==
  LET m0 == [m EXCEPT !.hk = AgeAll(@, 1), !.hi = AgeAll(@, 1)]
      m1 == OutRec(m0, out)
      m2 == IF m1.err = "" /\ m1.wait > 0 THEN Decide(m1) ELSE m1 IN
  IF m2.err # "" \/ m2.wait = 0 THEN m2
  ELSE IF m2.wait = 1 THEN Judge(m2) ELSE [m2 EXCEPT !.wait = @ - 1]

RECURSIVE MonSilent(_, _, _, _)
MonSilent(m, n, idle, cb) ==
  IF n = 0 \/ m.err # "" THEN m
  ELSE IF m.wait = 0 THEN [m EXCEPT !.hk = AgeAll(@, n), !.hi = AgeAll(@, n)]
  ELSE MonSilent(MonTick(m, <<>>, idle, cb), n - 1, idle, cb)
=============================================================================
