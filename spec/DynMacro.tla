--------------------------------- MODULE DynMacro ---------------------------------
(***************************************************************************)
(* L1 detailed model of src/kanata/dynamic_macro.rs (dynamic macros:       *)
(* record physical key events, replay them into the layout).  Functional   *)
(* style like Layout.tla: the dynamic-macro part of the Kanata struct is   *)
(* one record D, every Rust function is a pure operator D |-> D'.          *)
(*                                                                         *)
(*   D = [ rec : <<>> | <<RecordState>>      dynamic_macro_record_state    *)
(*         rep : <<>> | <<ReplayState>>      dynamic_macro_replay_state    *)
(*         mac : Seq([id, items])            dynamic_macros (sorted by id) *)
(*         nt  : Nat      tick_states executed by the latest tick_ms call  *)
(*         amb : BOOLEAN  a saved macro got >= 2 synthesized releases: the *)
(*                        code emits them in HashSet iteration order, the  *)
(*                        model in ascending code order (instances do not  *)
(*                        expand such states; recorded traces cover them)  *)
(*         ns  : Nat      ghost: macros saved so far, capped at 9 (bounds   *)
(*                        the exhaustive instances)                        *)
(*         pn  : STRING   panic site reached ("" = none; no site is left   *)
(*                        since fix 72e2986) ]                             *)
(*   RecordState = [id, wait : <<>> | <<[k, c]>>, items, delay]            *)
(*   ReplayState = [active : SUBSET Nat, rem : Nat, items : Seq(Item)]     *)
(*   Item = [k : "p" Press | "r" Release | "e" EndMacro, c : code | id, d] *)
(***************************************************************************)
EXTENDS Naturals, Sequences, FiniteSets

DmItem(k, c, d) == [k |-> k, c |-> c, d |-> d]
DmInit == [rec |-> <<>>, rep |-> <<>>, mac |-> <<>>, nt |-> 1, amb |-> FALSE, ns |-> 0, pn |-> ""]
DmU16Max == 65535
DmSatSub(a, b) == IF a > b THEN a - b ELSE 0

\* ----- dynamic_macros : HashMap<u16, Vec<DynamicMacroItem>> ------------------------------
DmHas(mac, id) == \E i \in DOMAIN mac : mac[i].id = id
DmGet(mac, id) == mac[CHOOSE i \in DOMAIN mac : mac[i].id = id].items
DmPut(mac, id, items) ==       \* insert (replaces an existing entry); kept sorted by id
  LET lo == SelectSeq(mac, LAMBDA e : e.id < id)
      hi == SelectSeq(mac, LAMBDA e : e.id > id)
  IN lo \o <<[id |-> id, items |-> items]>> \o hi

\* ----- DynamicMacroRecordState -------------------------------------------------------------
\* src: dynamic_macro.rs:35-42 new
DmNewRec(id) == [id |-> id, wait |-> <<>>, items |-> <<>>, delay |-> 0]

\* the keys with a Press and no later Release in `items`
\* src: dynamic_macro.rs:45-56
RECURSIVE DmPressedRec(_, _)
DmPressedRec(items, acc) ==
  IF items = <<>> THEN acc
  ELSE LET i == Head(items) IN
       DmPressedRec(Tail(items), CASE i.k = "p" -> acc \cup {i.c}
                                   [] i.k = "r" -> acc \ {i.c}
                                   [] OTHER -> acc)
DmPressed(items) == DmPressedRec(items, {})

RECURSIVE DmSortSet(_)
DmSortSet(S) == IF S = {} THEN <<>>
                ELSE LET m == CHOOSE x \in S : \A y \in S : x <= y IN <<m>> \o DmSortSet(S \ {m})

\* src: dynamic_macro.rs:44-61 add_release_for_all_unreleased_presses.  "release order is arbitrary"
\* (HashSet iteration): the model appends them in ascending code order and flags amb when the order
\* is not determined (two or more).  Returns [items, amb].
DmAddReleases(items) ==
  LET S == DmPressed(items)
      rs == DmSortSet(S)
  IN [items |-> items \o [i \in 1..Len(rs) |-> DmItem("r", rs[i], 0)], amb |-> Cardinality(S) >= 2]

\* the pending event is pushed with the delay counted since it arrived
\* src: dynamic_macro.rs:64-75 (add_event), 170-180 (begin_record_macro), 247-258 (stop_macro)
DmFlush(r) ==
  IF r.wait = <<>> THEN r
  ELSE [r EXCEPT !.items = Append(@, DmItem(r.wait[1].k, r.wait[1].c, r.delay)), !.wait = <<>>]

\* src: dynamic_macro.rs:63-78 add_event (one-event lag: the newest event waits in `waiting_event`)
DmAddEvent(r, k, c) == [DmFlush(r) EXCEPT !.delay = 0, !.wait = <<[k |-> k, c |-> c]>>]

\* src: dynamic_macro.rs:97-101 tick_record_state (saturating_add(1); `cap` = the model's age cap with the
\* `recorded` delay behaviour, 0 with `constant`, where the recorded delays are never read)
DmTickRecord(D, cap) ==
  IF D.rec = <<>> THEN D
  ELSE [D EXCEPT !.rec[1].delay = IF @ + 1 > cap THEN cap ELSE @ + 1]

DmSave(D, id, ia) == [D EXCEPT !.mac = DmPut(@, id, ia.items), !.amb = @ \/ ia.amb,
                                !.ns = IF @ < 9 THEN @ + 1 ELSE @]

\* src: dynamic_macro.rs:159-202 begin_record_macro (+ mod.rs DynamicMacroRecord arm: insert)
DmBeginRecord(D, id) ==
  IF D.rec = <<>> THEN [D EXCEPT !.rec = <<DmNewRec(id)>>]
  ELSE LET r == DmFlush(D.rec[1])
           \* 185 `macro_items.pop()`: the last item, "almost certainly" the record key's own press; nothing
           \* may have been recorded yet (fix 72e2986: was remove(len() - 1), a panic on an empty recording)
           ia == DmAddReleases(SubSeq(r.items, 1, DmSatSub(Len(r.items), 1)))
           D1 == DmSave(D, r.id, ia)
       IN [D1 EXCEPT !.rec = IF r.id = id THEN <<>> ELSE <<DmNewRec(id)>>]

\* src: dynamic_macro.rs:242-278 stop_macro (+ mod.rs DynamicMacroRecordStop arm: insert)
DmStopMacro(D, n) ==
  IF D.rec = <<>> THEN D
  ELSE LET r == DmFlush(D.rec[1])
           body == SubSeq(r.items, 1, DmSatSub(Len(r.items), 1))     \* 265 `macro_items.pop()` (fix 72e2986)
           kept == SubSeq(body, 1, DmSatSub(Len(body), n))           \* truncate(len.saturating_sub(n))
           D1 == DmSave(D, r.id, DmAddReleases(kept))
       IN [D1 EXCEPT !.rec = <<>>]

\* src: dynamic_macro.rs:204-233 record_press (+ mod.rs handle_input_event: insert).  The size check
\* looks at the stored items only; on overflow neither the pending event nor this press is kept.
DmRecordPress(D, c, maxPresses) ==
  IF D.rec = <<>> THEN D
  ELSE LET r == D.rec[1] IN
       IF Len(r.items) > maxPresses * 2
       THEN [DmSave(D, r.id, DmAddReleases(r.items)) EXCEPT !.rec = <<>>]
       ELSE [D EXCEPT !.rec = <<DmAddEvent(r, "p", c)>>]

\* src: dynamic_macro.rs:235-240 record_release
DmRecordRelease(D, c) ==
  IF D.rec = <<>> THEN D ELSE [D EXCEPT !.rec = <<DmAddEvent(D.rec[1], "r", c)>>]

\* ----- DynamicMacroReplayState ---------------------------------------------------------------
\* src: dynamic_macro.rs:280-315 play_macro
DmPlayMacro(D, id) ==
  IF D.rep = <<>>
  THEN IF DmHas(D.mac, id)
       THEN [D EXCEPT !.rep = <<[active |-> {id}, rem |-> 0, items |-> DmGet(D.mac, id)]>>]
       ELSE D
  ELSE LET s == D.rep[1] IN
       IF id \in s.active THEN D                        \* "refusing to recurse into macro"
       ELSE IF DmHas(D.mac, id)
       THEN [D EXCEPT !.rep = <<[s EXCEPT !.active = @ \cup {id},
                                          !.items = DmGet(D.mac, id) \o <<DmItem("e", id, 0)>> \o @]>>]
       ELSE D

\* src: dynamic_macro.rs:108-157 tick_replay_state.  recorded = (delay behaviour = Recorded).
\* Returns [D, ev] with ev = <<>> or <<[p, c, d]>> (the key event for the layout and the extra delay).
DmTickReplay(D, recorded) ==
  IF D.rep = <<>> THEN [D |-> D, ev |-> <<>>]
  ELSE LET s == D.rep[1]
           rem == DmSatSub(s.rem, 1)
       IN IF rem # 0 THEN [D |-> [D EXCEPT !.rep[1].rem = rem], ev |-> <<>>]
          ELSE IF s.items = <<>> THEN [D |-> [D EXCEPT !.rep = <<>>], ev |-> <<>>]       \* finished macro replay
          ELSE LET i == Head(s.items)
                   s1 == [s EXCEPT !.items = Tail(@), !.rem = 5]
               IN IF i.k = "e"
                  THEN [D |-> [D EXCEPT !.rep = <<[s1 EXCEPT !.active = @ \ {i.c}]>>], ev |-> <<>>]
                  ELSE LET d == IF recorded THEN i.d ELSE 0
                           s2 == IF recorded THEN [s1 EXCEPT !.rem = i.d] ELSE s1
                       IN [D |-> [D EXCEPT !.rep = <<s2>>], ev |-> <<[p |-> i.k = "p", c |-> i.c, d |-> d]>>]

\* ----- projection (binding B): what the harness reads off the public fields --------------------
\* the trailing run of releases is compared as a sorted list (HashSet order, see above); the delays
\* are not projected: with the `recorded` behaviour every delay shows as the number of ticks (nt) its
\* event takes in the replay, with `constant` they are never read
DmTrailLen(items) ==
  LET I == {i \in 0..Len(items) : \A j \in (Len(items) - i + 1)..Len(items) : items[j].k = "r"}
  IN CHOOSE i \in I : \A j \in I : j <= i
RECURSIVE DmInsSorted(_, _)
DmInsSorted(s, x) == IF s = <<>> THEN <<x>>
                     ELSE IF x <= Head(s) THEN <<x>> \o s ELSE <<Head(s)>> \o DmInsSorted(Tail(s), x)
RECURSIVE DmSortSeq(_)
DmSortSeq(s) == IF s = <<>> THEN <<>> ELSE DmInsSorted(DmSortSeq(Tail(s)), Head(s))
DmCanonItems(items) ==
  LET t == DmTrailLen(items)
      n == Len(items)
      tail == DmSortSeq([i \in 1..t |-> items[n - t + i].c])
  IN [i \in 1..(n - t) |-> <<items[i].k, items[i].c>>] \o [i \in 1..t |-> <<"r", tail[i]>>]
DmProj(D) ==
  [ dm |-> [i \in 1..Len(D.mac) |-> <<D.mac[i].id, DmCanonItems(D.mac[i].items)>>],
    drec |-> D.rec # <<>>, drep |-> D.rep # <<>>, nt |-> D.nt ]
=============================================================================
