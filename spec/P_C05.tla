---------------------------------- MODULE P_C05 ----------------------------------
(***************************************************************************)
(* L2 monitor for C05: every press of a tap-hold key resolves to exactly   *)
(* one of tap / hold / timeout, on time; keys pressed while undecided are  *)
(* neither lost nor output before the decision, and are replayed in order. *)
(* Written from the property statement and docs/config.adoc (tap-hold and  *)
(* its variants), over the observable alphabet of Obs.tla.                 *)
(*                                                                         *)
(* params p: [k, H, W, variant, tapK, holdK, toK, listed : Seq(code),      *)
(*            others : Seq([c, o]), cq (0|1 concurrent-tap-hold), red]      *)
(* The instance gives the tap / hold / timeout actions distinct, otherwise  *)
(* unused output keys, so the outcome is recognisable at the OS.            *)
(*                                                                         *)
(* Sharp zone: the press arrived while kanata reported idle and had been    *)
(* quiet for more than rapid-event-delay ticks.  Then the press is          *)
(* processed on the next tick, everything that arrives later waits behind   *)
(* it, and the documented rules pin the outcome and its tick (calibration:  *)
(* DESIGN Appendix A).  Outside the sharp zone only exclusivity, buffering  *)
(* order and eventual resolution are required.                               *)
(***************************************************************************)
EXTENDS Obs

\* quiet counter: red + 1 ticks without input/output suffice outside the tap-repress rules; with W > 0 up to 3 more are counted
QCap(p) == p.red + 1 + (IF p.W > 0 THEN 3 ELSE 0)

MonInit(p) ==
  \* el = ticks elapsed since the undecided press arrived; rel = the key's release has arrived
  [p |-> p, st |-> "none", el |-> 0, sharp |-> FALSE, kq |-> 0,
   \* pend: other-key presses whose output has not appeared yet, in arrival order;
   \* lag = number of tap-hold presses still undecided when the key arrived
   rel |-> FALSE, oth |-> <<>>, pend |-> <<>>,
   \* tap-repress window (docs: "tap timeout"): qt = this press is a re-press inside the window (tap action held at once);
   \* wst = what is known about the previous press of k ("unk" | "pend" = sharp, fresh, undecided | "tap" = it was a tap and
   \* no other key was pressed since | "no" = it was a hold / another key was pressed since: the window is closed);
   \* ws = ticks since that press arrived; ns = inputs of output-less keys since kanata last reported idle
   \* wk marks (until the next tick) a sharp press of k whose tap-repress rule is pinned: "re" = re-press inside the
   \* window, "fr" = the window would still be open but another key / a hold closed it (witness probe of c05.py)
   qt |-> FALSE, wst |-> "no", ws |-> 0, ns |-> 0, wk |-> "",
   lastIdle |-> TRUE, quiet |-> QCap(p), err |-> ""]

OutOf(p, c) == LET I == {i \in DOMAIN p.others : p.others[i].c = c} IN
               IF I = {} THEN 0 - 1 ELSE p.others[CHOOSE i \in I : TRUE].o
IsOtherOut(p, o) == \E i \in DOMAIN p.others : p.others[i].o = o
OutcomeKeys(p) == {p.tapK, p.holdK, p.toK}
KeyOfOutcome(p, d) == CASE d = "tap" -> p.tapK [] d = "hold" -> p.holdK [] d = "timeout" -> p.toK
Listed(p, c) == \E i \in DOMAIN p.listed : p.listed[i] = c

\* the hold timeout elapses on the HoldRel-th tick after the arrival (sharp zone)
HoldRel(m) == OMax(1 + m.p.H - m.p.cq, 2)
ResolveBound(m) == (m.p.H + m.p.red + 3) * 12
ElCap(m) == OMax(HoldRel(m), ResolveBound(m)) + 1

\* ---- the documented decision rules, evaluated at the start of tick T over what has arrived ----
\* other-key events that arrived while undecided, in arrival order: oth = Seq([p, c]);
\* T = number of the current tick counted from the arrival (first tick after arrival = 1)
PressIdx(m) == {i \in DOMAIN m.oth : m.oth[i].p}
HasLaterRelease(m, i) == \E j \in DOMAIN m.oth : j > i /\ ~m.oth[j].p /\ m.oth[j].c = m.oth[i].c
\* tap-hold-release-keys: first press (in order) that decides
RelKeysDecide(m, i) == IF Listed(m.p, m.oth[i].c) THEN "tap"
                       ELSE IF HasLaterRelease(m, i) THEN "hold" ELSE "none"
Trigger(m) ==
  LET v == m.p.variant
      P == PressIdx(m)
  IN CASE v \in {"press", "press-timeout"} -> IF P # {} THEN "hold" ELSE "none"
       [] v \in {"release", "release-timeout"} ->
            IF \E i \in P : HasLaterRelease(m, i) THEN "hold" ELSE "none"
       [] v = "release-keys" ->
            LET D == {i \in P : RelKeysDecide(m, i) # "none"} IN
            IF D = {} THEN "none" ELSE RelKeysDecide(m, CHOOSE i \in D : \A j \in D : i <= j)
       [] v = "except-keys" ->
            IF P = {} THEN "none"
            ELSE LET f == CHOOSE i \in P : \A j \in P : i <= j IN
                 IF Listed(m.p, m.oth[f].c) THEN "tap" ELSE "none"
       [] OTHER -> "none"

\* "No key is ever output until the action key is released or another key is pressed"
SkipTimeout(m) == m.p.variant = "except-keys" /\ PressIdx(m) = {}

\* ---- tap-repress window ("tap timeout", docs: tap-hold, "Tap timeout in more detail") ----------------
\* "the number of milliseconds within which a rapid press+release+press of a key will result in the tap action being
\* held instead of the hold action activating": the previous press of k was a tap, NO other key was pressed in between
\* (then it is not press+release+press of a key: the press is an ordinary tap-hold press again, whatever the other key's
\* action is and whether or not the tap-hold is wrapped in multi), and the re-press comes within W of the first press.
\* The documented example puts n = W inside the window, the code outside: that single tick is left open ("maybe").
QtStatus(m) ==
  IF m.p.W = 0 THEN "no"
  ELSE CASE m.wst = "no" -> "no"
         [] m.wst = "tap" -> IF m.ws < m.p.W THEN "yes" ELSE IF m.ws = m.p.W THEN "maybe" ELSE "no"
         \* nothing pinned about the previous press: kanata reports idle only when no window is open
         [] OTHER -> IF m.lastIdle THEN "no" ELSE "maybe"
\* kanata does not report idle while the window is open: a non-idle report that the window accounts for does not make
\* the press uncertain, provided the output-less inputs that arrived since the last idle report have had their ticks
WinExcuse(m) == m.p.W > 0 /\ m.wst \in {"tap", "no"} /\ m.ws <= m.p.W + 1 /\ m.ns <= 2 /\ m.quiet > m.p.red + m.ns

Dec(m, T) ==
  IF m.qt THEN "tap"
  ELSE IF T < 2 THEN "none"
  ELSE LET tr == Trigger(m) IN
       IF tr # "none" THEN tr
       ELSE IF m.rel THEN (IF T < HoldRel(m) THEN "tap" ELSE "timeout")
       ELSE IF T >= HoldRel(m) /\ ~SkipTimeout(m) THEN "timeout"
       ELSE "none"

\* ---- inputs -------------------------------------------------------------------------
MonIn(m, r) ==
  IF m.err # "" THEN m
  ELSE IF r.e \notin {"d", "u"} THEN Fail(m, "C05: input kind outside the instance")
  ELSE
    LET m0 == [m EXCEPT !.quiet = 0] IN
    IF r.c = m.p.k
    THEN IF r.e = "d"
         THEN IF m.st = "und" THEN [m0 EXCEPT !.kq = @ + 1, !.sharp = FALSE, !.qt = FALSE, !.wst = "unk"]
              ELSE LET q == QtStatus(m)
                       sh == (m.lastIdle \/ WinExcuse(m)) /\ m.quiet > m.p.red /\ m.pend = <<>> /\ q # "maybe"
                   IN [m0 EXCEPT !.st = "und", !.el = 0, !.rel = FALSE, !.oth = <<>>, !.sharp = sh,
                                 !.qt = sh /\ q = "yes", !.ws = 0,
                                 !.wk = IF sh /\ m.p.W > 0 /\ m.wst \in {"tap", "no"} /\ m.ws <= m.p.W + 1
                                        THEN (IF q = "yes" THEN "re" ELSE "fr") ELSE "",
                                 !.wst = IF m.p.W > 0 /\ sh /\ q = "no" THEN "pend" ELSE "unk"]
         ELSE IF m.st = "und" /\ m.kq = 0 /\ ~m.rel THEN [m0 EXCEPT !.rel = TRUE]
              ELSE m0
    ELSE LET m00 == IF m.p.W = 0 THEN m0
                    ELSE [m0 EXCEPT !.wst = IF r.e = "d" THEN "no" ELSE @,
                                    !.ns = IF OutOf(m.p, r.c) < 0 THEN OMin(@ + 1, 3) ELSE @]
             m1 == IF m.st = "und" /\ m.kq = 0
                   THEN [m00 EXCEPT !.oth = Append(@, [p |-> r.e = "d", c |-> r.c])] ELSE m00
             lag == IF m.st = "und" THEN m.kq + 1 ELSE 0
         IN IF r.e = "d" /\ OutOf(m.p, r.c) >= 0
            THEN [m1 EXCEPT !.pend = Append(@, [o |-> OutOf(m.p, r.c), lag |-> lag])]
            ELSE m1

\* ---- ticks ----------------------------------------------------------------------------
\* process the OS events of one tick in order
RECURSIVE Scan(_, _, _)
Scan(m, out, T) ==
  IF out = <<>> \/ m.err # "" THEN m
  ELSE
    LET e == Head(out)
        rest == Tail(out)
    IN IF e[1] # "d" THEN Scan(m, rest, T)
       ELSE IF e[2] \in OutcomeKeys(m.p)
       THEN IF m.st = "none" THEN Fail(m, "C05 X1: outcome key pressed without a press of the tap-hold key")
            ELSE IF m.st = "dec" THEN Fail(m, "C05 X1: a second outcome for one press")
            ELSE \* undecided: this is the outcome
              LET d == Dec(m, T)
                  okSharp == ~m.sharp \/ (d # "none" /\ e[2] = KeyOfOutcome(m.p, d))
                  dl(pd) == [i \in 1..Len(pd) |-> [pd[i] EXCEPT !.lag = IF @ > 0 THEN @ - 1 ELSE 0]]
                  m1 == IF m.kq > 0
                        THEN [m EXCEPT !.kq = @ - 1, !.rel = FALSE, !.sharp = FALSE, !.oth = <<>>, !.pend = dl(@)]
                        ELSE [m EXCEPT !.st = "dec", !.oth = <<>>, !.rel = FALSE, !.pend = dl(@), !.qt = FALSE,
                                       !.wst = IF @ = "pend" THEN (IF e[2] = m.p.tapK THEN "tap" ELSE "no") ELSE @]
              IN IF ~okSharp
                 THEN Fail(m, "C05 X2/X3: outcome differs from the documented rule (or is early/late)")
                 ELSE Scan(m1, rest, T)
       ELSE IF IsOtherOut(m.p, e[2])
       THEN LET I == {i \in DOMAIN m.pend : m.pend[i].o = e[2]} IN
            IF I = {} THEN Scan(m, rest, T)
            ELSE IF 1 \notin I THEN Fail(m, "C05 X4: pressed keys output out of their original order")
            ELSE IF m.pend[1].lag > 0
            THEN Fail(m, "C05 X4: a key pressed while undecided was output before the decision")
            ELSE Scan([m EXCEPT !.pend = Tail(@)], rest, T)
       ELSE Scan(m, rest, T)

MonTick(m, out, idle, cb) ==
  IF m.err # "" THEN m
  ELSE
    LET T == m.el + 1
        wasUnd == m.st = "und"
        d == IF wasUnd /\ m.sharp THEN Dec(m, T) ELSE "none"
        m1 == Scan(m, out, T)
        gotOutcome == wasUnd /\ (m1.st = "dec" \/ m1.kq < m.kq)
        m2 == IF m1.err # "" THEN m1
              ELSE IF wasUnd /\ m.sharp /\ d # "none" /\ ~gotOutcome
              THEN Fail(m1, "C05 X2: the press was not resolved on the tick the documented rule requires")
              ELSE IF wasUnd /\ ~m.sharp /\ ~gotOutcome /\ ~SkipTimeout(m)
                      /\ T > ResolveBound(m)
              THEN Fail(m1, "C05 X1: the press was never resolved")
              ELSE IF idle /\ m1.st # "und" /\ m1.pend # <<>>
              THEN Fail(m1, "C05 X4: a key pressed while undecided was lost")
              ELSE m1
    IN [m2 EXCEPT !.el = IF m2.st = "und" THEN (IF gotOutcome THEN 0 ELSE OMin(T, ElCap(m))) ELSE 0,
                  !.lastIdle = idle, !.wk = "",
                  !.ws = IF m.p.W = 0 THEN 0 ELSE OMin(m2.ws + 1, m.p.W + 2),
                  !.ns = IF idle THEN 0 ELSE m2.ns,
                  !.quiet = IF out = <<>> THEN OMin(m2.quiet + 1, QCap(m.p)) ELSE 0]

RECURSIVE MonSilent(_, _, _, _)
MonSilent(m, n, idle, cb) ==
  IF n = 0 \/ m.err # "" THEN m
  ELSE IF m.st # "und" /\ m.pend = <<>> /\ m.lastIdle = idle /\ m.quiet >= QCap(m.p)
          /\ (m.p.W = 0 \/ m.ws > m.p.W + 1) /\ (~idle \/ m.ns = 0)
  THEN m
  ELSE MonSilent(MonTick(m, <<>>, idle, cb), n - 1, idle, cb)
=============================================================================
