---------------------------- MODULE CfgTemplates ----------------------------
(* C03: name-resolution graphs for TEMPLATES (the deftemplate counterpart of CfgRefs.tla).

   The guide: a template is declared with (deftemplate name (params) body..) and expanded with
   (template-expand name args..) or its short form (t! name args..); both spellings mean the same
   everywhere; a template body may expand other templates, "order of declaration matters": only a
   template declared EARLIER may be expanded inside a body.  That rule is what makes expansion
   terminate, so for every text below the requirement is the outcome relation of CfgOutcome.tla -
   a configuration or a diagnostic, never a hang - in particular for a body that expands its own
   template, a later one (forward reference), two templates that expand each other, through either
   spelling, directly or nested inside another list, whether the template is used or not.

   Templates t1..tn (n <= N) are declared in this order; g[i] = [k, j] is the body of ti:
     "const"   a
     "long"    (template-expand tj)            "short"   (t! tj)
     "nlong"   (multi (template-expand tj) b)  "nshort"  (multi (t! tj) b)
     "subst"   ti has one parameter x and the body is ($x tj ..): the expansion call only comes into
               being when the caller passes the expansion keyword itself as the argument.  (A call of a
               template with a parameter passes the keyword it is spelled with as the argument.)
   j ranges over 1..N, so for n < N a body may also name a template that does not exist.
   use = 0: no template is used; 1..n: tu is expanded with t! in action position of the layer;
   n+1..2n: t(u-n) with template-expand.  pos: the declarations stand before / after the layer.
   One line per (graph, use, pos); the tools only print the text. *)
EXTENDS Naturals, Sequences, TLC, Json
CONSTANTS N, Kinds
Names == 1..N
VARIABLES g, use, pos, done
Init == g = <<>> /\ use = 0 /\ pos = "before" /\ done = FALSE
Next == \/ /\ Len(g) < N /\ ~done
           /\ \E k \in Kinds, j \in Names :
                /\ k = "const" => j = 1
                /\ g' = Append(g, [k |-> k, j |-> j])
           /\ UNCHANGED <<use, pos, done>>
        \/ /\ Len(g) >= 1 /\ ~done
           /\ \E u \in 0..(2 * Len(g)), p \in {"before", "after"} :
                /\ u = 0 => p = "before"
                /\ use' = u /\ pos' = p
           /\ done' = TRUE /\ UNCHANGED g
Emit == done => PrintT(<<"TPL", ToJson([g |-> g, use |-> use, pos |-> pos])>>)
=============================================================================
