----------------------------- MODULE MC_ActionTerms -----------------------------
(***************************************************************************)
(* C10: enumeration of the composite action forms around fork / switch for *)
(* the translation validation of the parser's post-parse passes            *)
(* (tools/props/c10.py, harness switch-tv "tree" jobs) and for the         *)
(* end-to-end runs judged by P_C10 (kind "term").                          *)
(*                                                                         *)
(* A shape is <<"K">> (a key), <<"C">> (a v1 chord placeholder) or         *)
(* <<form, shape, shape>> with form in Forms.  Enumerated: every            *)
(*   top(x, y), top in {fork, switch (first case break), switchf (first    *)
(*   case fallthrough)}, x, y shapes of depth <= Depth  (Mode "full"), or   *)
(*   one of x, y a shape of depth <= Depth and the other a leaf ("side");   *)
(*   plus, in both modes, every multi / tap-hold / tap-dance with a fork /  *)
(*   switch of depth <= Depth as one member and a leaf as the other.        *)
(* Leaves are numbered in pre-order: leaf i is the key KeyCodes[i] or the   *)
(* placeholder of its own chord group g<i> whose chord outputs OutCodes[i]; *)
(* the first placeholder's group has a second key on the physical key ck.   *)
(* Fork triggers / switch conditions test the key TrigKeys[nesting level].  *)
(* For each term TLC prints the term, whether the configuration language    *)
(* admits it (Admitted), the expected final tree (Final), and               *)
(* whether the documented held-key behaviour is a sharp sequence in all     *)
(* four trigger environments (e2e).                                         *)
(***************************************************************************)
EXTENDS ActionTerms, Json

CONSTANTS Depth, TMode, KeyCodes, OutCodes, TrigKeys, Lay

Forms == {"multi", "taphold", "tapdance", "fork", "switch", "switchf"}
Tops == {"fork", "switch", "switchf"}
RECURSIVE Shapes(_)
Shapes(d) == IF d = 0 THEN {<<"K">>, <<"C">>}
             ELSE LET S == Shapes(d - 1) IN S \cup {<<f, x, y>> : f \in Forms, x \in S, y \in S}
LeafShapes == Shapes(0)

TrigAt(lvl) == TrigKeys[IF lvl + 1 > Len(TrigKeys) THEN Len(TrigKeys) ELSE lvl + 1]
KeyCond(kc) == <<[k |-> "key", kc |-> kc]>>
Mk(f, a, b, lvl) ==
  CASE f = "fork" -> [f |-> "fork", a |-> a, b |-> b, trig |-> <<TrigAt(lvl)>>]
    [] f \in {"switch", "switchf"} ->
         [f |-> "switch", cases |-> <<[cond |-> KeyCond(TrigAt(lvl)), a |-> a, brk |-> (f = "switch")],
                                      [cond |-> <<>>, a |-> b, brk |-> TRUE]>>]
    [] OTHER -> [f |-> f, a |-> a, b |-> b]
\* instantiate a shape: leaves numbered in pre-order from pos; seen = a placeholder occurred before
RECURSIVE Inst(_, _, _, _)
Inst(sh, pos, lvl, seen) ==
  IF sh[1] = "K" THEN [t |-> [f |-> "key", kc |-> KeyCodes[pos]], pos |-> pos + 1, seen |-> seen]
  ELSE IF sh[1] = "C"
  THEN [t |-> [f |-> "chord", g |-> pos, out |-> OutCodes[pos], two |-> ~seen], pos |-> pos + 1, seen |-> TRUE]
  ELSE LET l == Inst(sh[2], pos, lvl + 1, seen)
           r == Inst(sh[3], l.pos, lvl + 1, l.seen)
       IN [t |-> Mk(sh[1], l.t, r.t, lvl), pos |-> r.pos, seen |-> r.seen]
RECURSIVE ShapeTxt(_)
ShapeTxt(sh) == IF Len(sh) = 1 THEN sh[1] ELSE sh[1] \o "(" \o ShapeTxt(sh[2]) \o "," \o ShapeTxt(sh[3]) \o ")"

\* the four environments of the end-to-end runs: which of the first two trigger keys are active
EnvOf(ks) == [keys |-> ks, coords |-> <<>>, hk |-> <<>>, hi |-> <<>>, layers |-> <<0>>, dl |-> 0]
Envs4 == <<EnvOf(<<>>), EnvOf(<<TrigKeys[1]>>), EnvOf(<<TrigKeys[2]>>), EnvOf(<<TrigKeys[1], TrigKeys[2]>>)>>

\* a fork / switch wrapped in one of the other forms (the other member a leaf)
IsFS(sh) == Len(sh) = 3 /\ sh[1] \in Tops
Wrapped == {<<f, x, y>> : f \in Forms \ Tops, x \in {s \in Shapes(Depth) : IsFS(s)}, y \in LeafShapes}
           \cup {<<f, x, y>> : f \in Forms \ Tops, x \in LeafShapes, y \in {s \in Shapes(Depth) : IsFS(s)}}
TopShapes ==
  IF TMode = "full" THEN {<<f, x, y>> : f \in Tops, x \in Shapes(Depth), y \in Shapes(Depth)} \cup Wrapped
  ELSE {<<f, x, y>> : f \in Tops, x \in Shapes(Depth), y \in LeafShapes}
       \cup {<<f, x, y>> : f \in Tops, x \in LeafShapes, y \in Shapes(Depth)} \cup Wrapped

VARIABLES st
Init == st \in TopShapes
Next == UNCHANGED st
Probe ==
  LET t == Inst(st, 1, 0, FALSE).t
      acc == Admitted(t)
      sharp == acc /\ ~SwitchBeforeOthers(t) /\ \A i \in DOMAIN Envs4 : OrderedOk(t, Envs4[i])
  IN PrintT(<<"ATERM", ToJson([s |-> ShapeTxt(st), term |-> t, final |-> Final(t, Lay), chord |-> HasChord(t), acc |-> acc,
                               e2e |-> sharp, acs |-> TermOuts(t),
                               held |-> [i \in DOMAIN Envs4 |-> HeldOut(t, Envs4[i])]])>>)
=============================================================================
