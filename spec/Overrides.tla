--------------------------------- MODULE Overrides ---------------------------------
(***************************************************************************)
(* L1 (what the code does): transliteration of                              *)
(*   parser/src/cfg/key_override.rs                                          *)
(* as pure operators.  One operator per Rust function, same order of        *)
(* sub-steps.  All names are prefixed Ovr so that the module can be          *)
(* EXTENDed next to Layout.tla / Kanata.tla.                                 *)
(*                                                                         *)
(* An override (struct Override) is the record                               *)
(*   [ik : in_non_mod_osc, okc : out_non_mod_osc, im : in_mod_oscs,          *)
(*    om : out_mod_oscs]            (im, om: sequences, duplicates kept)     *)
(* A table (struct Overrides) is the sequence of overrides in the order      *)
(* they were given; overrides_by_osc[k] = the sub-sequence with ik = k.      *)
(* OverrideStates = [mods : set of bit indices, add : Seq, rem : Seq].       *)
(* bug: "none" or the name of a seeded design error (model mutants).         *)
(***************************************************************************)
EXTENDS Naturals, Sequences, FiniteSets

OvrInSeq(s, e) == \E i \in DOMAIN s : s[i] = e

\* src: key_override.rs:243-255 mask_for_key; the numbers are the OsCode discriminants of
\* KEY_LEFTCTRL, KEY_LEFTSHIFT, KEY_LEFTALT, KEY_LEFTMETA, KEY_RIGHTCTRL, KEY_RIGHTSHIFT,
\* KEY_RIGHTALT, KEY_RIGHTMETA (parser/src/keys/mod.rs)
OvrIsMod(osc) == osc \in {29, 42, 56, 125, 97, 54, 100, 126}
OvrBit(osc) == CASE osc = 29 -> 0 [] osc = 42 -> 1 [] osc = 56 -> 2 [] osc = 125 -> 3
                 [] osc = 97 -> 4 [] osc = 54 -> 5 [] osc = 100 -> 6 [] osc = 126 -> 7

\* src: key_override.rs:172-214 Override::try_new
OvrTryNew(ins, outs) ==
  LET inn == SelectSeq(ins, LAMBDA c : ~OvrIsMod(c))
      outn == SelectSeq(outs, LAMBDA c : ~OvrIsMod(c))
  IN IF Len(inn) # 1 \/ Len(outn) # 1 THEN [ok |-> FALSE]
     ELSE [ok |-> TRUE, ik |-> inn[1], okc |-> outn[1],
           im |-> SelectSeq(ins, OvrIsMod), om |-> SelectSeq(outs, OvrIsMod)]

\* text-level table <<[i |-> Seq, o |-> Seq], ...>> -> table (all entries must be valid)
OvrTableOk(tt) == \A n \in DOMAIN tt : OvrTryNew(tt[n].i, tt[n].o).ok
OvrTable(tt) == [n \in DOMAIN tt |-> OvrTryNew(tt[n].i, tt[n].o)]

\* src: key_override.rs:76-91 Overrides::new (grouping by in_non_mod_osc keeps the given order)
OvrFor(ovs, k) == SelectSeq(ovs, LAMBDA o : o.ik = k)

\* src: key_override.rs:216-222 Override::get_mod_mask
OvrModMask(o) == {OvrBit(o.im[i]) : i \in DOMAIN o.im}

OvrPushNew(s, x) == IF OvrInSeq(s, x) THEN s ELSE Append(s, x)
RECURSIVE OvrPushAll(_, _)
OvrPushAll(acc, xs) == IF xs = <<>> THEN acc ELSE OvrPushAll(OvrPushNew(acc, Head(xs)), Tail(xs))

\* src: key_override.rs:224-232 add_override_keys / 234-241 add_removed_keys
OvrAddOverrideKeys(o, add) == OvrPushNew(OvrPushAll(add, o.om), o.okc)
OvrAddRemovedKeys(o, rem, bug) ==
  IF bug = "partial_removal" THEN OvrPushNew(rem, o.ik)
  ELSE OvrPushNew(OvrPushAll(rem, o.im), o.ik)

\* src: key_override.rs:130-150: `.filter(stateful closure keeping strictly longer chords).last()`
\* returns the index of the selected override in ovds, 0 if none
RECURSIVE OvrPick(_, _, _, _, _, _)
OvrPick(ovds, i, mods, cur, last, bug) ==
  IF i > Len(ovds) THEN last
  ELSE LET o == ovds[i]
           size == Len(o.im) + 1
           longer == IF bug = "fewest_mods" THEN (cur = 0 \/ size < cur) ELSE size > cur
       IN IF OvrModMask(o) \subseteq mods /\ longer
          THEN OvrPick(ovds, i + 1, mods, size, i, bug)
          ELSE OvrPick(ovds, i + 1, mods, cur, last, bug)

\* src: key_override.rs:118-160 Overrides::update_keys
OvrUpdateKeys(ovs, osc, st, bug) ==
  LET ovds == OvrFor(ovs, osc) IN
  IF ovds = <<>> THEN st
  ELSE LET last == OvrPick(ovds, 1, st.mods, 0, 0, bug) IN
       IF last = 0 THEN st
       ELSE [st EXCEPT !.add = OvrAddOverrideKeys(ovds[last], @),
                       !.rem = OvrAddRemovedKeys(ovds[last], @, bug)]

\* src: key_override.rs:43-54 OverrideStates::update
OvrUpdate(ovs, st, osc, bug) ==
  IF OvrIsMod(osc) THEN [st EXCEPT !.mods = @ \cup {OvrBit(osc)}]
  ELSE OvrUpdateKeys(ovs, osc, st, bug)

RECURSIVE OvrScan(_, _, _, _)
OvrScan(ovs, st, kcs, bug) ==
  IF kcs = <<>> THEN st ELSE OvrScan(ovs, OvrUpdate(ovs, st, Head(kcs), bug), Tail(kcs), bug)

\* src: key_override.rs:37-41 cleanup
OvrClean == [mods |-> {}, add |-> <<>>, rem |-> <<>>]

\* src: key_override.rs:93-103 Overrides::override_keys
\* returns [keys |-> new kcs, st |-> OverrideStates after the call]; `st0` is the value of the
\* reused scratch space before the call (only relevant for the "no_cleanup" mutant)
OvrOverrideKeysSt(ovs, kcs, st0, bug) ==
  IF ovs = <<>> THEN [keys |-> kcs, st |-> st0]
  ELSE LET st == OvrScan(ovs, IF bug = "no_cleanup" THEN [st0 EXCEPT !.mods = {}] ELSE OvrClean, kcs, bug)
       IN [keys |-> SelectSeq(kcs, LAMBDA k : ~OvrInSeq(st.rem, k)) \o st.add, st |-> st]

OvrOverrideKeys(ovs, kcs) == OvrOverrideKeysSt(ovs, kcs, OvrClean, "none").keys

\* src: key_override.rs:66-68 removed_oscs, restricted to non-modifiers as both users do
\* (mark_overridden_nonmodkeys_for_eager_erasure 262-296, kanata/mod.rs:1089-1098)
OvrRemovedNonMods(st) == {st.rem[i] : i \in DOMAIN st.rem} \ {29, 42, 56, 125, 97, 54, 100, 126}
=============================================================================
