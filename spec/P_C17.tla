---------------------------------- MODULE P_C17 ----------------------------------
(***************************************************************************)
(* L2 monitor for C17: tap-dance performs exactly the action for the       *)
(* number of taps.  From the statement and docs/config.adoc (tap-dance,    *)
(* tap-dance-eager); tick calibration: DESIGN Appendix A.                   *)
(*                                                                         *)
(* params p: [k, T, outs : Seq(code) (one distinct otherwise-unused output  *)
(*            key per listed action), eager, others : Seq([c, o]), red]     *)
(*   or [tds : Seq(p)] for several tap-dance keys in one configuration      *)
(*   (output keys distinct over all of them): one sub-monitor per key, for   *)
(*   which every other key - tap-dance or not - is "another key".           *)
(*                                                                         *)
(* Accounting (everywhere): every `d outs[j]` consumes taps that were       *)
(* really typed (lazy: j of them, eager: one); when kanata is idle with     *)
(* nothing pending every typed tap has been consumed - a tap is never       *)
(* swallowed and no action appears for taps that were not typed.            *)
(* Sharp zone (the run starts while idle and quiet): the run is resolved on  *)
(* the documented tick with exactly the action for the number of taps       *)
(* counted by then; a tap whose press is seen before the window closes      *)
(* extends the run and restarts the window; another key's press or the end  *)
(* of the list ends it at once; the chosen action stays pressed until the   *)
(* final release.                                                           *)
(* Eager, past the end: "the count ends when ... the list is exhausted":    *)
(* the tap after the one that performed the last listed action starts a new *)
(* dance (action 1), the one after it performs action 2, ...                *)
(* A dance also starts sharp when kanata is not idle only because of        *)
(* another key's eager dance (flow: since the last idle tick every input    *)
(* arrived alone between two ticks and no lazy dance was begun, so nothing  *)
(* is queued or waiting when the press arrives): the press of a second      *)
(* tap-dance key ends the first key's count and starts its own.             *)
(*                                                                         *)
(* Listed actions of other kinds than a plain key (optional p.kinds, one    *)
(* entry per listed action, from the description; outs[j] is then the       *)
(* entry's marker):                                                         *)
(*   "key"    the output key goes down when the action is performed and      *)
(*            stays down until the final release (as before);                *)
(*   "multi"  (multi k1 k2 ..): as "key" with marker k1; p.also[j] = the     *)
(*            further keys, which go down on the same tick as the marker;    *)
(*   "macro"  (macro k1 k2 ..): types its keys on its own; marker = d k1,    *)
(*            which appears one tick after a key action would (calibrated),  *)
(*            nothing is held; p.also[j] = the further keys it types, each   *)
(*            only after the marker of a performance;                        *)
(*   "silent" XX, release-key of a key that is not down, layer-while-held:   *)
(*            no key output (outs[j] = 0): in the sharp zone the action for  *)
(*            n taps is observable through what does NOT come out on its     *)
(*            tick and through the next entry; outside the sharp zone a      *)
(*            typed tap may have been consumed without a trace, so the       *)
(*            `swallowed` rule only resets the count there.                  *)
(***************************************************************************)
EXTENDS Obs

OutOf(p, c) == LET I == {i \in DOMAIN p.others : p.others[i].c = c} IN
               IF I = {} THEN 0 - 1 ELSE p.others[CHOOSE i \in I : TRUE].o
OutIdx(p, o) == LET I == {i \in DOMAIN p.outs : p.outs[i] = o} IN
                IF I = {} THEN 0 ELSE CHOOSE i \in I : TRUE
MaxTaps(p) == Len(p.outs)
RelCap(p) == Len(p.outs) + 2
Depth(p) == IF "depth" \in DOMAIN p THEN p.depth ELSE MaxTaps(p) + 2
Kind(p, j) == IF "kinds" \in DOMAIN p THEN p.kinds[j] ELSE "key"
Lagged(p, j) == Kind(p, j) = "macro"
Silent(p, j) == Kind(p, j) = "silent"
HeldKind(p, j) == Kind(p, j) \in {"key", "multi"}
HasSilent(p) == \E j \in DOMAIN p.outs : Silent(p, j)
Also(p, j) == IF "also" \in DOMAIN p THEN p.also[j] ELSE <<>>
\* the further keys of macro entries: <<entry index, position>> of code o
AlsoOfMacro(p, o) == {j \in DOMAIN p.outs : Lagged(p, j) /\ \E i \in DOMAIN Also(p, j) : Also(p, j)[i] = o}
DownIdxs(p, out) == {OutIdx(p, out[i][2]) : i \in {i \in DOMAIN out : out[i][1] = "d"}} \ {0}
DownCodes(out) == {out[i][2] : i \in {i \in DOMAIN out : out[i][1] = "d"}}

SubInit(p) ==
  [p |-> p,
   taps |-> 0,        \* typed presses of k not yet consumed by an action (= sum of grp)
   grp |-> <<>>,      \* the unconsumed taps in groups: a group ends at another key's press
   sepNext |-> FALSE, \* the next press of k starts a new group
   run |-> "none",    \* sharp run: "none" | "cnt" | "held"
   n |-> 0,           \* taps counted in the sharp run
   unc |-> 0,         \* presses of k arrived but not yet seen by the run (in arrival order, before any other press)
   oth |-> FALSE,     \* another key's press has arrived during the run
   rem |-> 0,         \* ticks until the window closes (resolution tick when it reaches 0)
   el |-> 0,          \* ticks since the run's first press arrived / since last k press (eager), capped
   rels |-> 0,        \* releases of k arrived during the run (capped at RelCap; compared with the run length
                      \*   under the same cap: a run longer than the list may count more taps than the old cap)
   cur |-> 0,         \* index of the action currently held by the run (lazy sharp), 0 = none
   pos |-> 0,         \* eager: position in the run of the last tap (sharp chain), 0 = fresh
   chain |-> FALSE,   \* eager: the chain of taps is in sync since a sharp start
   succ |-> 0,        \* eager: taps in succession so far (each within T of the previous, no other key between),
                      \*   counted across the end of the list, capped at Depth(p): how deep the composition explores
   intr |-> FALSE,    \* eager: the current succession began by interrupting another key's dance (class marker only)
   clean |-> FALSE,   \* eager: the succession started sharp and every input since arrived alone between two ticks
                      \*   (then every dance in it starts sharp through `flow`, whatever the idle flag says)
   newk |-> 0,        \* taps that joined the last group since the last tick
   due |-> 0,         \* index of a "macro" entry performed on the last tick: its marker appears on this one
   perf |-> {},       \* "macro" entries performed so far since the last quiet point (their further keys may be typed)
   gapIn |-> 0, lastIdle |-> TRUE, quiet |-> p.red + 1, err |-> ""]

AddTap(m) == IF m.grp = <<>> \/ m.sepNext
             THEN [m EXCEPT !.grp = Append(@, 1), !.sepNext = FALSE, !.taps = @ + 1, !.newk = 1]
             ELSE [m EXCEPT !.grp[Len(m.grp)] = @ + 1, !.taps = @ + 1, !.newk = @ + 1]
RECURSIVE DropTo(_, _)
DropTo(grp, j) == IF grp = <<>> THEN <<>> ELSE IF grp[1] >= j THEN grp ELSE DropTo(Tail(grp), j)
RECURSIVE GSum(_)
GSum(grp) == IF grp = <<>> THEN 0 ELSE grp[1] + GSum(Tail(grp))
\* consume taps of the first group for `d outs[j]`: <<ok, m'>>
\* A list with silent entries (lazy form): a dance that ended with a silent action leaves no trace, and kanata need not
\* become idle before the next dance is resolved; so no claim is made about which earlier groups are still unconsumed:
\* the leading groups too small for action j are taken as resolved silently and the first group with >= j taps accounts
\* for it (a dance counts the taps of one group only, and dances are resolved in order).  Taps that stay over-counted
\* only make the rule more permissive; they are written off at the next idle point.
Consume(m0, j) ==
  LET p == m0.p
      g == IF ~p.eager /\ HasSilent(p) THEN DropTo(m0.grp, j) ELSE m0.grp
      m == IF g = m0.grp THEN m0 ELSE [m0 EXCEPT !.grp = g, !.taps = GSum(g)] IN
  IF m.grp = <<>> THEN <<FALSE, m0>>
  ELSE IF p.eager
  THEN <<TRUE, [m EXCEPT !.grp = IF m.grp[1] = 1 THEN Tail(@) ELSE [@ EXCEPT ![1] = @ - 1], !.taps = @ - 1]>>
  ELSE IF m.grp[1] < j THEN <<FALSE, m>>
  \* "the last one if N reaches the list length": a full-length run takes the whole group
  \* (a macro's marker shows one tick after the action was performed: the taps typed since the last tick arrived after
  \* the list was exhausted and belong to the next dance)
  ELSE IF j = MaxTaps(p) /\ Lagged(p, j) /\ Len(m.grp) = 1 /\ OMin(m.newk, m.grp[1] - j) > 0
  THEN LET keep == OMin(m.newk, m.grp[1] - j) IN <<TRUE, [m EXCEPT !.grp = <<keep>>, !.taps = keep]>>
  ELSE IF j = MaxTaps(p) THEN <<TRUE, [m EXCEPT !.grp = Tail(@), !.taps = @ - m.grp[1]]>>
  ELSE <<TRUE, [m EXCEPT !.grp = IF m.grp[1] = j THEN Tail(@) ELSE [@ EXCEPT ![1] = @ - j], !.taps = @ - j]>>

\* g = [flow, intr]: what the composition knows when the input arrives (see MonIn)
SubIn(m, r, g) ==
  IF m.err # "" THEN m
  ELSE IF r.e \notin {"d", "u"} THEN Fail(m, "C17: input kind outside the instance")
  ELSE
    LET p == m.p
        mq == [m EXCEPT !.quiet = 0, !.gapIn = @ + 1]
        m0 == IF r.c = p.k /\ r.e = "d" THEN AddTap(mq)
              ELSE IF r.c # p.k /\ r.e = "d" THEN [mq EXCEPT !.sepNext = TRUE] ELSE mq
        inSync == m.gapIn = 0
        startSharp == (m.lastIdle /\ m.quiet > p.red /\ m.taps = 0 /\ inSync)
                      \/ (g.flow /\ m.taps = 0 /\ inSync)
    IN IF r.c = p.k
       THEN IF r.e = "d"
            THEN IF p.eager
                 THEN \* eager: position of this tap in the chain
                      \* (the list exhausted, the timeout passed or another key pressed: a new dance, position 1)
                      LET cont == m.chain /\ inSync /\ m.pos > 0 /\ m.pos < MaxTaps(p) /\ m.el < p.T
                          insucc == m.pos > 0 /\ m.el < p.T IN
                      [m0 EXCEPT !.chain = IF cont THEN TRUE ELSE startSharp,
                                 !.pos = IF cont THEN m.pos + 1 ELSE 1,
                                 !.succ = IF insucc THEN OMin(m.succ + 1, Depth(p)) ELSE 1,
                                 !.intr = IF insucc THEN m.intr ELSE g.intr,
                                 !.clean = IF insucc THEN m.clean /\ inSync ELSE startSharp,
                                 !.el = 0]
                 ELSE IF m.run = "cnt" THEN [m0 EXCEPT !.unc = IF m.oth THEN @ ELSE @ + 1]
                 ELSE IF m.run = "none" /\ startSharp
                 THEN [m0 EXCEPT !.run = "cnt", !.n = 1, !.unc = 0, !.oth = FALSE,
                                 !.rem = 1 + p.T, !.el = 0, !.rels = 0, !.cur = 0]
                 ELSE m0
            ELSE [m0 EXCEPT !.rels = IF m.run # "none" THEN OMin(@ + 1, RelCap(p)) ELSE @,
                            !.chain = m.chain /\ inSync, !.clean = m.clean /\ inSync]
       ELSE IF r.e = "d"
       THEN [m0 EXCEPT !.oth = TRUE, !.chain = FALSE, !.pos = 0, !.succ = 0, !.intr = FALSE, !.clean = FALSE]
       ELSE [m0 EXCEPT !.chain = m.chain /\ inSync, !.clean = m.clean /\ inSync]

RECURSIVE Scan(_, _, _, _)
\* must = the action indices whose marker the sharp reference requires on this tick; claim = no other marker is allowed
\* before those (claim with must = {}: none allowed)
Scan(m, out, must, claim) ==
  IF out = <<>> \/ m.err # "" THEN m
  ELSE
    LET e == Head(out)
        rest == Tail(out)
        p == m.p
        j == OutIdx(p, e[2])
    IN IF j = 0
       THEN IF e[1] = "d" /\ AlsoOfMacro(p, e[2]) # {} /\ AlsoOfMacro(p, e[2]) \cap m.perf = {}
            THEN Fail(m, "C17: a key of a listed macro was typed although that macro was not performed")
            ELSE Scan(m, rest, must, claim)
       ELSE IF e[1] = "d"
       THEN LET c == Consume(m, j) IN
            IF ~c[1]
            THEN Fail(m, "C17: an action was performed for taps that were not typed")
            ELSE IF claim /\ j \notin must
            THEN Fail(m, "C17: wrong action for the number of taps (or performed on the wrong tick)")
            ELSE IF ~(\A i \in DOMAIN Also(p, j) : Kind(p, j) # "multi" \/ Also(p, j)[i] \in DownCodes(out))
            THEN Fail(m, "C17: a listed multi action was performed in part only")
            ELSE Scan([c[2] EXCEPT !.cur = IF ~p.eager /\ m.run = "cnt" /\ HeldKind(p, j) THEN j ELSE @,
                                   !.perf = IF Lagged(p, j) THEN @ \cup {j} ELSE @],
                      rest, must \ {j}, claim /\ must \ {j} # {})
       ELSE IF e[1] = "u" /\ ~p.eager /\ m.run = "held" /\ m.cur = j /\ m.rels < OMin(m.n, RelCap(p))
       THEN Fail(m, "C17: the chosen action was released before the final release of the key")
       ELSE Scan(m, rest, must, claim)

SubTick(m, out, idle, cb) ==
  IF m.err # "" THEN m
  ELSE
    LET p == m.p
        T == m.el + 1
        \* ---- lazy sharp reference: does the run resolve on this tick, and with how many taps?
        counting == ~p.eager /\ m.run = "cnt"
        rem1 == IF counting THEN m.rem - 1 ELSE 0
        seen == IF counting /\ T >= 2 /\ rem1 > 0 THEN m.n + m.unc ELSE m.n
        resolveNow == counting /\ T >= 2 /\ (rem1 <= 0 \/ m.oth \/ seen >= MaxTaps(p))
        nFinal == IF rem1 <= 0 THEN m.n ELSE seen
        expLazy == IF resolveNow THEN OMin(nFinal, MaxTaps(p)) ELSE 0
        \* ---- eager sharp reference: a tap that arrived in sync is performed on the next tick
        expEager == IF p.eager /\ m.chain /\ m.gapIn = 1 /\ m.el = 0 /\ m.pos > 0 THEN m.pos ELSE 0 - 1
        expJ == IF p.eager THEN expEager ELSE IF counting THEN expLazy ELSE 0 - 1
        \* kinds: a key / multi action shows on this tick, a macro's marker on the next one, a silent one never
        silentNow == expJ > 0 /\ Silent(p, expJ)
        laggedNow == expJ > 0 /\ Lagged(p, expJ)
        imm == expJ > 0 /\ ~silentNow /\ ~laggedNow
        must == (IF imm THEN {expJ} ELSE {}) \cup (IF m.due > 0 THEN {m.due} ELSE {})
        m1 == Scan(m, out, must, expJ >= 0)
        resolved == counting /\ (m1.cur # 0 \/ (resolveNow /\ (silentNow \/ laggedNow)))
        idlePoint == idle /\ m.lastIdle /\ m.gapIn = 0
        m2a == IF m1.err # "" THEN m1
              ELSE IF counting /\ resolveNow /\ ~resolved
              THEN Fail(m1, "C17: the run was not resolved on the tick the window closed")
              ELSE IF p.eager /\ imm /\ m1.taps = m.taps
              THEN Fail(m1, "C17: an eager tap was not performed immediately")
              ELSE IF must \ DownIdxs(p, out) # {}
              THEN Fail(m1, IF p.eager THEN "C17: an eager tap was not performed immediately"
                            ELSE "C17: the chosen action was not performed on its tick")
              \* idle = nothing queued, nothing waiting: every typed tap must have been consumed
              ELSE IF idlePoint /\ m1.taps > 0 /\ ~HasSilent(p) /\ m.due = 0 /\ ~laggedNow
              THEN Fail(m1, "C17: a typed tap was swallowed (no action accounts for it)")
              ELSE m1
        \* a silent action performed by the sharp reference consumes its taps without a trace; outside the sharp zone
        \* the taps a silent entry may have consumed are written off at the next idle point
        m2 == IF m2a.err # "" THEN m2a
              ELSE LET ms == IF silentNow THEN Consume(m2a, expJ)[2] ELSE m2a IN
                   IF idlePoint /\ HasSilent(p) /\ m.due = 0 /\ ~laggedNow
                   THEN [ms EXCEPT !.taps = 0, !.grp = <<>>, !.sepNext = FALSE] ELSE ms
        \* bookkeeping of the sharp run
        m3 == IF ~counting THEN m2
              ELSE IF resolved /\ m1.cur = 0
              THEN [m2 EXCEPT !.run = "none", !.n = 0, !.unc = 0, !.cur = 0]
              ELSE IF resolved
              THEN [m2 EXCEPT !.run = "held", !.n = nFinal, !.unc = 0]
              ELSE [m2 EXCEPT !.n = seen, !.unc = IF seen > m.n THEN 0 ELSE m.unc,
                              !.rem = IF seen > m.n THEN p.T ELSE rem1]
        m4 == IF m3.run = "held" /\ ~(p.outs[m3.cur] \in DownAfter(out, {})) /\ m3.rels >= OMin(m3.n, RelCap(p))
                 /\ \E i \in DOMAIN out : out[i] = <<"u", p.outs[m3.cur]>>
              THEN [m3 EXCEPT !.run = "none", !.cur = 0] ELSE m3
        m5 == IF m4.run = "held" /\ idle /\ m.lastIdle /\ m.gapIn = 0 THEN [m4 EXCEPT !.run = "none", !.cur = 0] ELSE m4
        m6 == [m5 EXCEPT !.el = OMin(T, p.T + 2), !.gapIn = 0, !.lastIdle = idle,
                         !.due = IF m5.err = "" /\ laggedNow THEN expJ ELSE 0, !.newk = 0,
                         !.perf = IF idlePoint /\ out = <<>> THEN {} ELSE @,
                         !.quiet = IF out = <<>> THEN OMin(m5.quiet + 1, p.red + 1) ELSE 0]
    \* eager: once the timeout has passed the chain is over (the next tap starts a new dance whatever the position was)
    IN IF p.eager /\ T >= p.T THEN [m6 EXCEPT !.chain = FALSE, !.pos = 0, !.succ = 0, !.intr = FALSE, !.clean = FALSE] ELSE m6

SubQuiet(m, idle) == m.run = "none" /\ m.due = 0 /\ m.perf = {} /\ m.taps = 0 /\ m.lastIdle = idle /\ m.quiet > m.p.red /\ m.gapIn = 0
                     /\ m.el >= m.p.T + 2

\* ---- the composition: one sub-monitor per tap-dance key -------------------------------------
ParamsOf(p) == IF "tds" \in DOMAIN p THEN p.tds ELSE <<p>>
FirstErr(subs) == LET I == {i \in DOMAIN subs : subs[i].err # ""} IN
                  IF I = {} THEN "" ELSE subs[CHOOSE i \in I : \A j \in I : i <= j].err
\* a dance of key j is in progress (its count is still open as far as the inputs tell)
Dancing(s) == IF s.p.eager THEN s.pos > 0 /\ s.el < s.p.T ELSE s.run = "cnt"

MonInit(p) ==
  LET ps == ParamsOf(p) IN
  [subs |-> [i \in DOMAIN ps |-> SubInit(ps[i])],
   flow |-> TRUE,     \* since the last idle tick every input arrived alone between two ticks and no lazy dance was begun
   gin |-> 0,         \* inputs since the last tick (capped at 2)
   err |-> ""]

MonIn(m, r) ==
  IF m.err # "" THEN m
  ELSE
    LET subs == [i \in DOMAIN m.subs |->
                   SubIn(m.subs[i], r, [flow |-> m.flow /\ m.gin = 0,
                                        intr |-> \E j \in DOMAIN m.subs : j # i /\ Dancing(m.subs[j])])]
        lazyPress == r.e = "d" /\ \E i \in DOMAIN m.subs : m.subs[i].p.k = r.c /\ ~m.subs[i].p.eager
    IN [m EXCEPT !.subs = subs, !.err = FirstErr(subs), !.gin = OMin(@ + 1, 2),
                 !.flow = @ /\ m.gin = 0 /\ ~lazyPress]

MonTick(m, out, idle, cb) ==
  IF m.err # "" THEN m
  ELSE LET subs == [i \in DOMAIN m.subs |-> SubTick(m.subs[i], out, idle, cb)] IN
       [m EXCEPT !.subs = subs, !.err = FirstErr(subs), !.gin = 0, !.flow = IF idle THEN TRUE ELSE @]

RECURSIVE MonSilent(_, _, _, _)
MonSilent(m, n, idle, cb) ==
  IF n = 0 \/ m.err # "" THEN m
  ELSE IF (\A i \in DOMAIN m.subs : SubQuiet(m.subs[i], idle)) /\ m.gin = 0 /\ (idle => m.flow)
  THEN m
  ELSE MonSilent(MonTick(m, <<>>, idle, cb), n - 1, idle, cb)

\* ---- helpers for the generated instances -----------------------------------------------------
\* histories that pile up more unconsumed taps than one full list + 1 are not expanded further
TapsBounded(m) == \A i \in DOMAIN m.subs : m.subs[i].taps <= MaxTaps(m.subs[i].p) + 1
\* class coverage: the press just typed is (a) tap L+1, L+2, ... of an eager succession (the count restarted after
\* the list was exhausted) or (b) tap >= 2 of an eager dance that began by interrupting another key's dance
CoverClass(m) == \E i \in DOMAIN m.subs :
                   LET s == m.subs[i] IN
                   s.p.eager /\ s.el = 0 /\ s.gapIn = 1 /\ s.chain /\ s.clean
                   /\ (s.succ > MaxTaps(s.p) \/ (s.intr /\ s.pos >= 2))
=============================================================================
