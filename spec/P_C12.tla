---------------------------------- MODULE P_C12 ----------------------------------
(***************************************************************************)
(* L2 monitor for C12 part 2: the defseq *sequence mode* at run time.       *)
(* Written from the statement and docs/config.adoc ("Sequences",            *)
(* "Overlapping keys in any order", sequence-timeout, sequence-input-mode);  *)
(* tick calibration: DESIGN Appendix A (an input is processed one per tick   *)
(* in arrival order; SeqEnd = t_proc(last key) + T - 1).                     *)
(*                                                                         *)
(* params p:                                                                 *)
(*   ldr    code of the key carrying `sldr` (0: none)                        *)
(*   T      sequence-timeout                                                 *)
(*   mode   "hidden-suppressed" | "hidden-delay-type" | "visible-backspaced" *)
(*   always sequence-always-on                                               *)
(*   defs   Seq([items |-> definition (SeqTab shape), out |-> code]) : each  *)
(*          definition's virtual key outputs one distinct otherwise-unused   *)
(*          key `out`                                                        *)
(*   keys   the plain keys of the instance (each mapped to itself)           *)
(*                                                                         *)
(* Reference (sharp zone, `sync`): from a clean point (kanata idle, nothing  *)
(* held) the monitor replays the inputs one per tick in arrival order and    *)
(* keeps what has been typed since the mode was entered: per key its code,   *)
(* the modifiers held when it went down, and how many of the keys typed just *)
(* before it were still down.  After each typed key:                         *)
(*   EXACT  what was typed is a defined sequence and not also the beginning  *)
(*          of another (an O-(..) group: its keys                            *)
(*          in any order, all down before any of them goes up; S-(..): the   *)
(*          modifier down throughout)                                        *)
(*          => the mode is left and the virtual key is tapped exactly once   *)
(*             (S1); visible-backspaced: one backspace tap per non-modifier  *)
(*             typed key, now; hidden modes: none of the typed keys pressed  *)
(*   PREFIX it is the beginning of a defined sequence => the mode goes on    *)
(*   DEAD   no defined sequence contains the keys typed last, not even       *)
(*          ignoring modifiers / overlap and forgetting the first keys       *)
(*          => the mode is left, no virtual key (S3); hidden-delay-type      *)
(*             types the saved keys as taps, now; hidden-suppressed nothing  *)
(*   anything else (the implementation backtracks in ways the documentation  *)
(*          does not pin down) => soft: no claim until the next clean point  *)
(* T ticks without a typed key end the mode like DEAD (S3, sharp tick).      *)
(* While the mode is on, hidden modes press no typed key (S4); when it is    *)
(* off a pressed key comes out on the tick it is processed (mode left).      *)
(* Everywhere (S2): a virtual key of a sequence is pressed only if the keys  *)
(* of that sequence, in a permitted order, were pressed consecutively        *)
(* shortly before.                                                            *)
(***************************************************************************)
EXTENDS Obs, SeqTab

C12Bspc == 14
C12PendCap == 8
C12IsMod(c) == StModMask(c) # 0

RECURSIVE C12Sum(_)
C12Sum(S) == IF S = {} THEN 0 ELSE LET x == CHOOSE v \in S : TRUE IN x + C12Sum(S \ {x})
C12Mask(held) == C12Sum({StModMask(k) : k \in held} \ {0})

\* token strings -> key codes without the overlap markers
C12Codes(s) == LET t == SelectSeq(s, LAMBDA x : x # StMarker) IN [i \in DOMAIN t |-> t[i] % 1024]
C12IsSub(s, t) == \E k \in 0..(Len(t) - Len(s)) : SubSeq(t, k + 1, k + Len(s)) = s

C12Min(a, b) == IF a < b THEN a ELSE b

\* does what was typed (entries [c, mm, h, rel]) spell the item list?  "no" | "prefix" | "exact"
RECURSIVE C12Match(_, _)
C12Match(items, ty) ==
  IF ty = <<>> THEN IF items = <<>> THEN "exact" ELSE "prefix"
  ELSE IF items = <<>> THEN "no"
  ELSE LET it == Head(items) IN
       CASE it.t = "k" ->
              IF StFold(ty[1].c) = StFold(it.c) /\ ty[1].mm = 0 THEN C12Match(Tail(items), Tail(ty)) ELSE "no"
         [] it.t = "m" ->
              LET want == CHOOSE w \in StItemEnc(it) : TRUE
                  n == Len(want)
                  k == C12Min(n, Len(ty))
              IN IF \A i \in 1..k : StFold(ty[i].c) + ty[i].mm = want[i]
                 THEN IF Len(ty) < n THEN "prefix" ELSE C12Match(Tail(items), SubSeq(ty, n + 1, Len(ty)))
                 ELSE "no"
         [] it.t = "o" ->
              LET n == Len(it.ks)
                  k == C12Min(n, Len(ty))
              \* all keys of the group down before any goes up; the keys typed before the group are up when it
              \* begins (whether a key that is still down counts as part of the chord is not documented: no claim)
              IN IF /\ \A i \in 1..k : StFold(ty[i].c) \in {StFold(x) : x \in StSetOf(it.ks)} /\ ty[i].mm = 0 /\ ty[i].h >= i - 1
                    /\ ty[1].h = 0
                    /\ Cardinality({StFold(ty[i].c) : i \in 1..k}) = k
                 THEN IF Len(ty) < n THEN "prefix" ELSE C12Match(Tail(items), SubSeq(ty, n + 1, Len(ty)))
                 ELSE "no"

MonInit(p) ==
  LET cs == [d \in DOMAIN p.defs |-> {C12Codes(e) : e \in StEncode(p.defs[d].items)}]
      maxlen == LET L == {Len(s) : s \in UNION {cs[d] : d \in DOMAIN cs}} IN
                IF L = {} THEN 1 ELSE CHOOSE x \in L : \A y \in L : x >= y
  IN [p |-> p,
      cs |-> cs,                 \* per definition: its permitted orders as code strings
      win |-> maxlen + (IF "slack" \in DOMAIN p THEN p.slack ELSE 8),    \* S2 window: presses that may arrive meanwhile
      sync |-> TRUE,             \* sharp zone
      pend |-> <<>>,             \* inputs <<"d"|"u", code>> and virtual-key events <<"vd", definitions>>, <<"vu", 0>>
                                 \* not yet processed, in order
      phys |-> {},               \* keys physically down (inputs seen)
      held |-> {},               \* keys whose press has been processed and whose release has not
      stale |-> {},              \* keys consumed by a completed sequence that are still down
      osd |-> {},                \* keys the OS sees down
      act |-> FALSE,             \* sequence mode on (reference)
      ttl |-> 0,
      cm |-> p.mode, ct |-> p.T,   \* mode / timeout in force
      ty |-> <<>>,               \* typed since the mode was entered
      owed |-> {},               \* definitions one of whose virtual keys must now be tapped once
      tapped |-> {},             \* output keys of the virtual keys tapped since the mode was last entered (diagnostics)
      recent |-> <<>>,           \* soft zone only: the last key presses seen (codes), for S2
      err |-> ""]

\* p.s2 = FALSE switches the soft-zone judgement (S2 on a window of key presses) off: used in the
\* model-checking instances, where the window would multiply the state space
\* leaders: p.ldr (mode p.mode, timeout p.T) and optionally p.ldr2 = [c, mode, T]
C12Ldr2(p) == IF "ldr2" \in DOMAIN p THEN p.ldr2.c ELSE 0
C12IsLdr(p, c) == c # 0 /\ (c = p.ldr \/ c = C12Ldr2(p))
C12LdrMode(p, c) == IF c = p.ldr THEN p.mode ELSE p.ldr2.mode
C12LdrT(p, c) == IF c = p.ldr THEN p.T ELSE p.ldr2.T
C12S2On(m) == IF "s2" \in DOMAIN m.p THEN m.p.s2 ELSE TRUE
VkOuts(m) == {m.p.defs[d].out : d \in DOMAIN m.p.defs}
KeySet(m) == SeqToSet(m.p.keys)
HiddenMode(m) == m.cm # "visible-backspaced"

\* leaving the sharp zone: from here on only S2 is judged, on the key presses seen (those typed so far, then
\* every further press); a virtual key that is already due stays due
C12GoSoft(m) == [m EXCEPT !.sync = FALSE, !.pend = <<>>, !.act = FALSE, !.ty = <<>>, !.ttl = 0, !.held = {}, !.stale = {},
                          !.tapped = {}, !.cm = m.p.mode, !.ct = m.p.T,
                          !.owed = IF C12S2On(m) THEN @ ELSE {},
                          !.recent = IF ~C12S2On(m) THEN <<>> ELSE
                                     LET a == [i \in DOMAIN m.ty |-> m.ty[i].c] \o
                                              (LET q == SelectSeq(m.pend, LAMBDA x : x[1] = "d" /\ ~C12IsLdr(m.p, x[2])) IN
                                               [i \in DOMAIN q |-> q[i][2]])
                                     IN IF Len(a) > m.win THEN SubSeq(a, Len(a) - m.win + 1, Len(a)) ELSE a]

MonIn(m, r) ==
  IF m.err # "" THEN m
  ELSE IF r.e = "r"
  \* an OS repeat of a held key is answered at once (r.out).  S4: while a hidden mode is on, the OS must not see a
  \* typed key go down - a repeat may only re-send keys the OS already sees down
  THEN LET e == Eff(r.out, m.osd)
           downs == Codes(KeyDowns(e.eff))
           m1 == [m EXCEPT !.osd = e.down]
       IN IF m.sync /\ m.act /\ HiddenMode(m) /\ \E i \in DOMAIN downs : downs[i] \in KeySet(m)
          THEN Fail(m1, "C12 S4: an OS repeat of a typed key reached the OS while a hidden sequence was in progress")
          ELSE m1
  ELSE IF r.e \notin {"d", "u"} THEN C12GoSoft(m)
  ELSE
    LET m1 == [m EXCEPT !.phys = IF r.e = "d" THEN @ \cup {r.c} ELSE @ \ {r.c},
                        !.recent = IF ~m.sync /\ C12S2On(m) /\ r.e = "d" /\ ~C12IsLdr(m.p, r.c)
                                   THEN LET a == Append(@, r.c) IN
                                        IF Len(a) > m.win THEN SubSeq(a, Len(a) - m.win + 1, Len(a)) ELSE a
                                   ELSE @]
    IN IF ~m.sync THEN m1
       ELSE IF Len(m.pend) >= C12PendCap \/ (~C12IsLdr(m.p, r.c) /\ r.c \notin KeySet(m))
       THEN LET g == C12GoSoft(m1) IN
            IF C12S2On(m) /\ r.e = "d" /\ ~C12IsLdr(m.p, r.c) THEN [g EXCEPT !.recent = Append(@, r.c)] ELSE g
       ELSE [m1 EXCEPT !.pend = Append(@, <<r.e, r.c>>)]

\* ---- the reference step for one processed event -------------------------------------------
\* result: [m, expK (typed-key downs expected on this tick, in order), expB (backspace taps),
\*          expV ({} = no virtual key may go down; else exactly one down of a key in the set), soft]
\* cm / ct: the input mode and timeout in force (those of the leader that entered the mode)
C12Enter(m, mode, T) == [m EXCEPT !.act = TRUE, !.ty = <<>>, !.ttl = T, !.tapped = {}, !.cm = mode, !.ct = T]
C12Leave(m) == [m EXCEPT !.act = FALSE, !.ty = <<>>, !.ttl = 0]
TyCodes(m) == [i \in DOMAIN m.ty |-> m.ty[i].c]

LooseAlive(m, ty) ==
  LET codes == [i \in DOMAIN ty |-> StFold(ty[i].c)] IN
  \E k \in DOMAIN codes : \E d \in DOMAIN m.cs : \E e \in m.cs[d] :
     LET s == SubSeq(codes, k, Len(codes)) IN Len(s) <= Len(e) /\ SubSeq(e, 1, Len(s)) = s

C12Press(m0, c) ==
  LET ma == IF m0.p.always /\ ~m0.act THEN C12Enter(m0, m0.p.mode, m0.p.T) ELSE m0
      m == [ma EXCEPT !.held = @ \cup {c}]
  IN IF ~m.act
     THEN [m |-> m, expK |-> <<c>>, expB |-> 0, soft |-> FALSE]
     ELSE
       LET nheld == LET I == {i \in DOMAIN m.ty : \A j \in i..Len(m.ty) : ~m.ty[j].rel} IN Cardinality(I)
           ent == [c |-> c, mm |-> C12Mask(m.held), h |-> nheld, rel |-> FALSE]
           ty == Append(m.ty, ent)
           res == [d \in DOMAIN m.p.defs |-> C12Match(m.p.defs[d].items, ty)]
           ex == {d \in DOMAIN res : res[d] = "exact"}
           pr == {d \in DOMAIN res : res[d] = "prefix"}
           vis == ~HiddenMode(m)
           codes == [i \in DOMAIN ty |-> ty[i].c]
           shown == IF vis THEN <<c>> ELSE <<>>
           mt == [m EXCEPT !.ty = ty, !.ttl = m.ct]
       IN IF ex # {} /\ pr # {}
          \* a defined sequence, and the beginning of a longer one (possible with O-(..) groups although the
          \* table is prefix-free): whether the shorter one fires now or when the keys go up is not documented
          THEN [m |-> mt, expK |-> <<>>, expB |-> 0, soft |-> TRUE]
          ELSE IF ex # {}
          THEN [m |-> [C12Leave(mt) EXCEPT !.owed = @ \cup ex, !.pend = @ \o <<<<"vd", ex>>, <<"vu", 0>>>>,
                                           !.stale = @ \cup ({codes[i] : i \in DOMAIN codes} \cap m.held)],
                expK |-> shown,
                expB |-> IF vis THEN Cardinality({i \in DOMAIN ty : ~C12IsMod(ty[i].c)}) ELSE 0,
                soft |-> FALSE]
          ELSE IF pr # {} THEN [m |-> mt, expK |-> shown, expB |-> 0, soft |-> FALSE]
          ELSE IF ~LooseAlive(m, ty)
          THEN [m |-> C12Leave(mt),
                expK |-> IF m.cm = "hidden-delay-type" THEN codes ELSE shown,
                expB |-> 0, soft |-> FALSE]
          ELSE [m |-> mt, expK |-> <<>>, expB |-> 0, soft |-> TRUE]

C12Release(m, c) ==
  [m EXCEPT !.held = @ \ {c}, !.stale = @ \ {c},
            !.ty = [i \in DOMAIN @ |-> IF @[i].c = c THEN [@[i] EXCEPT !.rel = TRUE] ELSE @[i]]]

\* docs (sequence-input-mode): "For visible-backspaced and hidden-delay-type, a sequence leader input will be ignored
\* if a sequence is already active. ... a sequence leader input using hidden-suppressed will reset the key sequence":
\* it is the mode of the leader just pressed that decides
C12Leader(m, c) ==
  IF m.stale # {} THEN [m |-> m, soft |-> TRUE]     \* consumed keys still down: what they count as is not documented
  ELSE IF ~m.act THEN [m |-> C12Enter(m, C12LdrMode(m.p, c), C12LdrT(m.p, c)), soft |-> FALSE]
  \* a restart that changes a delay-type / visible sequence in progress into a hidden-suppressed one: what happens to the
  \* keys saved / shown so far is not documented (they are dropped) - judged like any restart
  ELSE IF C12LdrMode(m.p, c) = "hidden-suppressed"
  THEN [m |-> C12Enter(m, C12LdrMode(m.p, c), C12LdrT(m.p, c)), soft |-> FALSE]    \* "will reset the key sequence"
  ELSE [m |-> m, soft |-> FALSE]                                                      \* "will be ignored"

\* S2, everywhere: a virtual key goes down only for its own sequence
C12Justified(m, o) ==
  ~C12S2On(m) \/ \E d \in DOMAIN m.p.defs : m.p.defs[d].out = o /\ (d \in m.owed \/ \E e \in m.cs[d] : C12IsSub(e, [i \in DOMAIN m.recent |-> StFold(m.recent[i])]))

MonTick(m, out, idle, cb) ==
  IF m.err # "" THEN m
  ELSE
    LET e == Eff(out, m.osd)
        downs == Codes(KeyDowns(e.eff))
        vdowns == SelectSeq(downs, LAMBDA c : c \in VkOuts(m))
        kdowns == SelectSeq(downs, LAMBDA c : c \in KeySet(m))
        bdowns == Len(SelectSeq(downs, LAMBDA c : c = C12Bspc))
        m0 == [m EXCEPT !.osd = e.down]
        clean == idle /\ m.phys = {}
        unjust == {i \in DOMAIN vdowns : ~C12Justified(m, vdowns[i])}
    IN IF ~m.sync
       THEN IF unjust # {}
            THEN Fail(m0, "C12 S2: a sequence's virtual key was pressed although its keys were not typed")
            ELSE IF clean THEN [m0 EXCEPT !.sync = TRUE, !.pend = <<>>, !.held = {}, !.stale = {}, !.act = FALSE,
                                          !.ty = <<>>, !.owed = {}, !.ttl = 0, !.recent = <<>>]
            ELSE IF vdowns # <<>> THEN [m0 EXCEPT !.owed = {}] ELSE m0
       ELSE
         LET ev == IF m0.pend = <<>> THEN <<"none", 0>> ELSE Head(m0.pend)
             m1 == [m0 EXCEPT !.pend = IF @ = <<>> THEN <<>> ELSE Tail(@)]
             \* 1. the event processed on this tick
             st == CASE ev[1] = "d" /\ C12IsLdr(m.p, ev[2]) ->
                          LET r == C12Leader(m1, ev[2]) IN [m |-> r.m, expK |-> <<>>, expB |-> 0, soft |-> r.soft, vk |-> FALSE]
                    [] ev[1] = "d" ->
                          IF m1.stale # {} /\ (m1.act \/ m1.p.always)
                          THEN [m |-> m1, expK |-> <<>>, expB |-> 0, soft |-> TRUE, vk |-> FALSE]
                          ELSE LET r == C12Press(m1, ev[2]) IN
                               [m |-> r.m, expK |-> r.expK, expB |-> r.expB, soft |-> r.soft, vk |-> FALSE]
                    [] ev[1] = "u" /\ ~C12IsLdr(m.p, ev[2]) ->
                          [m |-> C12Release(m1, ev[2]), expK |-> <<>>, expB |-> 0, soft |-> FALSE, vk |-> FALSE]
                    \* the virtual key's own output is a key press like any other: if the mode is on again by now
                    \* (a key typed within a tick or two of the completing one) it lands in the new sequence - not documented
                    [] ev[1] = "vd" -> [m |-> m1, expK |-> <<>>, expB |-> 0, soft |-> m1.act, vk |-> TRUE]
                    [] OTHER -> [m |-> m1, expK |-> <<>>, expB |-> 0, soft |-> FALSE, vk |-> FALSE]
             \* 2. the timeout: T ticks after the last typed key (or the leader)
             m2 == IF ev[1] \in {"d", "u"} THEN [st.m EXCEPT !.tapped = {}] ELSE st.m
             expire == m2.act /\ m2.ttl <= 1
             flush == IF expire /\ m2.cm = "hidden-delay-type" THEN TyCodes(m2) ELSE <<>>
             m3 == IF expire THEN C12Leave(m2)
                   ELSE IF m2.act THEN [m2 EXCEPT !.ttl = @ - 1] ELSE m2
             expK == st.expK \o flush
         IN IF st.soft
            THEN \* the key just processed belongs to the presses S2 looks at
                 LET tyc == IF ev[1] = "d" /\ ~C12IsLdr(m.p, ev[2])
                            THEN Append(m1.ty, [c |-> ev[2], mm |-> 0, h |-> 0, rel |-> FALSE]) ELSE m1.ty
                 IN C12GoSoft([m3 EXCEPT !.pend = m1.pend, !.ty = tyc])
            \* ---- judgement of this tick's output
            ELSE IF st.vk /\ Len(vdowns) = 0
            THEN Fail(m3, "C12 S1: the typed sequence did not tap its virtual key")
            ELSE IF st.vk /\ (Len(vdowns) > 1 \/ \A d \in ev[2] : m2.p.defs[d].out # vdowns[1])
            THEN Fail(m3, "C12 S1: the virtual key of another sequence was tapped, or it was tapped more than once")
            ELSE IF ~st.vk /\ Len(vdowns) > 0
            THEN Fail(m3, IF m2.owed # {} \/ ev[1] = "vu" \/ vdowns[1] \in m1.tapped
                          THEN "C12 S1: the virtual key was tapped more than once or at the wrong time"
                          ELSE "C12 S3: a virtual key was tapped although the sequence mode had ended without a match")
            ELSE IF kdowns # expK
            THEN Fail(m3, IF Len(kdowns) > Len(expK)
                          THEN (IF m1.act \/ m2.act THEN "C12 S4: a typed key was pressed at the OS while the sequence was in progress (or typed keys were replayed without a failure)"
                                ELSE "C12: an unexpected key press was sent")
                          ELSE (IF flush # <<>> \/ (m1.act /\ ~m2.act /\ m2.cm = "hidden-delay-type")
                                THEN "C12 S4: hidden-delay-type did not type the saved keys when the sequence failed"
                                ELSE IF m1.act THEN "C12 S4: visible-backspaced did not show the typed key"
                                ELSE "C12 S1/S3: sequence mode was not left (a key pressed afterwards did not come out)"))
            ELSE IF bdowns # st.expB
            THEN Fail(m3, "C12 S4: visible-backspaced must send exactly one backspace per non-modifier typed key on completion")
            ELSE IF idle /\ m3.act
            THEN Fail(m3, "C12 S3: kanata reports idle while the sequence mode should still be on (mode left early)")
            ELSE LET m4 == IF st.vk THEN [m3 EXCEPT !.owed = @ \ ev[2], !.tapped = @ \cup {vdowns[1]}] ELSE m3 IN
                 m4

RECURSIVE MonSilent(_, _, _, _)
MonSilent(m, n, idle, cb) ==
  IF n = 0 \/ m.err # "" THEN m
  ELSE LET m1 == MonTick(m, <<>>, idle, cb) IN
       IF m1 = m THEN m ELSE MonSilent(m1, n - 1, idle, cb)
=============================================================================
