-------------------------------- MODULE ReloadIdx --------------------------------
(***************************************************************************)
(* C02: live-reload request actions and the index of the file to reload.   *)
(*                                                                         *)
(* kanata is started with nf >= 1 configuration files; `lrld`, `lrld-next`,*)
(* `lrld-prev` and `(lrld-num N)` (docs/config.adoc, "live reload") request *)
(* a reload of the current / next / previous / N-th file.  The parser does *)
(* not know nf, so (lrld-num N) is accepted for every N in 1..65535.  The  *)
(* request only selects the file; the reload itself is carried out later   *)
(* by the processing loop, when no output key is pressed any more or after *)
(* 1000 idle iterations, and reads cfg_paths[idx].                         *)
(*                                                                         *)
(* Contract: after ANY sequence of requests the selected index is a valid  *)
(* index (documented behaviour of an out-of-range N: an error is logged    *)
(* and the current file is reloaded; next / prev wrap around).  RiStep is  *)
(* that documented behaviour; TLC checks the contract for all request      *)
(* sequences up to length 3 over the boundary values, and prints the case  *)
(* family (files x two request actions on two keys) and the histories that *)
(* drive a request up to the point where the reload is carried out.        *)
(* tools/props/c02_model.py runs every case on the real code through one   *)
(* iteration of the processing loop per tick (harness crash worker, mode   *)
(* "loop": verif_set_elapsed_ms(1); verif_handle_time_ticks;               *)
(* can_block_update_idle_waiting) with the files on disk.                   *)
(***************************************************************************)
EXTENDS Naturals, Sequences, TLC, Json

RiFiles == 1..3
RiNums == {1, 2, 3, 4, 65535}
RiActs == {[a |-> "lrld", n |-> 0], [a |-> "lrld-next", n |-> 0], [a |-> "lrld-prev", n |-> 0]}
          \cup {[a |-> "lrld-num", n |-> n] : n \in RiNums}

\* documented selection of the file, idx 0-based
RiStep(idx, act, nf) ==
  CASE act.a = "lrld" -> idx
    [] act.a = "lrld-next" -> (idx + 1) % nf
    [] act.a = "lrld-prev" -> IF idx = 0 THEN nf - 1 ELSE idx - 1
    [] act.a = "lrld-num" -> IF act.n - 1 < nf THEN act.n - 1 ELSE idx

RECURSIVE RiRun(_, _, _)
RiRun(idx, acts, nf) == IF acts = <<>> THEN idx ELSE RiRun(RiStep(idx, Head(acts), nf), Tail(acts), nf)

RiSeqs == {<<>>} \cup {<<a>> : a \in RiActs} \cup {<<a, b>> : a \in RiActs, b \in RiActs}
          \cup {<<a, b, c>> : a \in RiActs, b \in RiActs, c \in RiActs}
\* the contract: the index handed to the deferred reload is always valid
ASSUME \A nf \in RiFiles : \A s \in RiSeqs : RiRun(0, s, nf) < nf

RiText(act) == IF act.a = "lrld-num" THEN "(lrld-num " \o ToString(act.n) \o ")" ELSE act.a

\* ----- histories: keys a, b carry the two request actions, c is a plain key -----------------------------
\* a `t` step is n iterations of the processing loop.  RiLong > 1000: the idle fallback of the deferred reload.
RiLong == 1100
RiTap(k) == <<<<"d", k>>, <<"t", 2>>, <<"u", k>>, <<"t", 2>>>>
RiHists == <<
  [name |-> "tap-a",            steps |-> RiTap("a") \o <<<<"t", 20>>>>],
  [name |-> "tap-a-tap-b",      steps |-> RiTap("a") \o RiTap("b") \o <<<<"t", 20>>>>],
  [name |-> "both-before-reload", steps |-> <<<<"d", "a">>, <<"d", "b">>, <<"t", 3>>, <<"u", "a">>, <<"u", "b">>, <<"t", 20>>>>],
  [name |-> "other-key-held",   steps |-> <<<<"d", "c">>, <<"t", 3>>>> \o RiTap("a") \o <<<<"t", 30>>>> \o RiTap("b")
                                          \o <<<<"t", RiLong>>, <<"u", "c">>, <<"t", 20>>>>],
  [name |-> "request-key-held", steps |-> <<<<"d", "a">>, <<"t", RiLong>>, <<"u", "a">>, <<"t", 20>>>>],
  [name |-> "a-b-a",            steps |-> RiTap("a") \o <<<<"t", 5>>>> \o RiTap("b") \o <<<<"t", 5>>>> \o RiTap("a") \o <<<<"t", 20>>>>],
  [name |-> "b-held-then-a",    steps |-> <<<<"d", "b">>, <<"t", 5>>>> \o RiTap("a") \o RiTap("a") \o <<<<"t", RiLong>>, <<"u", "b">>, <<"t", 20>>>>]
>>

\* outcome relation: every history of every case is processed to completion (r = set of outcomes of the case)
RiOk(r) == \A o \in r : o = "ok"

ASSUME \A i \in DOMAIN RiHists : PrintT(<<"RELOADHIST", ToJson(RiHists[i])>>)
ASSUME \A nf \in RiFiles : \A x \in RiActs : \A y \in RiActs :
         PrintT(<<"RELOADCASE", ToJson([nf |-> nf, a |-> RiText(x), b |-> RiText(y),
                                        idx_after_ab |-> RiRun(0, <<x, y>>, nf)])>>)
=============================================================================
