--------------------------------- MODULE Layout ---------------------------------
(***************************************************************************)
(* L1 detailed model of keyberon's Layout (keyberon/src/layout.rs).        *)
(* Functional style: the layout is one record value L; every Rust          *)
(* `&mut self` method is a pure operator L |-> L'.  One operator per Rust  *)
(* function, same order of sub-steps, same capacities, same saturating /   *)
(* wrapping arithmetic.  `\* src:` comments give the Rust anchor.           *)
(*                                                                         *)
(* The configuration constants (Act, LayerTab, SrcTab, Opts) are generated *)
(* from the dump of what the real parser produced (binding A).            *)
(***************************************************************************)
EXTENDS Naturals, Integers, Sequences, FiniteSets, TLC, Switch, ChordsV2

CONSTANTS
  Act,       \* Seq of action records, 1-based ids; children are ids
  LayerTab,  \* Seq (layer+1) of [real : code -> id, fake : Seq(id)]
  SrcTab,    \* code -> id   (defsrc fallback)
  Opts,      \* [trans_v2, delegate, concurrent_tap_hold, rapid_event_delay, ...]
  Caps,      \* [queue, states, extra, actionq, oneshot, seqs, stack, hist, age, since]
  Bug        \* "none", or the name of a seeded design error (model mutants, DESIGN 3.4)

Min(a, b) == IF a < b THEN a ELSE b
Max(a, b) == IF a > b THEN a ELSE b
SatSub(a, b) == IF a > b THEN a - b ELSE 0
CapAdd1(a) == Min(a + 1, Caps.age)      \* saturating_add(1) of history ages / idle ticks, abstracted cap (DESIGN 4.3)
SinceAdd1(a) == Min(a + 1, Caps.since)  \* saturating_add(1) of `since` / `ticks` (65535 = the real u16 saturation)
\* u16::MAX for the *unchecked* additions (C02 panic sites); the C02 capacity instances scale it down via Caps.u16max
U16Max == IF "u16max" \in DOMAIN Caps THEN Caps.u16max ELSE 65535
KeysInRow == 767   \* src: parser/src/layers.rs:12 KEYS_IN_ROW (length of a layer row and of src_keys)
\* u16 saturating_add of `delay + ticks` (layout.rs decompose_chord_into_action_queue, waiting_into_hold/tap/timeout, fix 871d8af)
SatAddU16(a, b) == Min(a + b, U16Max)

\* ----- generic sequence helpers -------------------------------------------------
FilterSeq(s, P(_)) == SelectSeq(s, P)

SelectSeqIdx(s, P(_)) ==    \* first index satisfying P, 0 if none
  LET I == {i \in DOMAIN s : P(s[i])} IN
  IF I = {} THEN 0 ELSE CHOOSE i \in I : \A j \in I : i <= j

LastIdx(s, P(_)) ==
  LET I == {i \in DOMAIN s : P(s[i])} IN
  IF I = {} THEN 0 ELSE CHOOSE i \in I : \A j \in I : i >= j

RemoveAt(s, i) == SubSeq(s, 1, i - 1) \o SubSeq(s, i + 1, Len(s))
Contains(s, e) == \E i \in DOMAIN s : s[i] = e
Reverse(s) == [i \in 1..Len(s) |-> s[Len(s) + 1 - i]]

\* push_back on a Wrapping ArrayDeque of capacity cap: returns [q, ov] where ov = <<evicted>> or <<>>
PushBackWrap(q, e, cap) ==
  IF Len(q) >= cap THEN [q |-> Tail(q) \o <<e>>, ov |-> <<Head(q)>>]
  ELSE [q |-> Append(q, e), ov |-> <<>>]
\* push_front on a Wrapping ArrayDeque: evicts the back
PushFrontWrap(q, e, cap) ==
  IF Len(q) >= cap THEN <<e>> \o SubSeq(q, 1, Len(q) - 1) ELSE <<e>> \o q

\* ----- records ------------------------------------------------------------------
\* State (layout.rs:268): uniform shape [t, a, x, y, f]
\*   "nk" NormalKey{keycode a, coord (x,y), flags f}   "lm" LayerModifier{value a, coord}
\*   "cu" Custom{value = custom list of Act[a], coord} "fk" FakeKey{keycode a}
\*   "rs" RepeatingSequence{sequence = Act[a].evs, coord}
\*   "scp"/"sca" SeqCustomPending/Active(custom = Act[a].evs[f].cu)   "tomb" Tombstone
St(t, a, x, y, f) == [t |-> t, a |-> a, x |-> x, y |-> y, f |-> f]
FlagClearOnNextAction == 1
FlagClearOnNextRelease == 2
HasFlag(f, b) == (f \div b) % 2 = 1

\* Queued (layout.rs:1014): [p (TRUE = press), x, y, s (since)]
Qd(p, x, y) == [p |-> p, x |-> x, y |-> y, s |-> 0]

\* CustomEvent: [k \in {"none","press","release"}, a, i]  custom list = Cu(a, i)
NoCe == [k |-> "none", a |-> 0, i |-> 0]
CePress(a, i) == [k |-> "press", a |-> a, i |-> i]
CeRelease(a, i) == [k |-> "release", a |-> a, i |-> i]
\* src: layout.rs:241 CustomEvent::update — only NoEvent < Press < Release
CeUpdate(cur, new) ==
  IF new.k = "release" /\ cur.k \in {"none", "press"} THEN new
  ELSE IF new.k = "press" /\ cur.k = "none" THEN new
  ELSE cur

\* rpt_action: id = -9 None, id = -1 the rpt_multikey_key_buffer (kcs), id = 0 the static &NoOp
NoRpt == [id |-> -9, kcs |-> <<>>]
RptOf(aid) == [id |-> aid, kcs |-> <<>>]

InitOneShot == [keys |-> <<>>, released |-> <<>>, other |-> <<>>, timeout |-> 0,
                endc |-> "press", rnt |-> FALSE, pdelay |-> Opts.rapid_event_delay,
                pticks |-> 0, ignore |-> 0]

InitLayout ==
  [ states |-> <<>>, waiting |-> <<>>, extra |-> <<>>, tde |-> <<>>, queue |-> <<>>,
    os |-> InitOneShot, lpc |-> <<0, 0>>, lpt |-> 0, seqs |-> <<>>, aq |-> <<>>,
    rpt |-> NoRpt, hk |-> <<>>, hi |-> <<>>, dl |-> 0, panic |-> "",
    chv2 |-> IF "chv2" \in DOMAIN Opts THEN CvInit ELSE <<>> ]    \* Option<ChordsV2> (ChordsV2.tla)
HasChv2 == "chv2" \in DOMAIN Opts     \* a defchordsv2 table was configured

Panic(L, site) == IF L.panic = "" THEN [L EXCEPT !.panic = site] ELSE L

\* ----- configuration lookups ----------------------------------------------------
NLayers == Len(LayerTab)
\* layers[l][x][y]; coordinates outside the instance universe are never produced by the
\* environment; if one is reached it is a model-scope error (reported, not a property issue)
LayerAct(l, x, y) ==
  IF x = 0
  THEN IF y \in DOMAIN LayerTab[l + 1].real THEN LayerTab[l + 1].real[y] ELSE 0
  ELSE IF y + 1 \in DOMAIN LayerTab[l + 1].fake THEN LayerTab[l + 1].fake[y + 1] ELSE 0
SrcAct(y) == IF y \in DOMAIN SrcTab THEN SrcTab[y] ELSE 0

\* ----- history (layout.rs:119-165) ----------------------------------------------
HistPush(h, e) == IF Caps.hist = 0 THEN h ELSE PushFrontWrap(h, [e |-> e, age |-> 0], Caps.hist)
HistTick(h) == [i \in DOMAIN h |-> [h[i] EXCEPT !.age = CapAdd1(@)]]

\* ----- State methods ------------------------------------------------------------
\* src: layout.rs:300 keycode()
StKeycode(s) == IF s.t \in {"nk", "fk"} THEN s.a ELSE -1
Keycodes(L) ==
  LET sel == FilterSeq(L.states, LAMBDA s : s.t \in {"nk", "fk"}) IN
  [i \in DOMAIN sel |-> sel[i].a]
\* src: layout.rs:307 coord()
StHasCoord(s) == s.t \in {"nk", "lm", "cu", "rs"}

\* src: layout.rs:2010 current_layer
CurrentLayer(L) ==
  LET i == LastIdx(L.states, LAMBDA s : s.t = "lm") IN
  IF i = 0 THEN L.dl ELSE L.states[i].a

\* src: layout.rs:2018 active_held_layers (most recent first)
ActiveHeldLayers(L) ==
  LET sel == FilterSeq(L.states, LAMBDA s : s.t = "lm") IN
  [i \in DOMAIN sel |-> sel[Len(sel) + 1 - i].a]

\* src: layout.rs trans_resolution_layer_order.  The held layers are `take(MAX_ACTIVE_LAYERS - 2)` (the most recently
\* activated ones, fix 4b8ada1), which leaves room for the two fallback entries; `push` beyond capacity is ignored.
\* Model mutant Bug = "c02_layer_collect": the code before the fix - heapless `collect` of all held layers into the
\* 12-entry Vec, a panic when more than 12 layers are held.
TransOrderRaw(L) ==
  LET cur == CurrentLayer(L) IN
  IF Opts.trans_v2
  THEN LET all == ActiveHeldLayers(L)
           held == IF Bug = "c02_layer_collect" THEN all ELSE SubSeq(all, 1, Min(Len(all), SatSub(Caps.stack, 2)))
           v1 == IF Len(held) < Caps.stack THEN Append(held, L.dl) ELSE held
           v2 == IF Opts.delegate /\ cur # 0 /\ L.dl # 0 /\ Len(v1) < Caps.stack
                 THEN Append(v1, 0) ELSE v1
       IN v2
  ELSE IF Opts.delegate /\ cur # 0 THEN <<cur, 0>> ELSE <<cur>>
TransOrderPanics(L) == Bug = "c02_layer_collect" /\ Opts.trans_v2 /\ Len(ActiveHeldLayers(L)) > Caps.stack
TransOrder(L) == IF TransOrderPanics(L) THEN <<>> ELSE TransOrderRaw(L)

\* ----- one-shot (layout.rs:919-994) ---------------------------------------------
\* src: handle_press; returns [os, coords]
OsHandlePress(os, isOsKey, coord) ==
  IF os.keys = <<>> \/ os.ignore > 0 THEN [os |-> os, coords |-> <<>>]
  ELSE IF isOsKey
  THEN LET hit == os.endc \in {"release_repress", "press_repress"} /\ Contains(os.keys, coord)
           os1 == IF hit THEN [os EXCEPT !.rnt = TRUE] ELSE os
           os2 == [os1 EXCEPT !.released = FilterSeq(@, LAMBDA c : c # coord)]
       IN [os |-> os2, coords |-> IF hit THEN os.keys ELSE <<>>]
  ELSE LET os1 == IF os.endc \in {"press", "press_repress"}
                  THEN [os EXCEPT !.timeout = Min(os.pdelay, os.timeout), !.pticks = os.pdelay]
                  ELSE [os EXCEPT !.other = PushBackWrap(@, coord, Caps.oneshot).q]
       IN [os |-> os1, coords |-> os.keys]

\* src: handle_release; returns [os, doRel, ov] (ov = <<coord>> overflowed released key)
OsHandleRelease(os, coord) ==
  IF os.keys = <<>> THEN [os |-> os, doRel |-> TRUE, ov |-> <<>>]
  ELSE IF ~Contains(os.keys, coord)
  THEN LET hit == os.endc \in {"release", "release_repress"} /\ Contains(os.other, coord) IN
       [os |-> IF hit THEN [os EXCEPT !.rnt = TRUE] ELSE os, doRel |-> TRUE, ov |-> <<>>]
  ELSE LET r == PushBackWrap(os.released, coord, Caps.oneshot) IN
       [os |-> [os EXCEPT !.released = r.q], doRel |-> FALSE, ov |-> r.ov]

\* src: tick_osh; returns [os, rel] (rel = <<>> when None, else <<keys>> i.e. Some(list))
OsTick(os) ==
  IF os.keys = <<>> THEN [os |-> os, some |-> FALSE, rel |-> <<>>]
  ELSE LET ig == SatSub(os.ignore, 1)
           to == SatSub(os.timeout, 1) IN
       IF os.rnt \/ to = 0
       THEN [os |-> [os EXCEPT !.rnt = FALSE, !.timeout = 0, !.pticks = 0, !.ignore = 0,
                              !.keys = <<>>, !.other = <<>>, !.released = <<>>],
             some |-> TRUE,
             rel |-> IF Bug = "os_release_dropped" /\ Len(os.released) > 1 THEN Tail(os.released) ELSE os.released]
       ELSE [os |-> [os EXCEPT !.ignore = ig, !.timeout = to], some |-> FALSE, rel |-> <<>>]

\* ----- releases -----------------------------------------------------------------
\* src: State::release (layout.rs:329) applied by `retain`; returns [states, ce]
RECURSIVE ReleaseCoordRec(_, _, _, _, _)
ReleaseCoordRec(ss, x, y, withClear, ce) ==
  IF ss = <<>> THEN [states |-> <<>>, ce |-> ce]
  ELSE LET s == Head(ss)
           cleared == withClear /\ s.t = "nk" /\ HasFlag(s.f, FlagClearOnNextRelease)
           \* `!s.clear_on_next_release() && s.release(..).is_some()` short-circuits: a
           \* cleared state does not evaluate release() (no custom event from it)
           hitCoord == ~cleared /\ s.t \in {"nk", "lm", "rs", "cu"} /\ s.x = x /\ s.y = y
                       /\ ~(Bug = "layer_release_lost" /\ s.t = "lm" /\ \E t \in DOMAIN ss : t > 1 /\ ss[t].t = "lm")
           ce1 == IF hitCoord /\ s.t = "cu" THEN CeUpdate(ce, CeRelease(s.a, 0)) ELSE ce
           rest == ReleaseCoordRec(Tail(ss), x, y, withClear, ce1)
       IN IF cleared \/ hitCoord THEN rest
          ELSE [states |-> <<s>> \o rest.states, ce |-> rest.ce]

\* ----- chords v1 helpers (action.rs:249-280) ------------------------------------
ChGetKeys(g, x, y) ==     \* Option<mask>: <<>> or <<set>>
  LET i == SelectSeqIdx(g.coords, LAMBDA c : c.x = x /\ c.y = y) IN
  IF i = 0 THEN <<>> ELSE <<g.coords[i].m>>
ChKeysOr0(g, x, y) == LET k == ChGetKeys(g, x, y) IN IF k = <<>> THEN {} ELSE k[1]
ChGetChord(g, m) ==       \* 0 or action id
  LET i == SelectSeqIdx(g.chords, LAMBDA c : c.m = m) IN
  IF i = 0 THEN 0 ELSE g.chords[i].ac
\* try_fold: exact match remembered, a strict superset entry *anywhere* aborts with None
ChGetChordIfUnambiguous(g, m) ==
  IF \E i \in DOMAIN g.chords : g.chords[i].m # m /\ m \subseteq g.chords[i].m
  THEN 0
  ELSE LET I == {i \in DOMAIN g.chords : g.chords[i].m = m} IN
       \* later exact matches overwrite earlier ones in the fold
       IF I = {} THEN 0 ELSE g.chords[CHOOSE i \in I : \A j \in I : i >= j].ac

SetOfSeq(s) == {s[i] : i \in DOMAIN s}
MaskOf(l) == SetOfSeq(l)     \* dump gives bit lists

TransId == 0 - 2     \* the static `&Action::Trans` passed by dequeue
ActRec(aid) == IF aid = 0 THEN [t |-> "noop"] ELSE IF aid = TransId THEN [t |-> "trans"] ELSE Act[aid]

\* ----- waiting states (layout.rs:433-850) -----------------------------------------
\* [x, y, timeout, delay, ticks, hold, tap, toa, k ("ht"|"td"|"ch"), c (action id of the
\*  holdtap / tapdance / chords action), ntaps, stack, pql]
IsCorrRelease(w, q) == ~q.p /\ q.x = w.x /\ q.y = w.y
IsCorrPress(w, q) == q.p /\ q.x = w.x /\ q.y = w.y

\* src: handle_hold_tap 504-552.  returns [w, res]
HandleHoldTap(w, queue) ==
  LET qlen == Len(queue) IN
  IF qlen = w.pql /\ w.timeout > 0 THEN [w |-> w, res |-> "none"]
  ELSE
    LET w1 == [w EXCEPT !.pql = qlen]
        a == Act[w.c]
        presses == {i \in DOMAIN queue : queue[i].p}
        \* PermissiveHold: the first press (in order) that has a later release of the same coord
        permHold == \E i \in presses : \E j \in DOMAIN queue :
                       j > i /\ ~queue[j].p /\ queue[j].x = queue[i].x /\ queue[j].y = queue[i].y
        \* custom_tap_hold_release: scanning presses in order; a listed key => Tap,
        \* else a later matching release => Hold; first press that decides wins
        relDecide(i) == IF \E k \in DOMAIN a.ckeys : a.ckeys[k] = queue[i].y THEN "tap"
                        ELSE IF \E j \in DOMAIN queue : j > i /\ ~queue[j].p
                                   /\ queue[j].x = queue[i].x /\ queue[j].y = queue[i].y
                        THEN "hold" ELSE "none"
        relDeciders == {i \in presses : relDecide(i) # "none"}
        relRes == IF relDeciders = {} THEN "none"
                  ELSE relDecide(CHOOSE i \in relDeciders : \A j \in relDeciders : i <= j)
        firstPress == IF presses = {} THEN 0 ELSE CHOOSE i \in presses : \A j \in presses : i <= j
        early ==
          CASE a.cfg = "default" -> "none"
            [] a.cfg = "press" -> IF presses # {} /\ Bug # "ht_press_ignored" THEN "hold" ELSE "none"
            [] a.cfg = "release" -> IF permHold THEN "hold" ELSE "none"
            [] a.cfg = "custom" /\ a.ckind = "release-keys" -> relRes
            [] a.cfg = "custom" /\ a.ckind = "except-keys" ->
                 IF firstPress # 0 /\ \E k \in DOMAIN a.ckeys : a.ckeys[k] = queue[firstPress].y
                 THEN "tap" ELSE "none"
            [] OTHER -> "none"
        skipTimeout == a.cfg = "custom" /\ a.ckind = "except-keys" /\ presses = {}
        ri == SelectSeqIdx(queue, LAMBDA q : IsCorrRelease(w, q))
    IN IF early # "none" THEN [w |-> w1, res |-> early]
       ELSE IF ri # 0
       THEN [w |-> w1, res |-> IF (IF Bug = "ht_tap_ge" THEN w1.timeout >= SatSub(w1.delay, queue[ri].s)
                                  ELSE w1.timeout > SatSub(w1.delay, queue[ri].s)) THEN "tap" ELSE "timeout"]
       ELSE IF w1.timeout = 0 /\ ~skipTimeout THEN [w |-> w1, res |-> "timeout"]
       ELSE [w |-> w1, res |-> "none"]

\* src: evict_same_coord_events: only the counted presses (and their releases) are evicted
RECURSIVE EvictSameCoord(_, _, _, _)
EvictSameCoord(w, queue, relToRemove, prToRemove) ==
  IF queue = <<>> THEN <<>>
  ELSE LET q == Head(queue) IN
       IF IsCorrRelease(w, q)
       THEN IF relToRemove > 0 THEN EvictSameCoord(w, Tail(queue), relToRemove - 1, prToRemove)
            ELSE <<q>> \o EvictSameCoord(w, Tail(queue), 0, prToRemove)
       ELSE IF IsCorrPress(w, q) /\ (prToRemove > 0 \/ Bug = "td_evict_all")
       THEN EvictSameCoord(w, Tail(queue), relToRemove, IF prToRemove > 0 THEN prToRemove - 1 ELSE 0)
       ELSE <<q>> \o EvictSameCoord(w, Tail(queue), relToRemove, prToRemove)

\* try_fold 589-597: returns [n, err]
RECURSIVE TdFold(_, _, _)
TdFold(w, queue, n) ==
  IF queue = <<>> THEN [n |-> n, err |-> FALSE]
  ELSE LET q == Head(queue) IN
       IF IsCorrPress(w, q) THEN TdFold(w, Tail(queue), n + 1)
       ELSE IF q.p THEN [n |-> n, err |-> TRUE]
       ELSE TdFold(w, Tail(queue), n)

\* src: handle_tap_dance 554-608. returns [queue, res, ntaps]
HandleTapDance(w, numTaps, maxTaps, queue) ==
  IF Len(queue) = w.pql /\ w.timeout > 0 THEN [queue |-> queue, res |-> "none", ntaps |-> numTaps]
  ELSE IF w.timeout = 0
  THEN [queue |-> EvictSameCoord(w, queue, SatSub(numTaps, 1), SatSub(numTaps, 1)), res |-> "tap", ntaps |-> numTaps]
  ELSE LET f == TdFold(w, queue, 1) IN
       IF f.err \/ f.n >= maxTaps
       THEN [queue |-> EvictSameCoord(w, queue, SatSub(f.n, 1), SatSub(f.n, 1)), res |-> "tap", ntaps |-> f.n]
       ELSE [queue |-> queue, res |-> "none", ntaps |-> f.n]

\* ---- chords v1: handle_chord 610-708 -----------------------------------------------
\* fold 631-654: returns [active, handled, rel (<<>> | <<x,y>>), err]
RECURSIVE ChFold(_, _, _, _, _)
ChFold(w, g, queue, active, handled) ==
  IF queue = <<>> THEN [active |-> active, handled |-> handled, rel |-> <<>>, err |-> FALSE]
  ELSE LET q == Head(queue) IN
       IF SatSub(w.delay, q.s) > w.timeout THEN ChFold(w, g, Tail(queue), active, handled)
       ELSE LET ck == ChGetKeys(g, q.x, q.y) IN
            IF ck # <<>>
            THEN IF q.p THEN ChFold(w, g, Tail(queue), active \cup ck[1], handled + 1)
                 ELSE [active |-> active, handled |-> handled, rel |-> <<q.x, q.y>>, err |-> TRUE]
            ELSE IF q.p THEN [active |-> active, handled |-> handled, rel |-> <<>>, err |-> TRUE]
            ELSE ChFold(w, g, Tail(queue), active, handled)

\* retain 693-705: returns [queue, pq]
RECURSIVE ChRetain(_, _, _, _)
ChRetain(w, g, queue, handled) ==
  IF queue = <<>> THEN [queue |-> <<>>, pq |-> <<>>]
  ELSE LET q == Head(queue) IN
       IF SatSub(w.delay, q.s) > w.timeout
       THEN LET r == ChRetain(w, g, Tail(queue), handled) IN [queue |-> <<q>> \o r.queue, pq |-> r.pq]
       ELSE IF q.p /\ ChGetKeys(g, q.x, q.y) # <<>> /\ handled > 0
       THEN LET r == ChRetain(w, g, Tail(queue), handled - 1) IN
            [queue |-> r.queue, pq |-> <<<<q.x, q.y>>>> \o r.pq]
       ELSE LET r == ChRetain(w, g, Tail(queue), handled) IN [queue |-> <<q>> \o r.queue, pq |-> r.pq]

\* decompose_chord_into_action_queue 710-841
\* order fold 726-748: returns [order, dcoord]
RECURSIVE DecompFold(_, _, _, _, _, _)
DecompFold(w, g, queue, active, order, dcoord) ==
  IF queue = <<>> THEN [order |-> order, dcoord |-> dcoord]
  ELSE LET q == Head(queue) IN
       IF SatSub(w.delay, q.s) > w.timeout THEN DecompFold(w, g, Tail(queue), active, order, dcoord)
       ELSE LET ck == ChGetKeys(g, q.x, q.y) IN
            IF ck # <<>>
            THEN IF q.p
                 THEN DecompFold(w, g, Tail(queue), active \cup ck[1],
                                 IF (active \cup ck[1]) # active THEN Append(order, ck[1]) ELSE order,
                                 dcoord)
                 ELSE [order |-> order, dcoord |-> <<q.x, q.y>>]
            ELSE IF q.p THEN [order |-> order, dcoord |-> dcoord]
            ELSE DecompFold(w, g, Tail(queue), active, order, dcoord)

RECURSIVE UnionSeq(_)
UnionSeq(s) == IF s = <<>> THEN {} ELSE Head(s) \cup UnionSeq(Tail(s))

CoordForChord(w, g, queue, dcoord, mask) ==
  IF ChKeysOr0(g, dcoord[1], dcoord[2]) \cap mask # {} THEN dcoord
  ELSE IF <<w.x, w.y>> # dcoord /\ ChKeysOr0(g, w.x, w.y) \cap mask # {} THEN <<w.x, w.y>>
  ELSE LET i == SelectSeqIdx(queue, LAMBDA q : ChKeysOr0(g, q.x, q.y) \cap mask # {}) IN
       IF i = 0 THEN dcoord ELSE <<queue[i].x, queue[i].y>>

\* the shrinking inner loop 823-836: returns the `end` at which a chord was found, or start
RECURSIVE ShrinkEnd(_, _, _, _)
ShrinkEnd(g, order, start, end) ==       \* start,end 0-based, half-open
  IF end <= start THEN start
  ELSE IF ChGetChord(g, UnionSeq(SubSeq(order, start + 1, end))) # 0 THEN end
  ELSE ShrinkEnd(g, order, start, end - 1)

RECURSIVE DecompLoop(_, _, _, _, _, _, _)
DecompLoop(w, g, queue, order, dcoord, start, aq) ==
  LET len == Len(order)
      \* src: layout.rs:813 saturating_add (fix 871d8af)
      delay == IF Bug = "c02_wdelay_unchecked" THEN w.delay + w.ticks ELSE SatAddU16(w.delay, w.ticks)
      AqEntry(m) == LET c == CoordForChord(w, g, queue, dcoord, m) IN
                    [x |-> c[1], y |-> c[2], delay |-> delay, ac |-> ChGetChord(g, m)]
  IN IF start >= len THEN aq
     ELSE LET full == UnionSeq(SubSeq(order, start + 1, len)) IN
          IF ChGetChord(g, full) # 0
          THEN DecompLoop(w, g, queue, order, dcoord, len,
                          PushBackWrap(aq, AqEntry(full), Caps.actionq).q)
          ELSE LET e == ShrinkEnd(g, order, start, len - 1) IN
               IF e <= start
               THEN DecompLoop(w, g, queue, order, dcoord, start + 1, aq)
               ELSE DecompLoop(w, g, queue, order, dcoord, e,
                               PushBackWrap(aq, AqEntry(UnionSeq(SubSeq(order, start + 1, e))),
                                            Caps.actionq).q)

Decompose(w, g, queue, aq) ==
  LET startMask == ChKeysOr0(g, w.x, w.y)
      f == DecompFold(w, g, queue, startMask, <<startMask>>, <<w.x, w.y>>)
  IN DecompLoop(w, g, queue, f.order, f.dcoord, 0, aq)

\* returns [w, queue, aq, res, tap, pq (<<>> None | <<coords>> Some)]
HandleChord(w, queue, aq) ==
  LET g == Act[w.c] IN
  IF Len(queue) = w.pql /\ SatSub(w.timeout, w.delay) > 0
  THEN [w |-> w, queue |-> queue, aq |-> aq, res |-> "none", pq |-> <<>>]
  ELSE
    LET w1 == [w EXCEPT !.pql = Len(queue)]
        f0 == ChFold(w1, g, queue, ChKeysOr0(g, w.x, w.y), 0)
        expired == SatSub(w1.timeout, w1.delay) = 0
        isErr == f0.err \/ expired
        startCoord == <<w.x, w.y>>
        unamb == ChGetChordIfUnambiguous(g, f0.active)
        exact == ChGetChord(g, f0.active)
        wRel == IF f0.rel # <<>> THEN [w1 EXCEPT !.x = f0.rel[1], !.y = f0.rel[2]] ELSE w1
    IN IF ~isErr /\ unamb = 0
       THEN [w |-> w1, queue |-> queue, aq |-> aq, res |-> "none", pq |-> <<>>]
       ELSE
         LET tapAc == IF ~isErr THEN unamb ELSE exact
             found == tapAc # 0
             w2 == IF found THEN [wRel EXCEPT !.tap = tapAc] ELSE [w1 EXCEPT !.tap = 0]
             aq2 == IF found THEN aq ELSE Decompose(w1, g, queue, aq)
             \* the retain closure reads self.delay/self.timeout (unchanged by the above)
             r == ChRetain(w1, g, queue, f0.handled)
         IN [w |-> w2, queue |-> r.queue, aq |-> aq2,
             res |-> IF found THEN "tap" ELSE "noop",
             pq |-> <<startCoord>> \o r.pq]

\* src: tick_wt 460-502.  returns [w, queue, aq, res, pq, somepq]
TickWt(w0, queue, aq) ==
  LET w == [w0 EXCEPT !.timeout = SatSub(@, 1), !.ticks = SinceAdd1(@)] IN
  CASE w.k = "ht" ->
         LET r == HandleHoldTap(w, queue) IN
         [w |-> r.w, queue |-> queue, aq |-> aq, res |-> r.res, pq |-> <<>>, somepq |-> FALSE]
    [] w.k = "td" ->
         LET a == Act[w.c]
             r == HandleTapDance(w, w.ntaps, Len(a.acs), queue)
             w1 == [w EXCEPT !.pql = Len(r.queue)]
             idx == IF Bug = "td_off_by_one" THEN Min(r.ntaps, Len(a.acs) - 1) ELSE SatSub(Min(r.ntaps, Len(a.acs)), 1)
             w2 == IF r.res # "none" THEN [w1 EXCEPT !.tap = a.acs[idx + 1]] ELSE w1
             w3 == IF r.ntaps > w.ntaps THEN [w2 EXCEPT !.timeout = a.timeout] ELSE w2
         IN \* src: layout.rs:478 `self.tap = tds.actions[idx]` - the parser accepts (tap-dance n ()): index 0 of len 0
            IF r.res # "none" /\ a.acs = <<>>
            THEN [w |-> w1, queue |-> r.queue, aq |-> aq, res |-> "panic:index:tap-dance.actions[idx]",
                  pq |-> <<>>, somepq |-> FALSE]
            ELSE
            [w |-> [w3 EXCEPT !.ntaps = r.ntaps], queue |-> r.queue, aq |-> aq, res |-> r.res,
             pq |-> <<>>, somepq |-> FALSE]
    [] w.k = "ch" ->
         LET r == HandleChord(w, queue, aq) IN
         [w |-> r.w, queue |-> r.queue, aq |-> r.aq, res |-> r.res, pq |-> r.pq,
          somepq |-> r.res # "none"]

\* ----- do_action (layout.rs:1582-2007) ---------------------------------------------
\* src: resolve_coord 1558-1581; returns [aid, stack] (stack = what is left of the iterator)
RECURSIVE ResolveCoord(_, _, _, _)
ResolveCoord(L, x, y, stack) ==
  IF stack = <<>> THEN [aid |-> IF x = 0 THEN SrcAct(y) ELSE 0, stack |-> <<>>]
  ELSE LET a == LayerAct(Head(stack), x, y) IN
       IF ActRec(a).t = "trans" THEN ResolveCoord(L, x, y, Tail(stack))
       ELSE [aid |-> a, stack |-> Tail(stack)]

PushState(L, s) == IF Len(L.states) < Caps.states THEN [L EXCEPT !.states = Append(@, s)] ELSE L
UpdateCoord(L, x, y) == IF x = 0 THEN [L EXCEPT !.lpc = <<x, y>>] ELSE L
OsOther(L, isOs, x, y) ==     \* `if !is_oneshot { self.oneshot.handle_press(Other(coord)) }`
  IF isOs THEN [L |-> L, coords |-> <<>>]
  ELSE LET r == OsHandlePress(L.os, FALSE, <<x, y>>) IN [L |-> [L EXCEPT !.os = r.os], coords |-> r.coords]

EnvOf(L) ==
  LET ks == Keycodes(L)
      cs == FilterSeq(L.states, StHasCoord)
  IN [keys |-> ks, coords |-> [i \in DOMAIN cs |-> <<cs[i].x, cs[i].y>>],
      hk |-> L.hk, hi |-> L.hi, layers |-> TransOrder(L), dl |-> L.dl]

NewSeq(aid) == [a |-> aid, pos |-> 0, delay |-> 0, tapped |-> -1]

\* src: Layout::event 1541-1555 is mutually recursive with do_action (one-shot overflow) and
\* dequeue; declared here.
RECURSIVE DoAction(_, _, _, _, _, _, _, _)
RECURSIVE DoActionSeq(_, _, _, _, _, _, _, _)
RECURSIVE Dequeue(_, _)
RECURSIVE WaitingIntoHold(_, _)
RECURSIVE EventL(_, _)

\* src: layout.rs:1645 `if let Some(ac) = self.rpt_action { self.do_action(ac, ..) }` - when `ac` is a multi / fork
\* that reaches Action::Repeat before any arm has overwritten rpt_action (multi sets it only after its loop, fork
\* after its branch; layer / tap-hold / tap-dance / chords / switch arms never set it) the recursion does not
\* terminate: stack overflow (C02 finding).  RptLoops(aid, states): executing aid with rpt_action = aid loops.
RptKeepsRpt(t) == t \in {"layer", "deflayer", "holdtap", "tapdance", "chords", "switch"}
RECURSIVE RptReachesRepeat(_, _)
RECURSIVE RptSeqReachesRepeat(_, _)
RptReachesRepeat(aid, states) ==
  LET a == ActRec(aid) IN
  CASE a.t = "repeat" -> TRUE
    [] a.t = "multi" -> RptSeqReachesRepeat(a.acs, states)
    [] a.t = "fork" ->
         LET right == \E i \in DOMAIN states : states[i].t \in {"nk", "fk"} /\ Contains(a.trig, states[i].a)
         IN RptReachesRepeat(IF right THEN a.right ELSE a.left, states)
    [] OTHER -> FALSE
RptSeqReachesRepeat(acs, states) ==
  IF acs = <<>> THEN FALSE
  ELSE IF RptReachesRepeat(Head(acs), states) THEN TRUE
  ELSE IF RptKeepsRpt(ActRec(Head(acs)).t) THEN RptSeqReachesRepeat(Tail(acs), states)
  ELSE FALSE

\* KeyCode / MultipleKeyCodes arms share the rpt buffer logic (1790-1812, 1837-1861)
KeysArm(L0, kcs, flags, selfRpt, x, y, isOs) ==
  LET L1 == UpdateCoord(L0, x, y)
      RECURSIVE pushAll(_, _)
      pushAll(L, ks) == IF ks = <<>> THEN L
                        ELSE pushAll(PushState([L EXCEPT !.hk = HistPush(@, Head(ks))],
                                               St("nk", Head(ks), x, y, flags)), Tail(ks))
      L2 == pushAll(L1, kcs)
      o == OsOther(L2, isOs, x, y)
      inCoords == FilterSeq(o.L.states, LAMBDA s : s.t = "nk" /\ Contains(o.coords, <<s.x, s.y>>))
      buf == SubSeq([i \in DOMAIN inCoords |-> inCoords[i].a] \o kcs, 1,
                    Min(Len(inCoords) + Len(kcs), Caps.oneshot + 4))
  IN IF o.coords = <<>> THEN [o.L EXCEPT !.rpt = selfRpt]
     ELSE [o.L EXCEPT !.rpt = [id |-> -1, kcs |-> buf]]

\* DoAction(L, aid, dynk, x, y, delay, isOs, stack): dynk = key list when aid = -1 (rpt buffer)
DoAction(L00, aid0, dynk, x, y, delay, isOs, stack0) ==
  IF L00.panic # "" THEN [L |-> L00, ce |-> NoCe]
  ELSE
  LET a0 == IF aid0 = -1 THEN [t |-> "mkeys", kcs |-> dynk] ELSE ActRec(aid0)
      res == IF a0.t = "trans" THEN ResolveCoord(L00, x, y, stack0) ELSE [aid |-> aid0, stack |-> stack0]
      aid == res.aid
      stack == res.stack
      a == IF aid = -1 THEN a0 ELSE ActRec(aid)
      La == IF L00.lpc # <<x, y>> THEN [L00 EXCEPT !.lpt = 0] ELSE L00
      L0 == [La EXCEPT !.states = FilterSeq(@, LAMBDA s : ~(s.t = "nk" /\ HasFlag(s.f, FlagClearOnNextAction)))]
      self == IF aid = -1 THEN [id |-> -1, kcs |-> dynk] ELSE RptOf(aid)
  IN
  CASE a.t = "noop" ->
         LET L1 == IF ~isOs /\ <<x, y>> # <<0, 0>>
                   THEN [L0 EXCEPT !.os = OsHandlePress(L0.os, FALSE, <<x, y>>).os] ELSE L0
         IN [L |-> [L1 EXCEPT !.rpt = self], ce |-> NoCe]
    [] a.t = "trans" -> [L |-> Panic(L0, "unreachable:trans"), ce |-> NoCe]
    [] a.t = "src" ->
         [L |-> DoAction(L0, SrcAct(y), <<>>, x, y, delay, isOs, <<>>).L, ce |-> NoCe]
    [] a.t = "repeat" ->
         \* src: layout.rs Repeat arm (fix 5f7376a): `rpt_action.take()` before the call, so a Repeat inside the repeated
         \* action finds None and does nothing; restored afterwards if the repeated action did not set a new one.
         \* Model mutant Bug = "c02_repeat_reentrant": the code before the fix - rpt_action stays set during the call and
         \* an action that reaches Repeat again recurses until the stack overflows.
         IF L0.rpt.id = -9 THEN [L |-> L0, ce |-> NoCe]
         ELSE IF Bug = "c02_repeat_reentrant"
         THEN IF L0.rpt.id > 0 /\ RptReachesRepeat(L0.rpt.id, L0.states)
              THEN [L |-> Panic(L0, "stack-overflow:repeat"), ce |-> NoCe]
              ELSE [L |-> DoAction(L0, L0.rpt.id, L0.rpt.kcs, x, y, delay, isOs, <<>>).L, ce |-> NoCe]
         ELSE LET saved == L0.rpt
                  Lr == DoAction([L0 EXCEPT !.rpt = NoRpt], saved.id, saved.kcs, x, y, delay, isOs, <<>>).L
              IN [L |-> IF Lr.rpt = NoRpt THEN [Lr EXCEPT !.rpt = saved] ELSE Lr, ce |-> NoCe]
    [] a.t = "holdtap" ->
         IF a.thi = 0 \/ <<x, y>> # L0.lpc \/ L0.lpt = 0
         THEN LET quick == Opts.concurrent_tap_hold
                  w == [x |-> x, y |-> y,
                        timeout |-> IF quick THEN SatSub(a.timeout, delay) ELSE a.timeout,
                        delay |-> IF quick THEN 0 ELSE delay, ticks |-> 0,
                        hold |-> a.hold, tap |-> a.tap, toa |-> a.toa, k |-> "ht", c |-> aid,
                        ntaps |-> 0, stack |-> stack, pql |-> 255]
                  L1 == IF L0.waiting # <<>>
                        THEN [L0 EXCEPT !.extra = PushBackWrap(@, w, Caps.extra).q]
                        ELSE [L0 EXCEPT !.waiting = <<w>>]
              IN [L |-> UpdateCoord([L1 EXCEPT !.lpt = a.thi], x, y), ce |-> NoCe]
         ELSE LET r == DoAction([L0 EXCEPT !.lpt = 0], a.tap, <<>>, x, y, delay, isOs, stack) IN
              [L |-> UpdateCoord(r.L, x, y), ce |-> CeUpdate(NoCe, r.ce)]
    [] a.t = "oneshot" ->
         LET L1 == UpdateCoord(L0, x, y)
             r == DoAction(L1, a.ac, <<>>, x, y, delay, TRUE, <<>>)
             L2 == [r.L EXCEPT !.rpt = self]
             os1 == OsHandlePress(L2.os, TRUE, <<x, y>>).os
             os2 == [os1 EXCEPT !.timeout = a.timeout, !.endc = a.end]
             pb == PushBackWrap(os2.keys, <<x, y>>, Caps.oneshot)
             L3 == [L2 EXCEPT !.os = [os2 EXCEPT !.keys = pb.q]]
             L4 == IF pb.ov # <<>> THEN EventL(L3, [p |-> FALSE, x |-> pb.ov[1][1], y |-> pb.ov[1][2], s |-> 0]) ELSE L3
         IN [L |-> L4, ce |-> r.ce]
    [] a.t = "osignore" ->
         [L |-> [UpdateCoord(L0, x, y) EXCEPT !.rpt = self, !.os.ignore = a.ticks], ce |-> NoCe]
    [] a.t = "tapdance" ->
         LET L1 == UpdateCoord(L0, x, y) IN
         IF ~a.eager
         THEN [L |-> [L1 EXCEPT !.waiting =
                        <<[x |-> x, y |-> y, timeout |-> a.timeout, delay |-> delay, ticks |-> 0,
                           hold |-> 0, tap |-> 0, toa |-> 0, k |-> "td", c |-> aid, ntaps |-> 1,
                           stack |-> stack, pql |-> 255]>>], ce |-> NoCe]
         ELSE LET fresh == <<[x |-> x, y |-> y, c |-> aid, timeout |-> a.timeout,
                              orig |-> a.timeout, ntaps |-> 1]>>
                  L2 == IF L1.tde = <<>> THEN [L1 EXCEPT !.tde = fresh]
                        ELSE IF <<L1.tde[1].x, L1.tde[1].y>> # <<x, y>> THEN [L1 EXCEPT !.tde = fresh]
                        ELSE L1
              IN IF a.acs = <<>> THEN [L |-> Panic(L2, "index:td.actions[0]"), ce |-> NoCe]
                 ELSE [L |-> DoAction(L2, a.acs[1], <<>>, x, y, delay, FALSE, stack).L, ce |-> NoCe]
    [] a.t = "chords" ->
         [L |-> [UpdateCoord(L0, x, y) EXCEPT !.waiting =
                   <<[x |-> x, y |-> y, timeout |-> a.timeout, delay |-> delay, ticks |-> 0,
                      hold |-> 0, tap |-> 0, toa |-> 0, k |-> "ch", c |-> aid, ntaps |-> 0,
                      stack |-> stack, pql |-> 255]>>], ce |-> NoCe]
    [] a.t = "key" -> [L |-> KeysArm(L0, <<a.kc>>, 0, self, x, y, isOs), ce |-> NoCe]
    [] a.t = "mkeys" ->
         [L |-> KeysArm(L0, a.kcs, IF isOs THEN 0 ELSE FlagClearOnNextAction, self, x, y, isOs),
          ce |-> NoCe]
    [] a.t = "multi" ->
         LET r == DoActionSeq(UpdateCoord(L0, x, y), a.acs, x, y, delay, isOs, stack, NoCe) IN
         [L |-> [r.L EXCEPT !.rpt = self], ce |-> r.ce]
    [] a.t = "seq" ->
         \* src: layout.rs Sequence arm (fix a8a26da): not started while the ring is full;
         \* Bug = "seq_ring_wraps" = the behaviour before the fix (the oldest cursor is dropped)
         LET L1 == IF Len(L0.seqs) < Caps.seqs \/ Bug = "seq_ring_wraps"
                   THEN [L0 EXCEPT !.seqs = PushBackWrap(@, NewSeq(aid), Caps.seqs).q] ELSE L0 IN
         [L |-> [OsOther(L1, isOs, x, y).L EXCEPT !.rpt = self], ce |-> NoCe]
    [] a.t = "rseq" ->
         LET L1 == IF Len(L0.seqs) < Caps.seqs \/ Bug = "seq_ring_wraps"
                   THEN [L0 EXCEPT !.seqs = PushBackWrap(@, NewSeq(aid), Caps.seqs).q] ELSE L0
             L2 == PushState(L1, St("rs", aid, x, y, 0))     \* the repeating state is pushed in any case
         IN [L |-> [OsOther(L2, isOs, x, y).L EXCEPT !.rpt = self], ce |-> NoCe]
    [] a.t = "cancelseq" ->
         LET L1 == [L0 EXCEPT !.seqs = <<>>, !.states = FilterSeq(@, LAMBDA s : s.t # "fk")] IN
         [L |-> [OsOther(L1, isOs, x, y).L EXCEPT !.rpt = self], ce |-> NoCe]
    [] a.t = "layer" ->
         LET L1 == PushState(UpdateCoord(L0, x, y), St("lm", a.l, x, y, 0)) IN
         [L |-> OsOther(L1, isOs, x, y).L, ce |-> NoCe]
    [] a.t = "deflayer" ->
         LET L1 == UpdateCoord(L0, x, y)
             L2 == IF a.l < NLayers THEN [L1 EXCEPT !.dl = a.l] ELSE L1
         IN [L |-> OsOther(L2, isOs, x, y).L, ce |-> NoCe]
    [] a.t = "custom" ->
         LET L1 == [OsOther(UpdateCoord(L0, x, y), isOs, x, y).L EXCEPT !.rpt = self] IN
         IF Len(L1.states) < Caps.states
         THEN [L |-> PushState(L1, St("cu", aid, x, y, 0)), ce |-> CePress(aid, 0)]
         ELSE [L |-> L1, ce |-> NoCe]
    [] a.t = "relkey" ->
         LET L1 == [L0 EXCEPT !.states = FilterSeq(@, LAMBDA s : ~(s.t \in {"nk", "fk"} /\ s.a = a.kc))] IN
         [L |-> [OsOther(L1, isOs, x, y).L EXCEPT !.rpt = self], ce |-> NoCe]
    [] a.t = "rellayer" ->
         LET L1 == [L0 EXCEPT !.states = FilterSeq(@, LAMBDA s : ~(s.t = "lm" /\ s.a = a.l))] IN
         [L |-> [OsOther(L1, isOs, x, y).L EXCEPT !.rpt = self], ce |-> NoCe]
    [] a.t = "fork" ->
         LET right == \E i \in DOMAIN L0.states :
                         L0.states[i].t \in {"nk", "fk"} /\ Contains(a.trig, L0.states[i].a)
             r == DoAction(L0, IF right THEN a.right ELSE a.left, <<>>, x, y, delay, FALSE, stack)
         IN [L |-> [r.L EXCEPT !.rpt = self], ce |-> r.ce]
    [] a.t = "switch" ->
         LET env == EnvOf(L0) IN
         IF TransOrderPanics(L0) THEN [L |-> Panic(L0, "heapless:layer_stack"), ce |-> NoCe]
         ELSE IF AnyFault(a.cases, env) THEN [L |-> Panic(L0, "switch:evaluate"), ce |-> NoCe]
         ELSE LET fire == Firing(a.cases, env)
                  RECURSIVE pushAq(_, _)
                  pushAq(aq, f) == IF f = <<>> THEN aq
                                   ELSE pushAq(PushBackWrap(aq, [x |-> x, y |-> y, delay |-> 0, ac |-> Head(f)],
                                                            Caps.actionq).q, Tail(f))
              IN [L |-> [L0 EXCEPT !.aq = pushAq(@, fire)], ce |-> NoCe]

\* the loop of the MultipleActions arm (1866-1874)
DoActionSeq(L, acs, x, y, delay, isOs, stack, ce) ==
  IF acs = <<>> THEN [L |-> L, ce |-> ce]
  ELSE LET r == DoAction(L, Head(acs), <<>>, x, y, delay, isOs, stack) IN
       DoActionSeq(r.L, Tail(acs), x, y, delay, isOs, stack, CeUpdate(ce, r.ce))

\* ----- dequeue (1493-1539) -----------------------------------------------------------
Dequeue(L, q) ==
  IF L.panic # "" THEN [L |-> L, ce |-> NoCe]
  ELSE IF ~q.p
  THEN LET hr == OsHandleRelease(L.os, <<q.x, q.y>>)
           L1 == [L EXCEPT !.os = hr.os]
           r1 == IF hr.doRel THEN ReleaseCoordRec(L1.states, q.x, q.y, TRUE, NoCe)
                 ELSE [states |-> L1.states, ce |-> NoCe]
           r2 == IF hr.ov # <<>> THEN ReleaseCoordRec(r1.states, hr.ov[1][1], hr.ov[1][2], FALSE, r1.ce)
                 ELSE r1
       IN [L |-> [L1 EXCEPT !.states = r2.states], ce |-> r2.ce]
  ELSE IF TransOrderPanics(L) THEN [L |-> Panic(L, "heapless:layer_stack"), ce |-> NoCe]
  \* src: layout.rs:1566-1570 the asserts use `<=`; `self.layers[layer][x][y]` with y = 767 is out of bounds
  ELSE IF q.y >= KeysInRow THEN [L |-> Panic(L, "index:layers[l][x][y]"), ce |-> NoCe]
  ELSE LET stack == TransOrder(L) IN
       IF L.tde # <<>>
       THEN LET tde == L.tde[1]
                expired == tde.timeout = 0 \/ tde.ntaps >= Len(Act[tde.c].acs)
            IN IF <<q.x, q.y>> = L.lpc /\ ~expired
               THEN LET r == DoAction(L, Act[tde.c].acs[tde.ntaps + 1], <<>>, q.x, q.y, q.s, FALSE, Tail(stack)) IN
                    \* `self.tap_dance_eager.as_mut().expect("some").incr_taps()`
                    IF r.L.tde = <<>> THEN [L |-> Panic(r.L, "expect:tde"), ce |-> r.ce]
                    ELSE [L |-> [r.L EXCEPT !.tde = <<[r.L.tde[1] EXCEPT !.ntaps = @ + 1, !.timeout = r.L.tde[1].orig]>>],
                          ce |-> r.ce]
               ELSE LET L1 == IF q.x = 0 THEN [L EXCEPT !.tde = <<[tde EXCEPT !.timeout = 0]>>] ELSE L IN
                    DoAction(L1, TransId, <<>>, q.x, q.y, q.s, FALSE, stack)
       ELSE DoAction(L, TransId, <<>>, q.x, q.y, q.s, FALSE, stack)

\* ----- waiting_into_* (1120-1264); idx = -1 main, >= 0 extra index ---------------------
GetWaiting(L, idx) == IF idx < 0 THEN L.waiting
                      ELSE IF idx + 1 \in DOMAIN L.extra THEN <<L.extra[idx + 1]>> ELSE <<>>
RemoveWaiting(L, idx) == IF idx < 0 THEN [L EXCEPT !.waiting = <<>>]
                         ELSE [L EXCEPT !.extra = RemoveAt(@, idx + 1)]
\* src: layout.rs waiting_into_hold / _tap / _timeout: `w.delay.saturating_add(w.ticks)` (fix 871d8af; delay = saturated
\* queue age).  Model mutant Bug = "c02_wdelay_unchecked": the unchecked u16 addition before the fix (a panic with
\* overflow checks; the fourth site, decompose_chord_into_action_queue, has no panic branch in the model).
WDelay(w) == IF w.k = "td" THEN 0 ELSE SatAddU16(w.delay, w.ticks)
WDelayOverflows(w) == Bug = "c02_wdelay_unchecked" /\ w.k # "td" /\ w.delay + w.ticks > U16Max

WaitingIntoHold(L, idx) ==
  LET ws == GetWaiting(L, idx) IN
  IF ws = <<>> THEN [L |-> L, ce |-> NoCe]
  ELSE LET w == ws[1]
           L1 == RemoveWaiting(L, idx)
           L2 == IF <<w.x, w.y>> = L1.lpc THEN [L1 EXCEPT !.lpt = 0] ELSE L1
           L3 == [L2 EXCEPT !.os.pticks = L2.os.pdelay]
       IN IF WDelayOverflows(w) THEN [L |-> Panic(L, "add-overflow:waiting.delay+ticks@into_hold"), ce |-> NoCe]
          ELSE DoAction(L3, w.hold, <<>>, w.x, w.y, WDelay(w), FALSE, w.stack)

RECURSIVE DoOnCoords(_, _, _, _, _)
DoOnCoords(L, aid, coords, delay, stack) ==
  IF coords = <<>> THEN L
  ELSE DoOnCoords(DoAction(L, aid, <<>>, Head(coords)[1], Head(coords)[2], delay, FALSE, stack).L,
                  aid, Tail(coords), delay, stack)
RECURSIVE DoSimpleSubs(_, _, _, _, _)
DoSimpleSubs(L, acs, coords, delay, stack) ==
  IF acs = <<>> THEN L
  ELSE LET L1 == IF ActRec(Head(acs)).t \in {"key", "mkeys", "oneshot", "layer"}
                 THEN DoOnCoords(L, Head(acs), coords, delay, stack) ELSE L
       IN DoSimpleSubs(L1, Tail(acs), coords, delay, stack)

WaitingIntoTap(L, pq, somepq, idx) ==
  LET ws == GetWaiting(L, idx) IN
  IF ws = <<>> THEN [L |-> L, ce |-> NoCe]
  ELSE LET w == ws[1]
           L1 == IF WDelayOverflows(w) THEN Panic(L, "add-overflow:waiting.delay+ticks@into_tap") ELSE RemoveWaiting(L, idx)
           delay == WDelay(w)
           r == DoAction(L1, w.tap, <<>>, w.x, w.y, delay, FALSE, w.stack)
           tapRec == ActRec(w.tap)
           L2 == IF ~somepq THEN r.L
                 ELSE IF tapRec.t \in {"key", "mkeys", "oneshot", "layer"}
                 THEN DoOnCoords(r.L, w.tap, pq, delay, w.stack)
                 ELSE IF tapRec.t = "multi" THEN DoSimpleSubs(r.L, tapRec.acs, pq, delay, w.stack)
                 ELSE r.L
       IN [L |-> [L2 EXCEPT !.os.pticks = L2.os.pdelay], ce |-> r.ce]

WaitingIntoTimeout(L, idx) ==
  LET ws == GetWaiting(L, idx) IN
  IF ws = <<>> THEN [L |-> L, ce |-> NoCe]
  ELSE LET w == ws[1]
           L1 == RemoveWaiting(L, idx)
           L2 == IF <<w.x, w.y>> = L1.lpc THEN [L1 EXCEPT !.lpt = 0] ELSE L1
       IN IF WDelayOverflows(w) THEN [L |-> Panic(L, "add-overflow:waiting.delay+ticks@into_timeout"), ce |-> NoCe]
          ELSE DoAction(L2, w.toa, <<>>, w.x, w.y, WDelay(w), FALSE, w.stack)

\* ----- Layout::event (1541-1555), without chords v2 ------------------------------------
RECURSIVE ForceHolds(_, _)
ForceHolds(L, i) == IF i >= Caps.extra THEN L ELSE ForceHolds(WaitingIntoHold(L, i).L, i + 1)

EventL(L, ev) ==
  IF L.panic # "" THEN L
  ELSE LET L1 == IF ev.p THEN [L EXCEPT !.hi = HistPush(@, <<ev.x, ev.y>>)] ELSE L
           \* with a defchordsv2 table the event goes to the chords-v2 queue first (chord.rs:174 push_back_chv2,
           \* the same Queue type and capacity)
           pb == IF HasChv2 THEN PushBackWrap(L1.chv2.q, ev, Caps.queue) ELSE PushBackWrap(L1.queue, ev, Caps.queue)
           L2 == IF HasChv2 THEN [L1 EXCEPT !.chv2.q = pb.q] ELSE [L1 EXCEPT !.queue = pb.q]
       IN IF pb.ov = <<>> THEN L2
          ELSE Dequeue(ForceHolds(L2, 0 - 1), pb.ov[1]).L

\* ----- process_sequences (1355-1435) ---------------------------------------------------
ProcessOneSeq(L, sq) ==      \* returns [L, sq]
  LET evs == Act[sq.a].evs IN
  IF sq.delay > 0 THEN [L |-> L, sq |-> [sq EXCEPT !.delay = @ - 1]]
  ELSE IF sq.tapped # -1
  THEN [L |-> [L EXCEPT !.states = FilterSeq(@, LAMBDA s : ~(s.t = "fk" /\ s.a = sq.tapped))],
        sq |-> [sq EXCEPT !.tapped = -1]]
  ELSE LET pulled == sq.pos < Len(evs)
           sq1 == IF pulled THEN [sq EXCEPT !.pos = @ + 1] ELSE sq
       IN IF sq1.pos = 0 THEN [L |-> L, sq |-> sq1]
          ELSE LET e == evs[sq1.pos] IN
               CASE e.e = "complete" -> [L |-> L, sq |-> [sq1 EXCEPT !.pos = Len(evs)]]
                 [] e.e \in {"press", "tap"} ->
                      LET L1 == PushState(L, St("fk", e.kc, 0, 0, 0))
                          L2 == [L1 EXCEPT !.hk = HistPush(@, e.kc),
                                           !.os = OsHandlePress(L1.os, FALSE, <<0, 0>>).os]
                      IN [L |-> L2, sq |-> IF e.e = "tap" THEN [sq1 EXCEPT !.tapped = e.kc] ELSE sq1]
                 [] e.e = "release" ->
                      [L |-> [L EXCEPT !.os = OsHandleRelease(L.os, <<0, 0>>).os,
                                       !.states = FilterSeq(@, LAMBDA s : ~(s.t = "fk" /\ s.a = e.kc))],
                       sq |-> sq1]
                 [] e.e = "delay" ->
                      [L |-> L, sq |-> IF Bug = "seq_delay_short" /\ e.d > 0 THEN [sq1 EXCEPT !.delay = SatSub(e.d, 3)]
                                       ELSE IF Bug = "seq_delay_is_step" /\ sq1.pos < Len(evs) /\ evs[sq1.pos + 1].e = "press"
                                       THEN [sq1 EXCEPT !.pos = @ + 1]     \* C08 model mutants (DESIGN 3.4)
                                       ELSE IF e.d > 0 THEN [sq1 EXCEPT !.delay = e.d - 1] ELSE sq1]
                 [] e.e = "custom" -> [L |-> PushState(L, St("scp", sq.a, 0, 0, sq1.pos)), sq |-> sq1]
                 [] OTHER -> [L |-> L, sq |-> sq1]

RECURSIVE ProcessSeqsLoop(_, _)
ProcessSeqsLoop(L, n) ==
  IF n = 0 \/ L.seqs = <<>> THEN L
  ELSE LET r == ProcessOneSeq([L EXCEPT !.seqs = Tail(@)], Head(L.seqs))
           keep == r.sq.pos < Len(Act[r.sq.a].evs)
       IN ProcessSeqsLoop(IF keep THEN [r.L EXCEPT !.seqs = PushBackWrap(@, r.sq, Caps.seqs).q] ELSE r.L, n - 1)

ProcessSequences(L) ==
  LET L1 == ProcessSeqsLoop(L, Len(L.seqs)) IN
  IF L1.seqs = <<>>
  THEN LET i == LastIdx(L1.states, LAMBDA s : s.t = "rs") IN
       IF i = 0 THEN L1 ELSE [L1 EXCEPT !.seqs = <<NewSeq(L1.states[i].a)>>]
  ELSE L1

\* ----- process_extra_waitings (1437-1466) ------------------------------------------------
\* ticks extra waitings in order until one resolves; returns [L, i, r] (i = -1 none)
RECURSIVE ExtraLoop(_, _)
ExtraLoop(L, i) ==
  IF i > Len(L.extra) THEN [L |-> L, i |-> -1, r |-> <<>>]
  ELSE LET r == TickWt(L.extra[i], L.queue, L.aq)
           L1 == [L EXCEPT !.extra[i] = r.w, !.queue = r.queue, !.aq = r.aq]
       IN IF r.res = "none" THEN ExtraLoop(L1, i + 1) ELSE [L |-> L1, i |-> i - 1, r |-> <<r>>]

ProcessExtraWaitings(L, ce) ==
  IF ce.k # "none" THEN [L |-> L, ce |-> ce]
  ELSE LET e == ExtraLoop(L, 1) IN
       IF e.i = -1 THEN [L |-> e.L, ce |-> ce]
       ELSE LET r == e.r[1] IN
            CASE r.res = "hold" -> WaitingIntoHold(e.L, e.i)
              [] r.res = "tap" -> WaitingIntoTap(e.L, r.pq, r.somepq, e.i)
              [] r.res = "timeout" -> WaitingIntoTimeout(e.L, e.i)
              [] r.res = "noop" -> [L |-> [e.L EXCEPT !.waiting = <<>>], ce |-> NoCe]
              [] r.res = "panic:index:tap-dance.actions[idx]" ->
                   [L |-> Panic(e.L, "index:tap-dance.actions[idx]"), ce |-> NoCe]

\* ----- process_sequence_custom (1468-1492) ------------------------------------------------
ProcessSeqCustom(L, ce) ==
  IF L.states = <<>> \/ ce.k # "none" THEN [L |-> L, ce |-> ce]
  ELSE LET ss == FilterSeq(L.states, LAMBDA s : s.t # "tomb")
           i == SelectSeqIdx(ss, LAMBDA s : s.t \in {"scp", "sca"})
       IN IF i = 0 THEN [L |-> [L EXCEPT !.states = ss], ce |-> ce]
          ELSE IF ss[i].t = "scp"
          THEN [L |-> [L EXCEPT !.states = [ss EXCEPT ![i].t = "sca"]], ce |-> CePress(ss[i].a, ss[i].f)]
          ELSE [L |-> [L EXCEPT !.states = [ss EXCEPT ![i] = St("tomb", 0, 0, 0, 0)]],
                ce |-> CeRelease(ss[i].a, ss[i].f)]

\* ----- Layout::tick (1275-1352), without chords v2 ------------------------------------------
RECURSIVE OsReleaseAll(_, _, _)
OsReleaseAll(L, keys, ce) ==
  IF keys = <<>> THEN [L |-> L, ce |-> ce]
  ELSE LET r == Dequeue(L, [p |-> FALSE, x |-> Head(keys)[1], y |-> Head(keys)[2], s |-> 0]) IN
       OsReleaseAll(r.L, Tail(keys), CeUpdate(ce, r.ce))

TickMain(L0) ==     \* everything after the action-queue early return
  LET L1 == [L0 EXCEPT !.queue = [i \in DOMAIN @ |-> [@[i] EXCEPT !.s = SinceAdd1(@)]],
                       !.lpt = SatSub(@, 1)]
      L2 == IF L1.tde = <<>> THEN L1
            ELSE LET t == [L1.tde[1] EXCEPT !.timeout = SatSub(@, 1)] IN
                 IF t.timeout = 0 \/ t.ntaps >= Len(Act[t.c].acs) THEN [L1 EXCEPT !.tde = <<>>]
                 ELSE [L1 EXCEPT !.tde = <<t>>]
      L3 == ProcessSequences(L2)
      L4 == [L3 EXCEPT !.hk = HistTick(@), !.hi = HistTick(@)]
      ot == OsTick(L4.os)
      L5 == [L4 EXCEPT !.os = ot.os]
      r5 == IF ot.some THEN OsReleaseAll(L5, ot.rel, NoCe) ELSE [L |-> L5, ce |-> NoCe]
      L6 == r5.L
      r6 == IF L6.waiting # <<>>
            THEN LET t == TickWt(L6.waiting[1], L6.queue, L6.aq)
                     Lw == [L6 EXCEPT !.waiting = <<t.w>>, !.queue = t.queue, !.aq = t.aq]
                 IN CASE t.res = "hold" -> WaitingIntoHold(Lw, 0 - 1)
                      [] t.res = "tap" -> WaitingIntoTap(Lw, t.pq, t.somepq, 0 - 1)
                      [] t.res = "timeout" -> WaitingIntoTimeout(Lw, 0 - 1)
                      [] t.res = "noop" -> [L |-> [Lw EXCEPT !.waiting = <<>>], ce |-> NoCe]
                      [] t.res = "panic:index:tap-dance.actions[idx]" ->
                           [L |-> Panic(Lw, "index:tap-dance.actions[idx]"), ce |-> NoCe]
                      [] OTHER -> [L |-> Lw, ce |-> NoCe]
            ELSE IF L6.extra = <<>>
            THEN IF L6.os.pticks > 0 THEN [L |-> [L6 EXCEPT !.os.pticks = @ - 1], ce |-> NoCe]
                 ELSE IF L6.queue # <<>> THEN Dequeue([L6 EXCEPT !.queue = Tail(@)], Head(L6.queue))
                 ELSE [L |-> L6, ce |-> NoCe]
            ELSE [L |-> L6, ce |-> NoCe]
      ce6 == CeUpdate(r5.ce, r6.ce)
      r7 == ProcessExtraWaitings(r6.L, ce6)
  IN ProcessSeqCustom(r7.L, r7.ce)

\* src: layout.rs Layout::tick, the chords-v2 prologue (1281-1289): tick_chv2(active_layer) drains into the layout
\* queue (`extend` on the wrapping queue: an overflow drops the oldest event silently), then one unread chord action is
\* moved to the action queue and input processing is paused for rapid-event-delay ticks.
RECURSIVE ExtendWrap(_, _, _)
ExtendWrap(q, evs, cap) == IF evs = <<>> THEN q ELSE ExtendWrap(PushBackWrap(q, Head(evs), cap).q, Tail(evs), cap)
Chv2Step(L) ==
  LET t == CvTick(L.chv2, Opts.chv2, Opts.chords_v2_min_idle, CurrentLayer(L), Bug)
      g == CvGetAction(t.cv)
      L1 == [L EXCEPT !.queue = ExtendWrap(@, t.dq, Caps.queue), !.chv2 = g.cv]
      L2 == IF g.some
            THEN [L1 EXCEPT !.aq = PushBackWrap(@, [x |-> 0, y |-> g.y, delay |-> g.delay, ac |-> g.ac], Caps.actionq).q,
                            !.os.pticks = L1.os.pdelay]
            ELSE L1
  IN IF g.cv.panic # "" THEN Panic(L2, "chord.rs:" \o g.cv.panic) ELSE L2

TickLCore(L) ==
  IF L.panic # "" THEN [L |-> L, ce |-> NoCe]
  ELSE IF L.aq # <<>>
  THEN LET e == Head(L.aq)
           \* src: layout.rs tick(): since b96326a the history ages advance on this early-return path too
           \* (Bug = "aq_hist_frozen": the behaviour before the repair)
           L1 == IF Bug = "aq_hist_frozen" THEN [L EXCEPT !.aq = Tail(@)]
                 ELSE [L EXCEPT !.aq = Tail(@), !.hk = HistTick(@), !.hi = HistTick(@)]
       IN IF TransOrderPanics(L1) THEN [L |-> Panic(L1, "heapless:layer_stack"), ce |-> NoCe]
          ELSE LET st == TransOrder(L1) IN
               DoAction(L1, e.ac, <<>>, e.x, e.y, e.delay, FALSE, IF st = <<>> THEN <<>> ELSE Tail(st))
  ELSE TickMain(L)

TickL(L) == IF HasChv2 /\ L.panic = "" THEN TickLCore(Chv2Step(L)) ELSE TickLCore(L)

=============================================================================
