--------------------------------- MODULE Switch ---------------------------------
(***************************************************************************)
(* L1 model of the switch boolean-expression machinery:                    *)
(*   Compile(e)   parser/src/cfg/switch.rs  parse_switch_case_bool         *)
(*   Run(ops,env) keyberon/src/action/switch.rs evaluate_boolean, as an    *)
(*                explicit pc/stack machine, one step per loop iteration   *)
(*   Denote(e,env) the documented meaning of an expression (L2, written    *)
(*                from docs/config.adoc, independent of the opcode layout) *)
(*                                                                         *)
(* Expressions (text level):                                               *)
(*   [k |-> "key", kc]  [k |-> "or"|"and"|"not", args]                     *)
(*   [k |-> "keyhist", kc, n]  [k |-> "timing", n, cmp ("lt"|"gt"), t]      *)
(*   [k |-> "input", x, y]  [k |-> "inputhist", x, y, n]                    *)
(*   [k |-> "layer", l]  [k |-> "baselayer", l]                             *)
(* env: [keys : Seq(kc), coords : Seq(<<x,y>>), hk : Seq([e,age]),         *)
(*       hi : Seq([e,age]), layers : Seq(l), dl]                            *)
(***************************************************************************)
EXTENDS Naturals, Integers, Sequences, FiniteSets, TLC

OR_VAL == 4096     \* 0x1000
AND_VAL == 8192    \* 0x2000
NOT_VAL == 12288   \* 0x3000
INPUT_VAL == 851
HISTORICAL_INPUT_VAL == 852
LAYER_VAL == 853
BASE_LAYER_VAL == 854
TICKS_GT == 16384  \* 0x4000
TICKS_LT == 24576  \* 0x6000
HIST_KC == 32768   \* 0x8000
SW_KEY_MAX == 850
MAX_OPCODE_LEN == 4095
MAX_DEPTH == 8

\* src: switch.rs:225 lossy_compress_ticks / lossy_decompress_ticks
Compress(t) == IF t <= 255 THEN t
               ELSE IF t <= 2303 THEN (t - 255) \div 8 + 255
               ELSE (t - 2303) \div 128 + 511
Decompress(t) == IF t <= 255 THEN t
                 ELSE IF t <= 511 THEN (t - 255) * 8 + 255
                 ELSE (t - 511) * 128 + 2303

\* ----- Compile: text expression -> opcode list (as the parser does) -------------
OpBool(op, endIdx) == endIdx + (CASE op = "or" -> OR_VAL [] op = "and" -> AND_VAL [] op = "not" -> NOT_VAL)

PatchEnd(body, ph, op) == [body EXCEPT ![ph] = OpBool(op, Len(body))]
RECURSIVE CompileInto(_, _)
RECURSIVE CompileArgs(_, _)
\* appends the opcodes of e to ops (0-based end index = Len)
CompileInto(e, ops) ==
  CASE e.k = "key" -> Append(ops, e.kc)
    [] e.k = "keyhist" -> Append(ops, e.kc + HIST_KC + (e.n * 4096))
    [] e.k = "timing" -> Append(ops, (IF e.cmp = "lt" THEN TICKS_LT ELSE TICKS_GT)
                                      + Compress(e.t) + e.n * 1024)
    [] e.k = "input" -> ops \o <<INPUT_VAL, e.x * 16384 + e.y>>
    [] e.k = "inputhist" -> ops \o <<HISTORICAL_INPUT_VAL, e.x * 16384 + e.n * 2048 + e.y>>
    [] e.k = "layer" -> ops \o <<LAYER_VAL, e.l>>
    [] e.k = "baselayer" -> ops \o <<BASE_LAYER_VAL, e.l>>
    [] e.k \in {"or", "and", "not"} ->
         \* placeholder at the 1-based position Len(ops) + 1, back-patched with the end index
         \* (TLC note: no LET here -- a LET in a recursive operator is re-evaluated at every use)
         PatchEnd(CompileArgs(e.args, Append(ops, 0)), Len(ops) + 1, e.k)
CompileArgs(args, ops) ==
  IF args = <<>> THEN ops ELSE CompileArgs(Tail(args), CompileInto(Head(args), ops))

\* a case's condition is a list of expressions (implicit or)
Compile(exprs) == CompileArgs(exprs, <<>>)

\* ----- Run: the evaluator as a pc machine ----------------------------------------
Nth(s, n) == IF n + 1 <= Len(s) THEN <<s[n + 1]>> ELSE <<>>   \* iterator.nth(n), 0-based

\* decoded opcode at 0-based index i; `next` is ops[i+1] if present.
\* returns [ty, ...]; ty = "expectpanic" when the second word is missing (`expect`)
Decode(ops, i) ==
  LET w == ops[i + 1]
      hasNext == i + 2 <= Len(ops)     \* (not `\in DOMAIN ops`: TLC would build the set at every step)
      n == IF hasNext THEN ops[i + 2] ELSE 0
  IN IF w < SW_KEY_MAX THEN [ty |-> "key", kc |-> w]
     ELSE IF w <= MAX_OPCODE_LEN
     THEN IF ~hasNext THEN [ty |-> "expectpanic"]
          ELSE CASE w = INPUT_VAL -> [ty |-> "input", x |-> (n \div 16384) % 4, y |-> n % 1024]
                 [] w = HISTORICAL_INPUT_VAL ->
                      [ty |-> "inputhist", x |-> (n \div 16384) % 4, y |-> n % 1024,
                       n |-> (n \div 2048) % 8]
                 [] w = LAYER_VAL -> [ty |-> "layer", l |-> n]
                 [] w = BASE_LAYER_VAL -> [ty |-> "baselayer", l |-> n]
                 [] OTHER -> [ty |-> "unreachable"]
     ELSE LET top == (w \div 8192) * 8192    \* w & 0xE000
          IN IF top = TICKS_LT
             THEN [ty |-> "lt", n |-> (w % 8192) \div 1024, t |-> Decompress(w % 1024)]
             ELSE IF top = TICKS_GT
             THEN [ty |-> "gt", n |-> (w % 8192) \div 1024, t |-> Decompress(w % 1024)]
             ELSE IF top >= HIST_KC
             THEN [ty |-> "keyhist", kc |-> w % 4096, n |-> (w % 32768) \div 4096]
             ELSE LET opm == (w \div 4096) * 4096 IN
                  IF opm \in {OR_VAL, AND_VAL, NOT_VAL}
                  THEN [ty |-> "bool",
                        op |-> CASE opm = OR_VAL -> "or" [] opm = AND_VAL -> "and" [] OTHER -> "not",
                        idx |-> w % 4096]
                  ELSE [ty |-> "unreachable"]

Leaf(d, env) ==
  CASE d.ty = "key" -> \E i \in DOMAIN env.keys : env.keys[i] = d.kc
    [] d.ty = "keyhist" -> LET h == Nth(env.hk, d.n) IN h # <<>> /\ h[1].e = d.kc
    [] d.ty = "lt" -> LET h == Nth(env.hk, d.n) IN h # <<>> /\ h[1].age <= d.t
    [] d.ty = "gt" -> LET h == Nth(env.hk, d.n) IN h # <<>> /\ h[1].age > d.t
    [] d.ty = "input" -> \E i \in DOMAIN env.coords : env.coords[i] = <<d.x, d.y>>
    [] d.ty = "inputhist" -> LET h == Nth(env.hi, d.n) IN h # <<>> /\ h[1].e = <<d.x, d.y>>
    [] d.ty = "layer" -> env.layers # <<>> /\ env.layers[1] = d.l
    [] d.ty = "baselayer" -> env.dl = d.l
IsTwoWord(d) == d.ty \in {"input", "inputhist", "layer", "baselayer"}

\* machine state: [pc (0-based), endIdx, op, ret, stack : Seq([op, idx]), fault]
\* One call of Step = one iteration of `while current_index < bool_expr.len()`.
\* `v` selects the evaluator variant: "code" = the code as it is (since the repair 7126954 of the C10 finding
\* "not-nested-last" a popped `not` whose last operand was a nested list negates the result; "fixed" is a synonym kept
\* for the thorough tier); "m_notclear" = the behaviour before the repair (the result is cleared, not negated),
\* kept as a seeded design error; the others are further seeded design errors (DESIGN 3.4) that the
\* check must reject: "m_le" (key-timing lt compares with <), "m_unwind" (final unwinding loop
\* does not negate), "m_nojump" (`not` does not stop at the first true operand).
\* One loop iteration (TLC note: the LETs live in this non-recursive operator; a LET inside the
\* recursive operator itself makes TLC re-evaluate the whole chain of earlier states at each step).
StepX(ops, env, m, v) ==
    \* pop phase
    LET needPop == m.pc >= m.endIdx
        m1 == IF needPop
              THEN LET top == m.stack[Len(m.stack)] IN
                   [m EXCEPT !.op = top.op, !.endIdx = top.idx,
                             !.stack = SubSeq(m.stack, 1, Len(m.stack) - 1)]
              ELSE m
        shortc == needPop /\ ( (m1.ret /\ m1.op \in {"or", "not"}) \/ (~m1.ret /\ m1.op = "and")
                               \/ m1.pc >= m1.endIdx )
    IN IF shortc
       THEN [m1 EXCEPT !.ret = IF m1.op = "not" THEN (IF v = "m_notclear" THEN FALSE ELSE ~m1.ret) ELSE @,
                       !.pc = m1.endIdx, !.steps = @ + 1]
       ELSE
         LET d == Decode(ops, m1.pc) IN
         IF d.ty \in {"expectpanic", "unreachable"} THEN [m1 EXCEPT !.fault = d.ty]
         ELSE IF d.ty = "bool"
         THEN IF Len(m1.stack) >= MAX_DEPTH THEN [m1 EXCEPT !.fault = "depth"]
              ELSE [m1 EXCEPT !.stack = Append(@, [op |-> m1.op, idx |-> m1.endIdx]),
                              !.op = d.op, !.endIdx = d.idx, !.pc = @ + 1,
                              !.maxd = IF Len(m1.stack) + 1 > @ THEN Len(m1.stack) + 1 ELSE @,
                              !.steps = @ + 1]
         ELSE
           LET pc1 == IF IsTwoWord(d) THEN m1.pc + 1 ELSE m1.pc
               r0 == IF v = "m_le" /\ d.ty = "lt"
                     THEN (LET h == Nth(env.hk, d.n) IN h # <<>> /\ h[1].age < d.t)
                     ELSE Leaf(d, env)
               r == IF m1.op = "not" THEN ~r0 ELSE r0
               jump == (r /\ m1.op = "or") \/ (~r /\ m1.op = "and")
                       \/ (~r /\ m1.op = "not" /\ v # "m_nojump")
           IN [m1 EXCEPT !.ret = r, !.steps = @ + 1, !.pc = IF jump THEN m1.endIdx ELSE pc1 + 1]
\* `while current_index < len` is left, or `None => break` in the pop phase, or a panic
Halted(ops, m) == m.fault # "" \/ m.pc >= Len(ops) \/ (m.pc >= m.endIdx /\ m.stack = <<>>)
\* TLC note: 16 iterations per recursion level keep the Java stack shallow for 4095-opcode lists
\* (a deep stack makes every garbage collection slow).
StepH(ops, env, m, v) == IF Halted(ops, m) THEN m ELSE StepX(ops, env, m, v)
Step4(ops, env, m, v) == StepH(ops, env, StepH(ops, env, StepH(ops, env, StepH(ops, env, m, v), v), v), v)
Step16(ops, env, m, v) == Step4(ops, env, Step4(ops, env, Step4(ops, env, Step4(ops, env, m, v), v), v), v)
RECURSIVE RunMX(_, _, _, _, _)
RunMX(ops, env, m, fuel, v) ==
  IF Halted(ops, m) THEN m
  ELSE IF fuel <= 0 THEN [m EXCEPT !.fault = "nontermination"]
  ELSE RunMX(ops, env, Step16(ops, env, m, v), fuel - 16, v)
RunM(ops, env, m, fuel) == RunMX(ops, env, m, fuel, "code")

RECURSIVE Unwind(_, _)
Unwind(stack, ret) ==
  IF stack = <<>> THEN ret
  ELSE Unwind(SubSeq(stack, 1, Len(stack) - 1),
              IF stack[Len(stack)].op = "not" THEN ~ret ELSE ret)

InitM(ops) == [pc |-> 0, endIdx |-> Len(ops), op |-> "or", ret |-> TRUE, stack |-> <<>>, fault |-> "",
               maxd |-> 0, steps |-> 0]
\* every loop iteration either consumes an opcode (pc grows) or pops a stack entry that an earlier
\* iteration pushed while consuming an opcode: at most 2 * Len(ops) + 1 iterations.  The fuel is
\* twice that; running out of it is reported as the fault "nontermination".
Fuel(ops) == 4 * Len(ops) + 8
\* result record [val, fault, depth (maximal operator-stack depth), steps (loop iterations)]
RunX(ops, env, v) ==
  LET m == RunMX(ops, env, InitM(ops), Fuel(ops), v) IN
  [val |-> IF v = "m_unwind" THEN m.ret ELSE Unwind(m.stack, m.ret),
   fault |-> m.fault, depth |-> m.maxd, steps |-> m.steps]
Run(ops, env) == RunX(ops, env, "code")
RunVal(ops, env) == Run(ops, env).val

\* ----- Denote: what the documentation says ---------------------------------------
\* documented resolution of key-timing thresholds (keyberon/src/action/switch.rs doc comments of
\* new_ticks_since_*: "At 256 ticks or above ... a resolution of 8ms (rounded down). At 2304 ticks
\* or above ... 128 ms (rounded down)"): exact to 255, steps of 8 from 255, steps of 128 from 2303.
\* Written without reference to lossy_compress_ticks / lossy_decompress_ticks.
Quant(t) == IF t <= 255 THEN t
            ELSE IF t <= 2303 THEN 255 + ((t - 255) \div 8) * 8
            ELSE 2303 + ((t - 2303) \div 128) * 128
RECURSIVE Denote(_, _)
Denote(e, env) ==
  CASE e.k = "key" -> \E i \in DOMAIN env.keys : env.keys[i] = e.kc
    [] e.k = "or" -> \E i \in DOMAIN e.args : Denote(e.args[i], env)
    [] e.k = "and" -> \A i \in DOMAIN e.args : Denote(e.args[i], env)
    [] e.k = "not" -> \A i \in DOMAIN e.args : ~Denote(e.args[i], env)
    [] e.k = "keyhist" -> Len(env.hk) > e.n /\ env.hk[e.n + 1].e = e.kc
    \* documented resolution: exact to 255, 8 ms to 2303, 128 ms above (rounded down)
    [] e.k = "timing" ->
         LET q == Quant(e.t)
         IN Len(env.hk) > e.n /\ (IF e.cmp = "lt" THEN env.hk[e.n + 1].age <= q
                                  ELSE env.hk[e.n + 1].age > q)
    [] e.k = "input" -> \E i \in DOMAIN env.coords : env.coords[i] = <<e.x, e.y>>
    [] e.k = "inputhist" -> Len(env.hi) > e.n /\ env.hi[e.n + 1].e = <<e.x, e.y>>
    [] e.k = "layer" -> env.layers # <<>> /\ env.layers[1] = e.l
    [] e.k = "baselayer" -> env.dl = e.l
\* a case condition: list of expressions, true iff any is true; the empty list is true
DenoteCond(exprs, env) == exprs = <<>> \/ \E i \in DOMAIN exprs : Denote(exprs[i], env)

\* ----- cases ----------------------------------------------------------------------
\* cases : Seq([ops, ac, brk]); returns the list of firing action ids, in order
RECURSIVE FiringFrom(_, _, _)
FiringFrom(cases, i, env) ==
  IF i > Len(cases) THEN <<>>
  ELSE IF RunVal(cases[i].ops, env)
       THEN IF cases[i].brk THEN <<cases[i].ac>>
            ELSE <<cases[i].ac>> \o FiringFrom(cases, i + 1, env)
       ELSE FiringFrom(cases, i + 1, env)
Firing(cases, env) == FiringFrom(cases, 1, env)
AnyFault(cases, env) == \E i \in DOMAIN cases : Run(cases[i].ops, env).fault # ""

\* L2 (from the documentation, independent of the opcode machinery and not recursive over the
\* list): text-level cases : Seq([cond (list of expressions), ac, brk]).  Case i fires iff its
\* condition is true and no earlier case was both true and `break`; firing actions in list order.
CaseFires(tcases, i, env) ==
  /\ DenoteCond(tcases[i].cond, env)
  /\ \A j \in 1..(i - 1) : ~(DenoteCond(tcases[j].cond, env) /\ tcases[j].brk)
FiringIdx(tcases, env) ==
  LET idx == [i \in 1..Len(tcases) |-> i] IN SelectSeq(idx, LAMBDA i : CaseFires(tcases, i, env))
DenoteCases(tcases, env) ==
  LET f == FiringIdx(tcases, env) IN [i \in 1..Len(f) |-> tcases[f[i]].ac]
\* the compiled form of a text-level case list (what the parser produces)
CompileCases(tcases) ==
  [i \in 1..Len(tcases) |-> [ops |-> Compile(tcases[i].cond), ac |-> tcases[i].ac, brk |-> tcases[i].brk]]
=============================================================================
