---------------------------------- MODULE P_C09 ----------------------------------
(***************************************************************************)
(* L2 monitor for C09: input chords fire for exactly the pressed key set,  *)
(* in any press order (defchords v1 and defchordsv2).  Written from the     *)
(* property statement and docs/config.adoc ("Input chords", "Input chords / *)
(* combos (v2)", chords-v2-min-idle); tick calibration: DESIGN Appendix A.   *)
(*                                                                         *)
(* params p (text level, never from the parser dump):                      *)
(*   ver    1 (defchords + (chord g k)) | 2 (defchordsv2)                    *)
(*   T      v1: the group's timeout                                          *)
(*   keys   Seq([c, o]): every input key of the instance and the distinct,   *)
(*          otherwise unused key it outputs when delivered individually      *)
(*          (v1: the action of its single-key chord, 0 = none defined)       *)
(*   part   Seq(code): keys that take part in chords                         *)
(*   chords Seq([ks, o, u, T, first, dis]): key set (>= 2 keys), the action  *)
(*          (a distinct output key o, and/or a unicode character u - an     *)
(*          output that shows every performance; "" = none), timeout, release *)
(*          rule (v2 first-release; v1: FALSE), disabled layers (v2)         *)
(*   red    rapid-event-delay;  minidle  chords-v2-min-idle                  *)
(*   lkey   0 or the key that holds layer 1 (layer-while-held)               *)
(*   slack  ticks allowed between the release condition and the release      *)
(*                                                                         *)
(* Everywhere (accounting):                                                 *)
(*  H1  a chord action consumes one fresh press of each of its keys: it is  *)
(*      never performed twice for the same presses, and a press used by a   *)
(*      chord is not also delivered individually;                           *)
(*  H4  an individual output consumes a press of its key; individually      *)
(*      delivered keys keep their original order; when kanata is idle with  *)
(*      nothing pending every press has been accounted for (not swallowed); *)
(*  H5  a chord never fires from presses made on a layer it is disabled on; *)
(*  H3  release: the action of a chord is not released while its rule says  *)
(*      it is held (v1 whole-set chords / v2 all-released: some participant *)
(*      still held; v2 first-release: no participant released yet), and it  *)
(*      is released within `slack` ticks of the release condition.          *)
(* Sharp zone (a group of presses that starts while kanata is idle, quiet   *)
(* and accepting chords, made of participant presses only):                 *)
(*  H1/H2 the group ends when the window closes, a pressed key is released, *)
(*      a key that cannot extend the set is pressed, or the set is a chord  *)
(*      with no defined superset; the set G pressed by then - whatever the  *)
(*      order - decides: G defined => exactly action(G), on that tick;      *)
(*      v1, G undefined => the largest defined sub-chords in press order;   *)
(*      v2, G undefined => no claim beyond the accounting (delivered to the *)
(*      layer or decomposed).  A press arriving exactly T ticks after the    *)
(*      first (v2) is the documented boundary and makes the group soft.     *)
(* Conventions of the soft zone (corrections made while triaging traces of  *)
(* the unchanged code, see the final report of the check):                  *)
(*  - "a participant was released" = a release input of that key since the   *)
(*    chord's first press arrived (also when the key was pressed again);     *)
(*  - the release deadline counts consecutive silent ticks (a release queued  *)
(*    behind other events is not late while outputs keep coming) and waits    *)
(*    while a participant key is physically down;                             *)
(*  - a chord re-activated while its output key is still down cannot be seen  *)
(*    at the OS level: presses that may have been consumed that way (`hid`)   *)
(*    are not claimed; with a key+unicode action the character shows it.      *)
(* All rules hold unconditionally: the four defects of chord.rs this check   *)
(* found are repaired (6c7bac1, e173bdb, 6fd250f, deba873).                  *)
(***************************************************************************)
EXTENDS Obs

KS(ch) == SeqToSet(ch.ks)
\* defchords v1: several physical keys may carry the same chord key ((chord g s) on lsft and on rsft): p.same lists
\* [c |-> physical key, k |-> the key it stands for]; every rule is stated on the chord keys, so either physical key
\* completes the chord.  (Environment assumption of the instances: the physical keys of one chord key are not down at
\* the same time.)
Canon(p, c) == LET I == {i \in DOMAIN p.same : p.same[i].c = c} IN
               IF I = {} THEN c ELSE p.same[CHOOSE i \in I : TRUE].k
FirstIdx(s, P(_)) == LET I == {i \in DOMAIN s : P(s[i])} IN
                     IF I = {} THEN 0 ELSE CHOOSE i \in I : \A j \in I : i <= j
DropAt(s, i) == SubSeq(s, 1, i - 1) \o SubSeq(s, i + 1, Len(s))
\* a chord action may hold a layer ((multi <key> (layer-while-held l1)), chord.ly); a key whose meaning differs on that
\* layer (keys[i].ol # 0: its output there) shows whether the layer is active when its press is processed
IndOutL(p, c) == LET i == FirstIdx(p.keys, LAMBDA k : k.c = c) IN IF i = 0 THEN 0 ELSE p.keys[i].ol
KeyOfOutL(p, o) == LET i == FirstIdx(p.keys, LAMBDA k : k.ol = o /\ o # 0) IN IF i = 0 THEN 0 ELSE p.keys[i].c
IndOut(p, c) == LET i == FirstIdx(p.keys, LAMBDA k : k.c = c) IN IF i = 0 THEN 0 ELSE p.keys[i].o
KeyOfOut(p, o) == LET i == FirstIdx(p.keys, LAMBDA k : k.o = o /\ o # 0) IN IF i = 0 THEN 0 ELSE p.keys[i].c
ChordOfOut(p, o) == FirstIdx(p.chords, LAMBDA ch : ch.o = o /\ o # 0)
ChordOfUni(p, u) == FirstIdx(p.chords, LAMBDA ch : ch.u = u /\ u # "")
IsPart(p, c) == InSeq(p.part, c)
EnabledOn(ch, lay) == ~InSeq(ch.dis, lay)

\* the action the table defines for exactly the set G on layer lay: <<>> or <<[o, u, ci]>>
DefAct(p, G, lay) ==
  LET i == FirstIdx(p.chords, LAMBDA ch : KS(ch) = G /\ EnabledOn(ch, lay)) IN
  IF i # 0 THEN <<[o |-> p.chords[i].o, u |-> p.chords[i].u, ci |-> i]>>
  ELSE IF p.ver = 1 /\ Cardinality(G) = 1 /\ IndOut(p, CHOOSE c \in G : TRUE) # 0
  THEN <<[o |-> IndOut(p, CHOOSE c \in G : TRUE), u |-> "", ci |-> 0]>>
  ELSE <<>>
HasSuper(p, G, lay) == \E i \in DOMAIN p.chords : EnabledOn(p.chords[i], lay) /\ G \subseteq KS(p.chords[i]) /\ G # KS(p.chords[i])
CanExtend(p, G, lay) == \E i \in DOMAIN p.chords : EnabledOn(p.chords[i], lay) /\ G \subseteq KS(p.chords[i])
MinT(p, G, lay) == LET S == {p.chords[i].T : i \in {j \in DOMAIN p.chords : EnabledOn(p.chords[j], lay) /\ G \subseteq KS(p.chords[j])}} IN
                   IF S = {} THEN 0 ELSE CHOOSE t \in S : \A u \in S : t <= u

\* v1: "decomposed into the largest defined sub-chords in their original order"
RECURSIVE Decomp(_, _)
Decomp(p, g) ==
  IF g = <<>> THEN <<>>
  ELSE LET N == {n \in 1..Len(g) : DefAct(p, SeqToSet(SubSeq(g, 1, n)), 0) # <<>>} IN
       IF N = {} THEN Decomp(p, Tail(g))
       ELSE LET n == CHOOSE k \in N : \A j \in N : k >= j IN
            DefAct(p, SeqToSet(SubSeq(g, 1, n)), 0) \o Decomp(p, SubSeq(g, n + 1, Len(g)))

MonInit(p) ==
  [p |-> p,
   pend |-> <<>>,     \* presses not yet accounted for, in arrival order: [c, xr, ly, sk, hid, cl]
                      \*   xr = keys released (input) since this press arrived; ly = layer it was made on (-1 unknown);
                      \*   sk = a later press was delivered before it; hid = chord that may have consumed it unseen
   acts |-> <<>>,     \* chord actions currently held: [ci, rem, all, chk, due, useen]
   gst |-> "none",    \* sharp group: "none" | "open"
   g |-> <<>>,        \* its presses in arrival order
   el |-> 0,          \* ticks since its first press arrived
   term |-> "none",   \* "none" | "rel" | "other": what ended the accumulation
   arr |-> FALSE,     \* a press joined the group since the last tick
   exp |-> <<>>,      \* expected activations of the resolved group, in order
   expLeft |-> 0 - 1, \* ticks left for the first of them (-1: no claim)
   expDef |-> FALSE,  \* the expectation is the whole set's own action
   phys |-> {},       \* keys physically down (from the inputs)
   lay |-> 0, lheld |-> FALSE,
   gapIn |-> 0, lastIdle |-> TRUE, cbRun |-> 2, quiet |-> p.red + 1, err |-> ""]

Settled(m) ==
  /\ m.lastIdle /\ m.quiet > m.p.red /\ m.pend = <<>> /\ m.gapIn = 0 /\ m.exp = <<>> /\ m.gst = "none"
  \* v2: chords were accepted (no cool-down) for two ticks, so no stale skip counter of chord.rs is left either
  /\ (m.p.ver = 2 => m.cbRun >= 2 /\ m.acts = <<>>)

MonIn(m, r) ==
  IF m.err # "" THEN m
  ELSE IF r.e \notin {"d", "u"} THEN Fail(m, "C09: input kind outside the instance")
  ELSE
    LET p == m.p
        c == Canon(p, r.c)
        \* (v2: any queued event makes chord.rs look at the pending presses again on the next tick)
        m0 == [m EXCEPT !.gapIn = 1, !.phys = IF r.e = "d" THEN @ \cup {c} ELSE @ \ {c},
                        !.arr = @ \/ (m.p.ver = 2 /\ m.gst = "open")]
        G == SeqToSet(m.g)
    IN
    IF p.lkey # 0 /\ c = p.lkey
    THEN \* the active layer is in doubt until kanata has settled again
         [m0 EXCEPT !.lay = 0 - 1, !.lheld = (r.e = "d"),
                    !.pend = [i \in DOMAIN @ |-> [@[i] EXCEPT !.ly = 0 - 1]],
                    !.gst = "none", !.g = <<>>]
    ELSE IF r.e = "d"
    THEN LET \* events are processed in arrival order, so the chord layer this press meets is decided by the releases
             \* that arrived before it: 1 = a layer-holding chord action has a participant still held (release rule: the
             \* action lasts until then), 0 = no such chord is held or pending, -1 = no claim
             LA == {j \in DOMAIN m.acts : p.chords[m.acts[j].ci].ly}
             cl == IF \E j \in LA : m.acts[j].chk /\ m.acts[j].rem # {} THEN 1
                   ELSE IF LA # {} \/ m.gst # "none" \/ m.exp # <<>> \/ \E i \in DOMAIN m.pend : IsPart(p, m.pend[i].c) THEN 0 - 1
                   ELSE 0
             m1 == [m0 EXCEPT !.pend = Append(@, [c |-> c, xr |-> {}, ly |-> m.lay, sk |-> FALSE, hid |-> 0, cl |-> cl])]
         IN IF m.gst = "none"
            THEN IF Settled(m) /\ IsPart(p, c) /\ m.lay >= 0 /\ (p.ver = 1 \/ CanExtend(p, {c}, m.lay))
                 THEN [m1 EXCEPT !.gst = "open", !.g = <<c>>, !.el = 0, !.term = "none", !.arr = TRUE]
                 ELSE m1
            ELSE IF m.term # "none" THEN m1
            ELSE IF p.ver = 1
            THEN IF IsPart(p, c) THEN [m1 EXCEPT !.g = Append(@, c), !.arr = TRUE] ELSE [m1 EXCEPT !.term = "other"]
            ELSE IF CanExtend(p, G \cup {c}, m.lay)
            THEN IF m.el >= MinT(p, G, m.lay)
                 THEN [m1 EXCEPT !.gst = "none", !.g = <<>>]      \* arrival exactly at the window's end: soft
                 ELSE [m1 EXCEPT !.g = Append(@, c), !.arr = TRUE]
            ELSE [m1 EXCEPT !.term = "other"]
    ELSE \* release: "key c was released" for every press still pending and for every held chord action c takes part in
         \* (also when c was pressed again since: chord.rs applies a queued release to every active chord of the key)
         LET m1 == [m0 EXCEPT !.pend = [i \in DOMAIN @ |-> [@[i] EXCEPT !.xr = @ \cup {c}]],
                              !.acts = [j \in DOMAIN @ |->
                                          IF c \in @[j].rem
                                          THEN [@[j] EXCEPT !.rem = @ \ {c}]
                                          ELSE @[j]]]
         IN IF m.gst = "open" /\ m.term = "none" /\ (c \in G \/ (p.ver = 1 /\ IsPart(p, c)))
            THEN [m1 EXCEPT !.term = "rel"] ELSE m1

\* ---- outputs of one tick ---------------------------------------------------------------
ExpOk(m, o, u) == m.exp = <<>> \/ (Head(m.exp).o = o /\ Head(m.exp).u = u)
PopExp(m) == IF m.exp = <<>> THEN m ELSE [m EXCEPT !.exp = Tail(@), !.expLeft = 0 - 1]

\* the press of key k an observed activation consumes: the oldest one that was not possibly consumed unseen
PickIdx(pend, k) == LET i == FirstIdx(pend, LAMBDA e : e.c = k /\ e.hid = 0) IN
                    IF i # 0 THEN i ELSE FirstIdx(pend, LAMBDA e : e.c = k)

ActivateChord(m, ci) ==
  LET p == m.p
      ch == p.chords[ci]
      S == KS(ch)
      idx(k) == PickIdx(m.pend, k)
      missing == \E k \in S : idx(k) = 0
      I == {idx(k) : k \in S}
      lys == {m.pend[i].ly : i \in I}
      oldest == CHOOSE i \in I : \A j \in I : i <= j
      xr0 == m.pend[oldest].xr \cap S          \* participants released since the set's first press arrived
      fromExp == m.exp # <<>>
      keep == SelectSeq([i \in DOMAIN m.pend |-> [e |-> m.pend[i], i |-> i]], LAMBDA x : x.i \notin I)
      pend1 == [i \in DOMAIN keep |-> keep[i].e]
      rem == S \ xr0
  IN IF missing
     THEN Fail(m, "C09 H1: chord action performed without a fresh press of each of its keys (or twice for one set of presses)")
     ELSE IF \E L \in SeqToSet(ch.dis) : lys = {L}
     THEN Fail(m, "C09 H5: chord fired from presses made on a layer it is disabled on")
     ELSE IF ~ExpOk(m, ch.o, ch.u)
     THEN Fail(m, "C09 H1/H2: wrong outcome for the pressed key set (another chord than the one defined for the set)")
     ELSE LET m1 == PopExp([m EXCEPT !.pend = pend1]) IN
          IF ch.o = 0 THEN m1
          ELSE [m1 EXCEPT !.acts = Append(@, [ci |-> ci, rem |-> rem, all |-> S,
                                             chk |-> (p.ver = 2 \/ (fromExp /\ m.expDef)), due |-> 0,
                                             useen |-> FALSE])]

\* a chord whose action is a key and a unicode character: the key shows how long the action is held, the character
\* shows every performance (a second activation while the key is down does not press the key again)
UniOfKeyChord(m, ci) ==
  LET j == FirstIdx(m.acts, LAMBDA a : a.ci = ci /\ ~a.useen)
      S == KS(m.p.chords[ci])
  IN IF j # 0 THEN [m EXCEPT !.acts[j].useen = TRUE]
     ELSE IF \A k \in S : PickIdx(m.pend, k) # 0
     THEN \* a further activation for fresh presses while the key is still down
          LET I == {PickIdx(m.pend, k) : k \in S}
              oldest == CHOOSE i \in I : \A i2 \in I : i <= i2
              xr0 == m.pend[oldest].xr \cap S
              keep == SelectSeq([i \in DOMAIN m.pend |-> [e |-> m.pend[i], i |-> i]], LAMBDA x : x.i \notin I)
              a0 == FirstIdx(m.acts, LAMBDA a : a.ci = ci)
              m1 == [m EXCEPT !.pend = [i \in DOMAIN keep |-> keep[i].e]]
          IN IF a0 = 0 THEN m1 ELSE [m1 EXCEPT !.acts[a0].rem = S \ xr0, !.acts[a0].due = 0]
     ELSE Fail(m, "C09 H1: chord action performed without a fresh press of each of its keys (or twice for one set of presses)")

Individual(m, kc, o) ==
  \* the layer delivers in arrival order: the oldest pending press of the key.  If that press was marked as possibly
  \* consumed unseen (hid), the doubt passes to the next press of the same key.
  LET i == FirstIdx(m.pend, LAMBDA e : e.c = kc) IN
  IF i = 0
  THEN Fail(m, "C09 H1: individual output of a key without a fresh press (a participant of a fired chord, or delivered twice)")
  ELSE IF m.pend[i].sk
  THEN Fail(m, "C09 H4: keys delivered out of their original order")
  ELSE IF ~ExpOk(m, o, "")
  THEN Fail(m, "C09 H1/H2: wrong outcome for the pressed key set (individual key instead of the defined chord / sub-chord)")
  ELSE IF IndOutL(m.p, kc) # 0 /\ o = IndOut(m.p, kc) /\ m.pend[i].cl = 1
  THEN Fail(m, "C09 H3: the layer held by a chord action is gone while a participant of the chord is still held (a later key got its base-layer meaning)")
  ELSE IF IndOutL(m.p, kc) # 0 /\ o = IndOutL(m.p, kc) /\ m.pend[i].cl = 0
  THEN Fail(m, "C09 H3: the layer of a chord action is active although no chord holds it")
  ELSE LET before == SubSeq(m.pend, 1, i - 1)
           after == SubSeq(m.pend, i + 1, Len(m.pend))
           j == FirstIdx(after, LAMBDA e : e.c = kc)
           after1 == IF j = 0 THEN after
                     ELSE [after EXCEPT ![j].hid = IF @ = 0 THEN m.pend[i].hid ELSE @]
       IN \* (presses that a hidden re-activation may have consumed are left out of the order claim)
          PopExp([m EXCEPT !.pend = [k \in DOMAIN before |-> IF before[k].hid = 0 THEN [before[k] EXCEPT !.sk = TRUE] ELSE before[k]]
                                    \o after1])

ReleaseChord(m, ci) ==
  LET j == FirstIdx(m.acts, LAMBDA a : a.ci = ci) IN
  IF j = 0 THEN m          \* a release of a key that is up changes nothing (normalised)
  ELSE LET a == m.acts[j]
           first == m.p.chords[ci].first
       IN IF a.chk /\ ~first /\ a.rem # {}
          THEN Fail(m, "C09 H3: chord action released while a participant is still held")
          ELSE IF a.chk /\ first /\ a.rem = a.all
          THEN Fail(m, "C09 H3: first-release chord action released before any participant was released")
          ELSE [m EXCEPT !.acts = DropAt(@, j)]

RECURSIVE Scan(_, _)
Scan(m, out) ==
  IF out = <<>> \/ m.err # "" THEN m
  ELSE LET e == Head(out)
           p == m.p
       IN IF e[1] = "d"
          THEN LET ci == ChordOfOut(p, e[2])
                   kc == IF KeyOfOut(p, e[2]) # 0 THEN KeyOfOut(p, e[2]) ELSE KeyOfOutL(p, e[2])
               IN IF ci # 0 THEN Scan(ActivateChord(m, ci), Tail(out))
                  ELSE IF kc # 0 THEN Scan(Individual(m, kc, e[2]), Tail(out))
                  ELSE Scan(m, Tail(out))
          ELSE IF e[1] = "U"
          THEN LET ci == ChordOfUni(p, e[2]) IN
               IF ci = 0 THEN Scan(m, Tail(out))
               ELSE IF p.chords[ci].o = 0 THEN Scan(ActivateChord(m, ci), Tail(out))
               ELSE Scan(UniOfKeyChord(m, ci), Tail(out))
          ELSE IF e[1] = "u"
          THEN LET ci == ChordOfOut(p, e[2]) IN
               IF ci # 0 THEN Scan(ReleaseChord(m, ci), Tail(out)) ELSE Scan(m, Tail(out))
          ELSE Scan(m, Tail(out))

MonTick(m, out, idle, cb) ==
  IF m.err # "" THEN m
  ELSE
    LET p == m.p
        \* ---- 1. the sharp group: does it end on this tick, and what must happen?
        el1 == m.el + 1
        G == SeqToSet(m.g)
        def == DefAct(p, G, m.lay)
        unamb == def # <<>> /\ ~HasSuper(p, G, m.lay)
        mt == MinT(p, G, m.lay)
        resolve == m.gst = "open" /\
                   IF p.ver = 1 THEN el1 >= 2 /\ (m.term # "none" \/ unamb \/ el1 >= p.T)
                   ELSE m.term # "none" \/ unamb \/ el1 >= mt + 1 \/ (el1 = mt /\ m.arr)
        exp == IF def # <<>> THEN def ELSE IF p.ver = 1 THEN Decomp(p, m.g) ELSE <<>>
        m1 == IF ~resolve THEN [m EXCEPT !.el = IF m.gst = "open" THEN el1 ELSE 0, !.arr = FALSE]
              ELSE [m EXCEPT !.gst = "none", !.g = <<>>, !.el = 0, !.arr = FALSE, !.term = "none",
                             !.exp = exp, !.expDef = def # <<>>,
                             !.expLeft = IF exp = <<>> THEN 0 - 1 ELSE IF def # <<>> THEN 0 ELSE 1]
        m2 == m1
        \* ---- 2. the outputs
        m3a == Scan(m2, out)
        \* ---- 2b. v2: while a chord's output key is down, a further activation of the same chord is invisible at the OS
        \* level; presses that may have been consumed that way are marked and no longer claimed
        hidFor(mm, a) == LET S == a.all IN
                         IF \A k \in S : \E i \in DOMAIN mm.pend : mm.pend[i].c = k /\ mm.pend[i].hid = 0
                         THEN {FirstIdx(mm.pend, LAMBDA e : e.c = k /\ e.hid = 0) : k \in S} ELSE {}
        hidIdx == IF p.ver = 1 THEN [i \in {} |-> 0]
                  ELSE [i \in UNION {hidFor(m3a, m3a.acts[j]) : j \in DOMAIN m3a.acts} |->
                          LET J == {j \in DOMAIN m3a.acts : i \in hidFor(m3a, m3a.acts[j])} IN m3a.acts[CHOOSE j \in J : TRUE].ci]
        m3 == IF m3a.err # "" \/ p.ver = 1 THEN m3a
              ELSE [m3a EXCEPT !.pend = [i \in DOMAIN @ |->
                                           IF i \in DOMAIN hidIdx THEN [@[i] EXCEPT !.hid = hidIdx[i]] ELSE @[i]]]
        \* ---- 3. deadlines
        settledNow == idle /\ m.lastIdle /\ m.gapIn = 0
        \* (a press of an undefined single-key chord is consumed silently, so `rem` may be attributed to an older press
        \*  of the key: the deadline also waits until no participant is physically down)
        relCond(a) == /\ IF p.chords[a.ci].first THEN a.rem # a.all ELSE a.rem = {} /\ a.all \cap m.phys = {}
                      /\ ~\E i \in DOMAIN m3.pend : m3.pend[i].hid = a.ci
        \* the deadline counts consecutive silent ticks: while kanata still works through queued events (one per tick,
        \* with rapid-event pauses) outputs keep coming and the release is merely queued behind them
        acts1 == [i \in DOMAIN m3.acts |-> [m3.acts[i] EXCEPT !.due = IF relCond(m3.acts[i]) /\ out = <<>>
                                                                       THEN OMin(@ + 1, p.slack + 1) ELSE 0]]
        stuck == {i \in DOMAIN acts1 : acts1[i].due > p.slack}
        \* presses left when kanata has settled, per key: every `hid` mark excuses one press of the key silently (a chord
        \* re-activation under a held output key is invisible)
        cnt(k) == Cardinality({i \in DOMAIN m3.pend : m3.pend[i].c = k})
        hidc(k) == Cardinality({i \in DOMAIN m3.pend : m3.pend[i].c = k /\ m3.pend[i].hid # 0})
        left == {k \in {m3.pend[i].c : i \in DOMAIN m3.pend} : IndOut(p, k) # 0 /\ cnt(k) > hidc(k)}
        m4 == IF m3.err # "" THEN m3
              ELSE IF m3.expLeft = 0
              THEN Fail(m3, "C09 H1: the action for the pressed key set was not performed on the tick its window closed")
              ELSE IF stuck # {}
              THEN Fail(m3, "C09 H3: chord action still held after its release condition")
              ELSE IF settledNow /\ left # {}
              THEN Fail(m3, "C09 H4: a pressed key was swallowed (neither a chord nor its own action accounts for it)")
              ELSE [m3 EXCEPT !.acts = acts1,
                              !.expLeft = IF @ > 0 THEN @ - 1 ELSE @,
                              !.pend = IF settledNow THEN <<>> ELSE @]
    IN IF m4.err # "" THEN m4
       ELSE [m4 EXCEPT !.lay = IF settledNow THEN (IF m.lheld THEN 1 ELSE 0) ELSE @,
                       !.expDef = IF m4.exp = <<>> THEN FALSE ELSE @,
                       !.gapIn = 0, !.lastIdle = idle, !.cbRun = IF p.ver = 1 \/ cb THEN OMin(@ + 1, 2) ELSE 0,
                       !.quiet = IF out = <<>> THEN OMin(m4.quiet + 1, p.red + 1) ELSE 0]

RECURSIVE MonSilent(_, _, _, _)
MonSilent(m, n, idle, cb) ==
  IF n = 0 \/ m.err # "" THEN m
  ELSE LET m1 == MonTick(m, <<>>, idle, cb) IN
       IF m1 = m THEN m ELSE MonSilent(m1, n - 1, idle, cb)
=============================================================================
