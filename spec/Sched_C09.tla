--------------------------------- MODULE Sched_C09 ---------------------------------
(***************************************************************************)
(* L3 environment for C09: the family of chord schedules named by the       *)
(* property's quantifier.  For every non-empty subset S of the chord keys:  *)
(* every permutation of the press order, every combination of inter-press   *)
(* gaps from Gaps (below / at / above the timeout), a hold time, every      *)
(* permutation of the release order with every combination of gaps from     *)
(* RGaps.  Optionally one extra key (Other) is pressed at every position.   *)
(* TLC enumerates the family and prints every schedule as a harness script; *)
(* the scripts are replayed on the real code and the recorded traces are    *)
(* validated by TLC against P_C09.                                          *)
(***************************************************************************)
EXTENDS Naturals, Sequences, FiniteSets, TLC, Json

CONSTANTS Keys,    \* set of key codes
          Gaps,    \* set of tick gaps between presses
          Hold,    \* set of hold times (ticks between the last press and the first release)
          RGaps,   \* set of tick gaps between releases
          RProbe,  \* {} or {code}: a probe key tapped once somewhere in the release phase (before the i-th release / after
                   \* the last): shows an effect of the chord action that only a later key reveals (a held layer)
          Other,   \* {} or {code}: an extra (non-chord or foreign) key pressed once somewhere in the press phase
          MinSize, \* only subsets with at least this many keys
          AllRel,  \* TRUE: every release order; FALSE: only the press order and its reverse
          Pre, Post, \* steps put before / after every schedule (e.g. hold a layer key first, release it at the end)
          TailT     \* ticks appended at the end

Perms(S) == {f \in [1..Cardinality(S) -> S] : \A i, j \in DOMAIN f : i # j => f[i] # f[j]}
RelOrders(po) == IF AllRel THEN Perms({po[i] : i \in DOMAIN po})
                 ELSE {po, [i \in DOMAIN po |-> po[Len(po) + 1 - i]]}
GapVecs(n, G) == [1..(IF n > 0 THEN n - 1 ELSE 0) -> G]

RECURSIVE Inter(_, _, _, _)
\* presses (or releases) f[i..] interleaved with the gaps g
Inter(kind, f, g, i) ==
  IF i > Len(f) THEN <<>>
  ELSE <<<<kind, f[i]>>>> \o (IF i < Len(f) /\ g[i] > 0 THEN <<<<"t", g[i]>>>> ELSE <<>>) \o Inter(kind, f, g, i + 1)

\* the press phase with the extra key inserted before position pos (pos = n + 1: after the last press), released at once
RECURSIVE InterO(_, _, _, _, _)
InterO(f, g, i, pos, o) ==
  IF i > Len(f) THEN IF pos = i THEN <<<<"d", o>>, <<"u", o>>>> ELSE <<>>
  ELSE (IF pos = i THEN <<<<"d", o>>, <<"u", o>>>> ELSE <<>>)
       \o <<<<"d", f[i]>>>> \o (IF i < Len(f) /\ g[i] > 0 THEN <<<<"t", g[i]>>>> ELSE <<>>) \o InterO(f, g, i + 1, pos, o)

\* the release phase with the probe key tapped before position pos (pos = n + 1: after the last release)
RECURSIVE InterR(_, _, _, _, _)
InterR(f, g, i, pos, o) ==
  IF i > Len(f) THEN IF pos = i THEN <<<<"d", o>>, <<"t", 1>>, <<"u", o>>>> ELSE <<>>
  ELSE (IF pos = i THEN <<<<"d", o>>, <<"t", 1>>, <<"u", o>>>> ELSE <<>>)
       \o <<<<"u", f[i]>>>> \o (IF i < Len(f) /\ g[i] > 0 THEN <<<<"t", g[i]>>>> ELSE <<>>) \o InterR(f, g, i + 1, pos, o)

Tk(n) == IF n > 0 THEN <<<<"t", n>>>> ELSE <<>>

ASSUME \A po \in UNION {Perms(S) : S \in {X \in SUBSET Keys : Cardinality(X) >= MinSize}} :
         \A g \in GapVecs(Len(po), Gaps) : \A h \in Hold : \A ro \in RelOrders(po) :
           \A rg \in GapVecs(Len(po), RGaps) :
             /\ PrintT(<<"SCHED", ToJson(Pre \o Inter("d", po, g, 1) \o Tk(h) \o Inter("u", ro, rg, 1) \o Post \o Tk(TailT))>>)
             /\ \A o \in RProbe : \A pos \in 1..(Len(po) + 1) :
                  PrintT(<<"SCHED", ToJson(Pre \o Inter("d", po, g, 1) \o Tk(h) \o InterR(ro, rg, 1, pos, o) \o Post \o Tk(TailT))>>)
             /\ \A o \in Other : \A pos \in 1..(Len(po) + 1) :
                  PrintT(<<"SCHED", ToJson(Pre \o InterO(po, g, 1, pos, o) \o Tk(h) \o Inter("u", ro, rg, 1) \o Post \o Tk(TailT))>>)

VARIABLE x
Init == x = 0
Next == UNCHANGED x
=============================================================================
