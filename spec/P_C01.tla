---------------------------------- MODULE P_C01 ----------------------------------
(***************************************************************************)
(* L2 monitor for C01: no stuck output - once every physical key is up and  *)
(* no further input arrives, kanata releases every key and mouse button it  *)
(* pressed at the OS, stops continuous scroll / mouse-move output, emits    *)
(* nothing further and reports itself idle, within a time bounded by the    *)
(* configured timeouts and macro lengths.                                    *)
(* Written from the property statement (properties.jsonl C01) and            *)
(* docs/config.adoc; nothing here is read off the Rust code.                 *)
(*                                                                         *)
(* params p (from the configuration *text*, never from the parser dump):    *)
(*   sum   : sum of all numbers written in the text (timeouts, delays,      *)
(*           intervals, durations) + 4 per item written inside a macro       *)
(*   red   : rapid-event-delay as written (default 5)                        *)
(*   slack : constant allowance                                              *)
(*   extra : optional - allowance that depends on the history (replay of a   *)
(*           dynamic macro lasts as long as what was recorded)               *)
(*   r1cap : optional - cap of the soft counter r1 (0 = not counted)         *)
(*   rec   : optional - TRUE when the text contains dynamic-macro-record:     *)
(*           recording is a mode the user switches on and leaves on; while    *)
(*           it is on kanata is by definition not idle (the recorded pauses   *)
(*           are counted in ticks), so for such configurations `idle` is not  *)
(*           judged (a history need not stop its recordings)                  *)
(*                                                                         *)
(* Observable alphabet (Obs.tla): inputs d/u/r/p (code), ticks with the OS   *)
(* events of the tick, `idle` (Kanata::is_idle) and `cb`.  The C01 trace      *)
(* pre-processor (tools/props/c01.py) renders the press / release of an       *)
(* arbitrary raw code n as key 100000 + n, and a key whose name the harness   *)
(* could not resolve as a number >= 200000, so that keys are numbers; while a *)
(* physical key is down it writes a run of ticks with the same scroll /       *)
(* mouse-move-only output once (MonTick is idempotent on them: quiet stays 0, *)
(* the OS key state is unchanged).                                            *)
(*                                                                         *)
(* R1 (soft, only counted): a release is emitted for a key / button the OS   *)
(*    does not see pressed (the hidden sequence modes and chords v1 do this  *)
(*    by documented design).                                                 *)
(* R2 (the property): on every tick on which no physical key is down and     *)
(*    the last input is at least Bound(p) ticks back: nothing is pressed at  *)
(*    the OS (keys, raw codes, mouse buttons), the tick emits nothing (no    *)
(*    key event, no scroll, no mouse move, no unicode) and kanata reports    *)
(*    idle.  Being checked on every such tick it also "stays so".            *)
(* The configurations are latch-free by construction (the statement's        *)
(* exemption): virtual keys are only used in balanced press/release pairs.   *)
(***************************************************************************)
EXTENDS Obs

POpt(p, k, dflt) == IF k \in DOMAIN p THEN p[k] ELSE dflt

\* "a time bounded by the configured timeouts and macro lengths": every written duration may be
\* waited for twice (e.g. once for the key and once for what it triggers), every one of the <= 32
\* queued events and <= 32 replayed ones may wait for the rapid-event-delay pause, plus slack.
Bound(p) == 2 * p.sum + 64 * (p.red + 1) + p.slack + POpt(p, "extra", 0)

MonInit(p) ==
  [p |-> p,
   bound |-> Bound(p),
   phys |-> {},       \* keys physically down (from the inputs)
   osDown |-> {},     \* keys / raw codes the OS sees pressed (rebuilt from the output events)
   btnDown |-> {},    \* mouse buttons the OS sees pressed
   quiet |-> 0,       \* ticks since the last input while phys = {}, capped at bound
   r1 |-> 0,          \* R1 occurrences, capped at r1cap
   err |-> ""]

\* effect of one tick's / one input's output events on the OS state; counts R1
RECURSIVE Apply(_, _)
Apply(m, out) ==
  IF out = <<>> THEN m
  ELSE
    LET e == Head(out)
        k == e[1]
        cap == POpt(m.p, "r1cap", 0)
        soft(mm) == [mm EXCEPT !.r1 = OMin(@ + 1, cap)]
        m1 == CASE k = "d" -> [m EXCEPT !.osDown = @ \cup {e[2]}]
                [] k = "u" -> IF e[2] \in m.osDown THEN [m EXCEPT !.osDown = @ \ {e[2]}] ELSE soft(m)
                [] k = "bd" -> [m EXCEPT !.btnDown = @ \cup {e[2]}]
                [] k = "bu" -> IF e[2] \in m.btnDown THEN [m EXCEPT !.btnDown = @ \ {e[2]}] ELSE soft(m)
                [] OTHER -> m      \* unicode, scroll, mouse move, ...: no OS key state
    IN Apply(m1, Tail(out))

MonIn(m, r) ==
  IF m.err # "" THEN m
  ELSE
    LET m0 == Apply([m EXCEPT !.quiet = 0], IF "out" \in DOMAIN r THEN r.out ELSE <<>>) IN
    CASE r.e = "d" -> [m0 EXCEPT !.phys = @ \cup {r.c}]
      [] r.e = "u" -> [m0 EXCEPT !.phys = @ \ {r.c}]
      [] OTHER -> m0           \* OS repeat, tap (press + release at once), direct virtual-key operation

\* R2 on a tick with phys = {} that is at least `bound` ticks after the last input
Judge(m, out, idle) ==
  IF m.osDown # {}
  THEN Fail(m, "C01 R2: keys still pressed at the OS after the quiet bound: " \o ToString(m.osDown))
  ELSE IF m.btnDown # {}
  THEN Fail(m, "C01 R2: mouse buttons still pressed at the OS after the quiet bound: " \o ToString(m.btnDown))
  ELSE IF out # <<>>
  THEN Fail(m, "C01 R2: output is still emitted after the quiet bound: " \o ToString(Head(out)))
  ELSE IF ~idle /\ ~POpt(m.p, "rec", FALSE)
  THEN Fail(m, "C01 R2: kanata does not report idle after the quiet bound")
  ELSE m

MonTick(m, out, idle, cb) ==
  IF m.err # "" THEN m
  ELSE
    LET m1 == Apply(m, out) IN
    IF m.phys # {} THEN [m1 EXCEPT !.quiet = 0]
    ELSE LET q == OMin(m.quiet + 1, m.bound)
             m2 == [m1 EXCEPT !.quiet = q]
         IN IF q >= m.bound THEN Judge(m2, out, idle) ELSE m2

\* n silent ticks with the same flags (run-length compressed in recorded traces): O(1)
MonSilent(m, n, idle, cb) ==
  IF n = 0 \/ m.err # "" THEN m
  ELSE IF m.phys # {} THEN [m EXCEPT !.quiet = 0]
  ELSE LET q == OMin(m.quiet + n, m.bound)
           m2 == [m EXCEPT !.quiet = q]
       IN IF q >= m.bound THEN Judge(m2, <<>>, idle) ELSE m2
=============================================================================
