-------------------------------- MODULE KeyRepeat --------------------------------
(***************************************************************************)
(* L1 detailed model of OS key-repeat forwarding:                           *)
(*   parser/src/cfg/key_outputs.rs  (the KeyOutputs table: per layer,       *)
(*       physical key -> ordered list of keys it may output)                *)
(*   src/kanata/key_repeat.rs       (handle_repeat)                         *)
(* Functional style, one operator per Rust function.  All names carry the   *)
(* prefix Kr so that the module can be EXTENDed by Kanata.tla.              *)
(*                                                                         *)
(* Two tables exist side by side:                                           *)
(*   KrOutputs(l, k)  the table *as the collection is specified* over the   *)
(*                    action algebra (what create_key_outputs should build) *)
(*   KrTable(l, k)    the table the real parser built (Opts.key_outputs,    *)
(*                    binding A); handle_repeat below uses this one, so a   *)
(*                    defect of the collection shows in the model runs.     *)
(* KrTableDiff lists where the two differ (checked by TLC per instance).    *)
(* Not modelled here: the sequence-mode early return of handle_repeat        *)
(* (exercised through recorded traces, binding C).                          *)
(***************************************************************************)
EXTENDS Layout, Overrides

KrIgnoreMin == 676   \* KEY_IGNORE_MIN..=KEY_IGNORE_MAX are never written (output_logic.rs:35 write_key)
KrIgnoreMax == 685

KrOverrides == IF "overrides" \in DOMAIN Opts THEN Opts.overrides ELSE <<>>

\* src: key_override.rs:103 output_non_mods_for_input_non_mod
KrOvrOuts(osc) == LET ov == OvrFor(KrOverrides, osc) IN [i \in DOMAIN ov |-> ov[i].okc]

\* src: key_outputs.rs:150-172 add_kc_output (push if absent, then the override outputs of the key)
KrAddKc(outs, osc) == OvrPushAll(OvrPushNew(outs, osc), KrOvrOuts(osc))
RECURSIVE KrAddKcs(_, _)
KrAddKcs(outs, kcs) == IF kcs = <<>> THEN outs ELSE KrAddKcs(KrAddKc(outs, Head(kcs)), Tail(kcs))

\* the keys of the Unmodded / Unshifted entries of a custom-action list, in order
RECURSIVE KrCustomKeys(_)
KrCustomKeys(cu) ==
  IF cu = <<>> THEN <<>>
  ELSE (IF Head(cu).c \in {"unmod", "unshift"} THEN Head(cu).keys ELSE <<>>) \o KrCustomKeys(Tail(cu))

\* src: key_outputs.rs:64-148 add_key_output_from_action_to_key_pos (one arm per action variant)
RECURSIVE KrCollect(_, _, _)
RECURSIVE KrCollectSeq(_, _, _)
KrCollect(outs, aid, slot) ==
  LET a == ActRec(aid) IN
  CASE a.t = "key" -> KrAddKc(outs, a.kc)
    [] a.t = "holdtap" -> KrCollect(KrCollect(KrCollect(outs, a.tap, slot), a.hold, slot), a.toa, slot)
    [] a.t = "oneshot" -> KrCollect(outs, a.ac, slot)
    [] a.t = "mkeys" -> KrAddKcs(outs, a.kcs)
    [] a.t = "multi" -> KrCollectSeq(outs, a.acs, slot)
    [] a.t = "tapdance" -> KrCollectSeq(outs, a.acs, slot)
    [] a.t = "fork" -> KrCollect(KrCollect(outs, a.left, slot), a.right, slot)
    \* only the chords this key position takes part in (fix 09f1a38); a position outside the group's coords: all
    [] a.t = "chords" ->
         LET own == ChGetKeys(a, 0, slot)
             mine == SelectSeq(a.chords, LAMBDA c : own = <<>> \/ Bug = "kr_all_chords" \/ own[1] \cap c.m # {})
         IN KrCollectSeq(outs, [i \in DOMAIN mine |-> mine[i].ac], slot)
    [] a.t = "switch" -> KrCollectSeq(outs, [i \in DOMAIN a.cases |-> a.cases[i].ac], slot)
    [] a.t = "custom" -> KrAddKcs(outs, KrCustomKeys(a.cu))
    [] a.t = "src" -> KrAddKc(outs, slot)
    \* NoOp, Trans, Repeat, Layer, DefaultLayer, Sequence, RepeatableSequence, CancelSequences,
    \* OneShotIgnoreEventsTicks, ReleaseState: nothing
    [] OTHER -> outs
KrCollectSeq(outs, aids, slot) ==
  IF aids = <<>> THEN outs ELSE KrCollectSeq(KrCollect(outs, Head(aids), slot), Tail(aids), slot)

\* src: key_outputs.rs:9-40 create_key_outputs, one entry (an absent entry = the empty list: an entry
\* is only created by add_kc_output)
\* src: key_outputs.rs:44-62 add_chordsv2_output_for_key_pos: the chords v2 the key position takes part in, in the
\* parser's per-key order (Opts.chv2ko), skipping (not stopping at) a chord that is disabled on the layer
RECURSIVE KrChv2(_, _, _, _)
KrChv2(outs, kss, l, slot) ==
  IF kss = <<>> THEN outs
  ELSE LET I == {i \in DOMAIN Opts.chv2 : Opts.chv2[i].ks = Head(kss)}
           c == Opts.chv2[CHOOSE i \in I : TRUE]
       IN IF I = {} THEN KrChv2(outs, Tail(kss), l, slot)
          ELSE IF Contains(c.dis, l)
          THEN (IF Bug = "kr_chv2_stop_at_disabled" THEN outs ELSE KrChv2(outs, Tail(kss), l, slot))
          ELSE KrChv2(KrCollect(outs, c.ac, slot), Tail(kss), l, slot)
KrChv2Keys(slot) ==
  IF "chv2" \in DOMAIN Opts /\ "chv2ko" \in DOMAIN Opts /\ slot \in DOMAIN Opts.chv2ko.intmap
  THEN Opts.chv2ko.intmap[slot] ELSE <<>>
KrOutputs(l, slot) == KrChv2(KrCollect(<<>>, LayerAct(l, 0, slot), slot), KrChv2Keys(slot), l, slot)

\* the table built by the real parser (dump: key_outputs), restricted to the instance universe
KrHasDump == "key_outputs" \in DOMAIN Opts
KrTable(l, slot) ==
  IF ~KrHasDump THEN KrOutputs(l, slot)
  ELSE IF l + 1 \notin DOMAIN Opts.key_outputs THEN <<>>
  ELSE LET m == Opts.key_outputs[l + 1].intmap IN IF slot \in DOMAIN m THEN m[slot] ELSE <<>>

\* where the real table differs from the specified collection (binding A cross-check)
KrTableDiff ==
  {<<l, k>> \in (0..(NLayers - 1)) \X (DOMAIN SrcTab) : KrHasDump /\ KrTable(l, k) # KrOutputs(l, k)}

\* the first active key in the order of repeat_candidates; -1 if none
KrPick(outs, A) ==
  LET I == {i \in DOMAIN outs : outs[i] \in A}
      \* src: key_repeat.rs repeat_candidates (fix 8b405f8): last listed first, but every non-modifier before any modifier
      N == {i \in I : ~OvrIsMod(outs[i])}
      J == IF N # {} /\ Bug # "kr_mods_not_last" THEN N ELSE I
  IN IF I = {} THEN -1
     ELSE IF Bug = "kr_prefer_first" THEN outs[CHOOSE i \in I : \A j \in I : i <= j]
     ELSE outs[CHOOSE i \in J : \A j \in J : i >= j]

\* the loop over trans_resolution_layer_order (key_repeat.rs:37-59)
RECURSIVE KrLayers(_, _, _)
KrLayers(layers, code, A) ==
  IF layers = <<>> THEN -1
  ELSE LET p == KrPick(KrTable(IF Bug = "kr_base_layer" THEN 0 ELSE Head(layers), code), A) IN
       IF p # -1 THEN p ELSE KrLayers(Tail(layers), code, A)

\* src: key_repeat.rs:18-103 handle_repeat_actual: the key the repeat is written for, -1 if none.
\* um / us = unmodded_keys / unshifted_keys of the Kanata struct.
KrRepeatKey(L, um, us, code) ==
  LET cur == IF KrOverrides = <<>> THEN Keycodes(L)
             ELSE OvrOverrideKeysSt(KrOverrides, Keycodes(L), OvrClean, "none").keys
      A == IF Bug = "kr_no_active_check" THEN 0..767
           ELSE SetOfSeq(cur) \cup SetOfSeq(us) \cup SetOfSeq(um)
      p1 == KrLayers(TransOrder(L), code, A)
      p2 == KrPick(KrTable(L.dl, code), A)
  IN IF p1 # -1 THEN p1 ELSE IF p2 # -1 THEN p2 ELSE IF code \in A THEN code ELSE -1

\* the OS events written by handle_repeat (a repeat is a key-down event of value Repeat; the
\* simulated output shows it as a press of the key)
KrRepeatOut(L, um, us, code) ==
  LET k == KrRepeatKey(L, um, us, code) IN
  IF k = -1 \/ (k >= KrIgnoreMin /\ k <= KrIgnoreMax) THEN <<>> ELSE <<<<"d", k>>>>

\* ----- unmod / unshift (mod.rs:1050-1107): the part of handle_keystate_changes that edits cur_keys ----
\* UnmodMods bits -> key codes (custom_action.rs:298-308; LSft RSft LAlt RAlt LCtl RCtl LMet RMet)
KrUnmodCodes(bits) ==
  {c \in {42, 54, 56, 100, 29, 97, 125, 126} :
     LET b == CASE c = 42 -> 1 [] c = 54 -> 2 [] c = 56 -> 4 [] c = 100 -> 8
                [] c = 29 -> 16 [] c = 97 -> 32 [] c = 125 -> 64 [] c = 126 -> 128
     IN (bits \div b) % 2 = 1}

\* fold over the custom-action list of the tick's custom event: returns [um, us, umm]
RECURSIVE KrUnmodFold(_, _, _)
KrUnmodFold(st, kind, cu) ==
  IF cu = <<>> THEN st
  ELSE LET c == Head(cu)
           st1 == IF kind = "press"
                  THEN CASE c.c = "unmod" -> [st EXCEPT !.um = @ \o c.keys, !.umm = c.mods]
                         [] c.c = "unshift" -> [st EXCEPT !.us = @ \o c.keys]
                         [] OTHER -> st
                  ELSE CASE c.c = "unmod" -> [st EXCEPT !.um = SelectSeq(@, LAMBDA k : ~Contains(c.keys, k))]
                         [] c.c = "unshift" -> [st EXCEPT !.us = SelectSeq(@, LAMBDA k : ~Contains(c.keys, k))]
                         [] OTHER -> st
       IN KrUnmodFold(st1, kind, Tail(cu))

\* returns [um, us, umm, cur]
KrUnmodStep(um, us, umm, kind, cu, cur) ==
  LET st == IF kind \in {"press", "release"} THEN KrUnmodFold([um |-> um, us |-> us, umm |-> umm], kind, cu)
            ELSE [um |-> um, us |-> us, umm |-> umm]
      c1 == IF st.um # <<>> THEN SelectSeq(cur, LAMBDA k : k \notin KrUnmodCodes(st.umm)) \o st.um ELSE cur
      c2 == IF st.us # <<>> THEN SelectSeq(c1, LAMBDA k : k \notin {42, 54}) \o st.us ELSE c1
  IN [um |-> st.um, us |-> st.us, umm |-> st.umm, cur |-> c2]
=============================================================================
