--------------------------------- MODULE SeqMode ---------------------------------
(***************************************************************************)
(* L1 detailed model of kanata's defseq *sequence mode*                     *)
(* (src/kanata/sequences.rs and its call sites in src/kanata/mod.rs).        *)
(* Same functional style as Layout.tla / Kanata.tla: the SequenceState is a  *)
(* record value, one operator per Rust function, same order of sub-steps.    *)
(*                                                                         *)
(* Configuration (binding A, from the parser dump):                          *)
(*   Opts.seqtrie : Seq([k |-> Seq(u16), x |-> row, y |-> col])  the trie    *)
(*   Opts.sequence_timeout / sequence_input_mode / sequence_always_on /      *)
(*   sequence_backtrack_modcancel                                            *)
(* The module is only used by Kanata.tla when "seqtrie" \in DOMAIN Opts.     *)
(***************************************************************************)
EXTENDS Layout

SqOn == "seqtrie" \in DOMAIN Opts
SqTrie == IF SqOn THEN Opts.seqtrie ELSE <<>>

\* ----- u16 token arithmetic (parser/src/sequences.rs:3-6) ---------------------------
SqMarker == 1024                       \* KEY_OVERLAP_MARKER 0x0400
SqCode(t) == t % 1024                  \* t & MASK_KEYCODES (0x03FF)
SqHasMarkerBit(t) == (t \div 1024) % 2 = 1
SqClearMarkerBit(t) == IF SqHasMarkerBit(t) THEN t - 1024 ELSE t     \* t & !KEY_OVERLAP_MARKER

\* src: parser/src/sequences.rs:8-27 mod_mask_for_keycode (ErrorRollOver = 251 is the O- marker key)
SqModMaskOfKey(kc) ==
  CASE kc \in {42, 54} -> 32768 [] kc \in {29, 97} -> 16384 [] kc = 56 -> 8192 [] kc = 100 -> 4096
    [] kc \in {125, 126} -> 2048 [] kc = 251 -> 1024 [] OTHER -> 0

RECURSIVE SqSumSet(_)
SqSumSet(S) == IF S = {} THEN 0 ELSE LET x == CHOOSE v \in S : TRUE IN x + SqSumSet(S \ {x})
\* src: sequences.rs:83-88 get_mod_mask_for_cur_keys (bit-or = sum of the distinct masks)
SqModMask(cur) == SqSumSet({SqModMaskOfKey(cur[i]) : i \in DOMAIN cur})

\* src: parser/src/keys/mod.rs:70 OsCode::is_modifier
SqIsModifier(c) == c \in {42, 54, 125, 126, 29, 97, 56, 100}
SqIgnored(c) == c >= 676 /\ c <= 685       \* KEY_IGNORE_MIN..=KEY_IGNORE_MAX

\* src: output_logic.rs press_key / release_key (same as Kanata!PressKeyOut / ReleaseKeyOut)
SqBtn(c) == CASE c = 272 -> "Left" [] c = 273 -> "Right" [] c = 274 -> "Mid"
              [] c = 275 -> "Backward" [] c = 276 -> "Forward" [] OTHER -> ""
SqDown(c) == IF SqIgnored(c) THEN <<>> ELSE IF SqBtn(c) # "" THEN <<<<"bd", SqBtn(c)>>>> ELSE <<<<"d", c>>>>
SqUp(c) == IF SqIgnored(c) THEN <<>> ELSE IF SqBtn(c) # "" THEN <<<<"bu", SqBtn(c)>>>> ELSE <<<<"u", c>>>>

\* ----- the trie (parser/src/trie.rs get_or_descendant_exists) -------------------------
SqIsPrefix(s, t) == Len(s) <= Len(t) /\ SubSeq(t, 1, Len(s)) = s
\* [r \in {"not", "in", "val"}, x, y]; iter_prefix yields the key itself first when it is stored
SqLookup(key) ==
  LET D == {i \in DOMAIN SqTrie : SqIsPrefix(key, SqTrie[i].k)}
      E == {i \in D : SqTrie[i].k = key}
  IN IF D = {} THEN [r |-> "not", x |-> 0, y |-> 0]
     ELSE IF E # {} THEN LET i == CHOOSE j \in E : TRUE IN [r |-> "val", x |-> SqTrie[i].x, y |-> SqTrie[i].y]
     ELSE [r |-> "in", x |-> 0, y |-> 0]

\* ----- SequenceState (sequences.rs:11-75) ---------------------------------------------
InitSq == [act |-> FALSE, raw |-> <<>>, seq |-> <<>>, ov |-> <<>>, mode |-> "HiddenSuppressed",
           ttl |-> 0, timeout |-> 0, ne |-> 0]
\* src: sequences.rs:50 activate
SqActivate(sq, mode, timeout) ==
  [act |-> TRUE, raw |-> <<>>, seq |-> <<>>, ov |-> <<>>, mode |-> mode, ttl |-> timeout, timeout |-> timeout, ne |-> 0]

\* src: sequences.rs:353-367 cancel_sequence; returns [sq, out]
RECURSIVE SqTapAll(_)
SqTapAll(raw) == IF raw = <<>> THEN <<>> ELSE SqDown(Head(raw)) \o SqUp(Head(raw)) \o SqTapAll(Tail(raw))
SqCancel(sq, out) ==
  [sq |-> [sq EXCEPT !.act = FALSE],
   out |-> IF sq.mode = "HiddenDelayType" /\ Bug # "seq_delaytype_silent" THEN out \o SqTapAll(sq.raw) ELSE out]

\* src: sequences.rs:274-351 do_successful_sequence_termination; returns [sq, L, out]
RECURSIVE SqBackspaces(_, _)
\* returns [out, ne]
SqBackspaces(s, ne) ==
  IF s = <<>> THEN [out |-> <<>>, ne |-> ne]
  ELSE LET k == Head(s) IN
       IF k = SqMarker \/ SqIsModifier(SqCode(k)) \/ SqIgnored(SqCode(k)) THEN SqBackspaces(Tail(s), ne)
       ELSE IF ne > 0 THEN SqBackspaces(Tail(s), ne - 1)
       ELSE LET r == SqBackspaces(Tail(s), ne) IN [out |-> <<<<"d", 14>>, <<"u", 14>>>> \o r.out, ne |-> r.ne]
SqCtlAltGui == {29, 97, 56, 100, 125, 126}
RECURSIVE SqReleaseMods(_)
SqReleaseMods(states) ==
  IF states = <<>> THEN <<>>
  ELSE (IF Head(states).t = "nk" /\ Head(states).a \in SqCtlAltGui THEN SqUp(Head(states).a) ELSE <<>>)
       \o SqReleaseMods(Tail(states))
SqTerminate(sq, L, out, x, y, useOv) ==
  LET s == IF useOv THEN sq.ov ELSE sq.seq
      vis == sq.mode = "VisibleBackspaced"
      out1 == IF vis THEN out \o SqReleaseMods(L.states) ELSE out
      st1 == IF vis THEN FilterSeq(L.states, LAMBDA z : ~(z.t = "nk" /\ z.a \in SqCtlAltGui)) ELSE L.states
      bs == IF vis THEN SqBackspaces(s, sq.ne) ELSE [out |-> <<>>, ne |-> sq.ne]
      codes == {SqCode(s[i]) : i \in {j \in DOMAIN s : s[j] # SqMarker}}
      st2 == IF Bug = "seq_keep_states" THEN st1 ELSE FilterSeq(st1, LAMBDA z : ~(z.t = "nk" /\ z.a \in codes))
      L1 == [L EXCEPT !.states = st2]
      L2 == EventL(EventL(L1, Qd(TRUE, x, y)), Qd(FALSE, x, y))
      L3 == IF Bug = "seq_double_tap" /\ useOv THEN EventL(EventL(L2, Qd(TRUE, x, y)), Qd(FALSE, x, y)) ELSE L2
  IN [sq |-> [sq EXCEPT !.act = FALSE, !.ne = bs.ne], L |-> L3, out |-> out1 \o bs.out]

\* ----- do_sequence_press_logic (sequences.rs:95-270) ----------------------------------
\* the standard-variant backtracking loop 141-156: i runs from the last index down to 1;
\* returns [seq, res, found]
RECURSIVE SqBacktrack(_, _)
SqBacktrack(seq, i) ==
  IF i = 0 THEN [seq |-> seq, res |-> [r |-> "not", x |-> 0, y |-> 0], found |-> FALSE]
  ELSE LET seq1 == IF seq[i] = SqMarker THEN RemoveAt(seq, i)
                   ELSE IF Opts.sequence_backtrack_modcancel THEN [seq EXCEPT ![i] = SqCode(@)]
                   ELSE [seq EXCEPT ![i] = SqClearMarkerBit(@)]
           res == SqLookup(seq1)
       IN IF res.r # "not" THEN [seq |-> seq1, res |-> res, found |-> TRUE]
          ELSE SqBacktrack(seq1, i - 1)

\* the front-removal loop 229-232; returns [seq, res]
RECURSIVE SqDropFront(_, _)
SqDropFront(seq, res) ==
  IF res.r = "not" /\ seq # <<>> THEN SqDropFront(Tail(seq), SqLookup(Tail(seq))) ELSE [seq |-> seq, res |-> res]

\* k = the pressed key code, mm = get_mod_mask_for_cur_keys(cur_keys); returns [sq, L, out]
SqPressLogic(sq0, k, mm, L, out0) ==
  LET sqa == [sq0 EXCEPT !.ttl = sq0.timeout + (IF Bug = "seq_timeout_late" THEN 1 ELSE 0), !.raw = Append(@, k)]
      base == CASE k = 54 -> 42 [] k = 126 -> 125 [] k = 97 -> 29 [] OTHER -> k
      pushed == base + mm                                   \* base | mod_mask
      out1 == IF sqa.mode = "VisibleBackspaced" /\ Bug # "seq_visible_hidden" THEN out0 \o SqDown(k)
              ELSE IF sqa.mode # "VisibleBackspaced" /\ Bug = "seq_hidden_leak" THEN out0 \o SqDown(k) ELSE out0
      seq1 == Append(sqa.seq, pushed)
      pov == SqCode(pushed) + SqMarker
      ov1 == Append(sqa.ov, pov)
      res1 == SqLookup(seq1)
      \* standard variant 136-159
      bt == IF res1.r = "not" THEN SqBacktrack(seq1, Len(seq1))
            ELSE [seq |-> seq1, res |-> res1, found |-> TRUE]
      invStd == ~bt.found
      \* overlap variant 164-196: [ov, res, inv]
      ro1 == SqLookup(ov1)
      n == Len(ov1)
      ov2 == Append([ov1 EXCEPT ![n] = SqMarker], pov)
      ro2 == SqLookup(ov2)
      ov3 == [ov2 EXCEPT ![n + 1] = pushed]
      ro3 == SqLookup(ov3)
      ov4 == [ov2 EXCEPT ![n + 1] = SqCode(pushed)]
      ro4 == SqLookup(ov4)
      o == IF ro1.r # "not" THEN [ov |-> ov1, res |-> ro1, inv |-> FALSE]
           ELSE IF ro2.r # "not" THEN [ov |-> ov2, res |-> ro2, inv |-> FALSE]
           ELSE IF ro3.r # "not" THEN [ov |-> ov3, res |-> ro3, inv |-> FALSE]
           ELSE IF SqCode(pushed) = pushed THEN [ov |-> ov3, res |-> ro3, inv |-> TRUE]
           ELSE [ov |-> ov4, res |-> ro4, inv |-> ro4.r = "not"]
      sqb == [sqa EXCEPT !.seq = bt.seq, !.ov = o.ov]
      \* the match 198-238: [sq, res, reso, out]
      m == CASE ~invStd /\ ~o.inv -> [sq |-> sqb, res |-> bt.res, reso |-> o.res, out |-> out1]
             [] ~invStd /\ o.inv ->
                  [sq |-> [sqb EXCEPT !.ov = bt.seq], res |-> bt.res, reso |-> SqLookup(bt.seq), out |-> out1]
             [] invStd /\ ~o.inv ->
                  LET s2 == IF o.ov[Len(o.ov)] # SqMarker /\ o.ov[Len(o.ov)] >= SqMarker
                            THEN Append(o.ov, SqMarker) ELSE o.ov
                  IN [sq |-> [sqb EXCEPT !.seq = s2], res |-> SqLookup(s2), reso |-> o.res, out |-> out1]
             [] OTHER ->
                  LET df == IF Bug = "seq_no_front_backtrack" THEN [seq |-> bt.seq, res |-> bt.res]
                            ELSE SqDropFront(bt.seq, bt.res)
                      sqc == [sqb EXCEPT !.seq = df.seq]
                  IN IF df.res.r = "not" \/ df.seq = <<>>
                     THEN LET c == SqCancel(sqc, out1) IN [sq |-> c.sq, res |-> df.res, reso |-> o.res, out |-> c.out]
                     ELSE [sq |-> sqc, res |-> df.res, reso |-> o.res, out |-> out1]
  IN \* successful termination 241-268 (simultaneous completion has priority)
     IF m.reso.r = "val" THEN SqTerminate(m.sq, L, m.out, m.reso.x, m.reso.y, TRUE)
     ELSE IF m.res.r = "val"
     THEN LET sqd == [m.sq EXCEPT !.ov = Append(@, SqMarker)]
              ro == SqLookup(sqd.ov)
          IN IF ro.r = "val" THEN SqTerminate(sqd, L, m.out, ro.x, ro.y, TRUE)
             ELSE SqTerminate(sqd, L, m.out, m.res.x, m.res.y, FALSE)
     ELSE [sq |-> m.sq, L |-> L, out |-> m.out]

\* ----- call sites in src/kanata/mod.rs -------------------------------------------------
\* src: mod.rs:1181-1209 all keys released while the mode is active; returns [sq, L, out]
SqAllReleased(sq, L, out) ==
  LET sq1 == [sq EXCEPT !.ov = Append(@, SqMarker)]
      r == SqLookup(sq1.ov)
  IN CASE r.r = "val" -> SqTerminate(sq1, L, out, r.x, r.y, TRUE)
       [] r.r = "not" -> [sq |-> [sq1 EXCEPT !.ov = sq1.seq], L |-> L, out |-> out]
       [] OTHER -> [sq |-> sq1, L |-> L, out |-> out]

\* src: mod.rs:1214-1250 the press loop; cur is fixed, prev grows; returns [sq, L, out, prev, lpk]
RECURSIVE SqPressLoop(_, _, _, _, _, _, _)
SqPressLoop(rest, cur, sq, L, out, prev, lpk) ==
  IF rest = <<>> THEN [sq |-> sq, L |-> L, out |-> out, prev |-> prev, lpk |-> lpk]
  ELSE LET k == Head(rest) IN
       IF Contains(prev, k) THEN SqPressLoop(Tail(rest), cur, sq, L, out, prev, lpk)
       ELSE LET sq1 == IF Opts.sequence_always_on /\ ~sq.act
                       THEN SqActivate(sq, Opts.sequence_input_mode, Opts.sequence_timeout) ELSE sq
            IN IF sq1.act
               THEN LET r == SqPressLogic(sq1, k, SqModMask(cur), L, out) IN
                    SqPressLoop(Tail(rest), cur, r.sq, r.L, r.out, Append(prev, k), k)
               ELSE SqPressLoop(Tail(rest), cur, sq1, L, out \o SqDown(k), Append(prev, k), k)

\* src: mod.rs:1545-1566 custom actions; K-level record fields sq / out are threaded by Kanata.tla
SqCustom(sq, out, c) ==
  CASE c.c = "seqcancel" -> IF sq.act THEN SqCancel(sq, out) ELSE [sq |-> sq, out |-> out]
    [] c.c = "seqleader" ->
         IF ~sq.act \/ c.mode = "HiddenSuppressed" THEN [sq |-> SqActivate(sq, c.mode, c.timeout), out |-> out]
         ELSE [sq |-> sq, out |-> out]
    \* src: sequences.rs add_noerase: saturating_add (fix b0ed4c2)
    [] c.c = "seqnoerase" -> [sq |-> IF sq.act THEN [sq EXCEPT !.ne = Min(@ + c.n, 65535)] ELSE sq, out |-> out]
    [] OTHER -> [sq |-> sq, out |-> out]

\* src: mod.rs:1008-1017 tick_sequence_state; returns [sq, out, panic]
SqTick(sq, out) ==
  IF ~sq.act THEN [sq |-> sq, out |-> out, panic |-> ""]
  ELSE IF sq.ttl = 0 THEN [sq |-> sq, out |-> out, panic |-> "sub-overflow:sequence.ticks_until_timeout"]
  ELSE LET sq1 == [sq EXCEPT !.ttl = @ - 1] IN
       IF sq1.ttl = 0
       THEN LET c == SqCancel(sq1, out) IN [sq |-> c.sq, out |-> c.out, panic |-> ""]
       ELSE [sq |-> sq1, out |-> out, panic |-> ""]

\* (the stored timeout is not projected: it is private bookkeeping of the implementation and shows in ttl at the next key)
SqProj(sq) == [act |-> sq.act, seq |-> sq.seq, ov |-> sq.ov, raw |-> sq.raw, ttl |-> sq.ttl, mode |-> sq.mode]
=============================================================================
