----------------------------------- MODULE Obs -----------------------------------
(***************************************************************************)
(* The observable alphabet common to all L2 property monitors, and helpers. *)
(*   inputs : "d" press | "u" release | "r" repeat | "p" tap  (code)        *)
(*   tick   : out = Seq(OS event), idle, cb                                  *)
(*   OS event = <<kind, arg>>: "d"/"u" key code, "bd"/"bu" button,           *)
(*              "U" unicode, "sc" scroll, "mv" mouse move, "code" raw code   *)
(* Outputs are compared by their effect on the OS key state: a release of a *)
(* key that is up and a press of a key that is already down (other than an  *)
(* OS repeat, which C14 judges) change nothing and are normalised away.      *)
(***************************************************************************)
EXTENDS Naturals, Integers, Sequences, FiniteSets, TLC

OMin(a, b) == IF a < b THEN a ELSE b
OMax(a, b) == IF a > b THEN a ELSE b
SeqToSet(s) == {s[i] : i \in DOMAIN s}
InSeq(s, e) == \E i \in DOMAIN s : s[i] = e

\* effective events of `out` given the set `down` of keys the OS sees pressed:
\* returns [eff, down]
RECURSIVE EffRec(_, _, _)
EffRec(out, down, acc) ==
  IF out = <<>> THEN [eff |-> acc, down |-> down]
  ELSE LET e == Head(out) IN
       IF e[1] = "d"
       THEN IF e[2] \in down THEN EffRec(Tail(out), down, acc)
            ELSE EffRec(Tail(out), down \cup {e[2]}, Append(acc, e))
       ELSE IF e[1] = "u"
       THEN IF e[2] \in down THEN EffRec(Tail(out), down \ {e[2]}, Append(acc, e))
            ELSE EffRec(Tail(out), down, acc)
       ELSE EffRec(Tail(out), down, Append(acc, e))
Eff(out, down) == EffRec(out, down, <<>>)

\* plain key-state tracking (no normalisation): set of keys down after `out`
RECURSIVE DownAfter(_, _)
DownAfter(out, down) ==
  IF out = <<>> THEN down
  ELSE LET e == Head(out) IN
       DownAfter(Tail(out), IF e[1] = "d" THEN down \cup {e[2]}
                            ELSE IF e[1] = "u" THEN down \ {e[2]} ELSE down)

KeyDowns(out) == SelectSeq(out, LAMBDA e : e[1] = "d")
KeyUps(out) == SelectSeq(out, LAMBDA e : e[1] = "u")
Codes(evs) == [i \in 1..Len(evs) |-> evs[i][2]]

Fail(m, msg) == IF m.err = "" THEN [m EXCEPT !.err = msg] ELSE m
=============================================================================
