----------------------------------- MODULE Loop -----------------------------------
(***************************************************************************)
(* C07 part 3 (design level): the processing thread of                      *)
(* Kanata::start_processing_loop (src/kanata/mod.rs:1919-2118) around an    *)
(* abstract kanata, with wall-clock time and the conversion of elapsed      *)
(* time into ticks (handle_time_ticks, mod.rs:749-799).                     *)
(*                                                                          *)
(* Time is counted in quarters of a millisecond (Q = 4 quarters = 1 ms);    *)
(* thread steps take no time, the environment lets time pass and sends      *)
(* events at any moment.  The abstract kanata has exactly what the loop     *)
(* depends on: a layout queue (an event is queued by handle_input_event and *)
(* dequeued by a tick), W ticks of follow-up work per event (timeouts,      *)
(* macros ...), and the on-idle counter that keeps the loop awake.          *)
(*   is_idle   = queue empty /\ no work left                                *)
(*   can_block = is_idle /\ ~counting                                       *)
(*                                                                          *)
(* Checked by TLC:                                                          *)
(*   BlockedOnlyWhenIdle   the thread sits in recv() only while can_block   *)
(*                         holds (nothing pending is ever slept on)         *)
(*   RecvThenTick          an event received by the blocking recv() is      *)
(*                         followed by at least one tick before the next    *)
(*                         decision (last_tick = now - 1 ms)                *)
(*   NoEventLost           every event sent is eventually dequeued by a     *)
(*                         tick (as a bounded safety property: events in    *)
(*                         the channel + queue + processed = sent)          *)
(*   TickBudget            executed ticks <= elapsed ms + 1 per blocked     *)
(*                         wake-up: kanata's clock never runs fast.  Holds  *)
(*                         since fix a46d9fa; before it, with ms_elapsed =  *)
(*                         0 last_tick was kept AND the elapsed time was    *)
(*                         carried in time_remainder, so the same interval  *)
(*                         was counted twice by the next call (seeded       *)
(*                         design error "rem_double_count").                *)
(***************************************************************************)
EXTENDS Naturals, Sequences, TLC

CONSTANTS MaxTime,     \* horizon in quarters
          MaxEvents,   \* number of events the environment sends
          W,           \* ticks of follow-up work per event
          IdleD,       \* on-idle duration (ticks); 0 = no on-idle action configured
          Bug          \* "none" | "no_rewind" (last_tick not set back on a blocked wake-up) | "block_when_counting"
                       \* | "rem_double_count" (the remainder carry before fix a46d9fa)
Q == 4

VARIABLES pc,        \* "decide" | "recv" | "poll" | "sleep"
          now, lastTick, rem, wakeAt,
          chan,      \* the sync channel
          sent,      \* events sent so far
          kq,        \* events in the layout queue (handled, not yet dequeued by a tick)
          work,      \* remaining ticks of follow-up work
          done,      \* events dequeued by a tick
          tsi, counting, fired,     \* on-idle: ticks_since_idle, waiting_for_idle non-empty, action fired
          msArg,     \* ms_elapsed passed to can_block_update_idle_waiting
          ticks, blockedWakes,      \* accounting
          sinceRecv  \* ticks executed since the last blocking recv() returned (-1: not applicable)
vars == <<pc, now, lastTick, rem, wakeAt, chan, sent, kq, work, done, tsi, counting, fired, msArg, ticks, blockedWakes, sinceRecv>>

IsIdle == kq = 0 /\ work = 0
Min(a, b) == IF a < b THEN a ELSE b

Init == /\ pc = "decide" /\ now = Q /\ lastTick = Q /\ rem = 0 /\ wakeAt = 0
        /\ chan = <<>> /\ sent = 0 /\ kq = 0 /\ work = 0 /\ done = 0
        /\ tsi = 0 /\ counting = FALSE /\ fired = FALSE /\ msArg = 0
        /\ ticks = 0 /\ blockedWakes = 0 /\ sinceRecv = 0 - 1

\* ---- the abstract kanata -------------------------------------------------------------
\* n ticks (tick_ms(n)): each dequeues one queued event (which starts W ticks of work, and arms the on-idle action)
\* or works off one tick; the on-idle action fires when ticks_since_idle reached its duration
RECURSIVE TickN(_, _)
TickN(s, n) ==
  IF n = 0 THEN s
  ELSE LET fire == s.counting /\ s.tsi >= IdleD
           s1 == IF s.kq > 0
                 THEN [s EXCEPT !.kq = @ - 1, !.work = W, !.done = @ + 1, !.counting = IdleD > 0 /\ ~s.fired]
                 ELSE [s EXCEPT !.work = IF @ > 0 THEN @ - 1 ELSE 0]
           s2 == IF fire THEN [s1 EXCEPT !.counting = FALSE, !.fired = TRUE, !.work = W] ELSE s1
       IN TickN(s2, n - 1)
KState == [kq |-> kq, work |-> work, done |-> done, counting |-> counting, fired |-> fired, tsi |-> tsi]

\* handle_time_ticks: src mod.rs:749-799
TimeTicks(k, lt) ==
  LET el == (now - lt) + rem
      ms == el \div Q
      k2 == TickN(k, ms)
      \* src: mod.rs handle_time_ticks (fix a46d9fa): with ms = 0 the remainder is left alone, because last_tick is kept
      \* and the interval will be measured again; Bug = "rem_double_count" = before the fix
  IN [k |-> k2, ms |-> ms, rem |-> IF ms = 0 /\ Bug # "rem_double_count" THEN rem ELSE el % Q,
      lastTick |-> IF ms = 0 THEN lt ELSE now]

Apply(r, recvd) ==
  /\ kq' = r.k.kq /\ work' = r.k.work /\ done' = r.k.done /\ counting' = r.k.counting /\ fired' = r.k.fired
  /\ tsi' = r.k.tsi
  /\ rem' = r.rem /\ lastTick' = r.lastTick /\ msArg' = r.ms /\ ticks' = ticks + r.ms
  /\ sinceRecv' = IF recvd THEN r.ms ELSE IF sinceRecv >= 0 THEN sinceRecv + r.ms ELSE sinceRecv

\* ---- the thread -----------------------------------------------------------------------
\* can_block_update_idle_waiting(ms_elapsed): src mod.rs:2128-2161
Decide ==
  /\ pc = "decide"
  /\ LET idle == IsIdle
         t == IF ~idle THEN 0 ELSE IF counting THEN tsi + msArg ELSE tsi
         cb == idle /\ (~counting \/ Bug = "block_when_counting")
     IN /\ tsi' = t
        /\ pc' = IF cb THEN "recv" ELSE "poll"
  /\ sinceRecv' = 0 - 1
  /\ UNCHANGED <<now, lastTick, rem, wakeAt, chan, sent, kq, work, done, counting, fired, msArg, ticks, blockedWakes>>

\* rx.recv() returned: last_tick = now - 1 ms; handle_input_event; handle_time_ticks
RecvBlocked ==
  /\ pc = "recv" /\ chan # <<>>
  /\ LET lt == IF Bug = "no_rewind" THEN lastTick ELSE now - Q
         k1 == [KState EXCEPT !.kq = @ + 1, !.tsi = 0]
         r == TimeTicks(k1, lt)
     IN Apply(r, TRUE)
  /\ chan' = Tail(chan) /\ blockedWakes' = blockedWakes + 1 /\ pc' = "decide"
  /\ UNCHANGED <<now, wakeAt, sent>>

\* rx.try_recv() = Ok: handle_input_event; handle_time_ticks
PollSome ==
  /\ pc = "poll" /\ chan # <<>>
  /\ LET k1 == [KState EXCEPT !.kq = @ + 1, !.tsi = 0]
         r == TimeTicks(k1, lastTick)
     IN Apply(r, FALSE)
  /\ chan' = Tail(chan) /\ pc' = "decide"
  /\ UNCHANGED <<now, wakeAt, sent, blockedWakes>>

\* rx.try_recv() = Empty: handle_time_ticks; sleep 1 ms
PollEmpty ==
  /\ pc = "poll" /\ chan = <<>>
  /\ Apply(TimeTicks(KState, lastTick), FALSE)
  /\ wakeAt' = now + Q /\ pc' = "sleep"
  /\ UNCHANGED <<now, chan, sent, blockedWakes>>

Wake == /\ pc = "sleep" /\ now >= wakeAt /\ pc' = "decide"
        /\ UNCHANGED <<now, lastTick, rem, wakeAt, chan, sent, kq, work, done, tsi, counting, fired, msArg, ticks, blockedWakes, sinceRecv>>

\* ---- the environment --------------------------------------------------------------------
Pass == /\ now < MaxTime /\ now' = now + 1
        /\ UNCHANGED <<pc, lastTick, rem, wakeAt, chan, sent, kq, work, done, tsi, counting, fired, msArg, ticks, blockedWakes, sinceRecv>>
Send == /\ sent < MaxEvents /\ Len(chan) < 3 /\ chan' = Append(chan, sent + 1) /\ sent' = sent + 1
        /\ UNCHANGED <<pc, now, lastTick, rem, wakeAt, kq, work, done, tsi, counting, fired, msArg, ticks, blockedWakes, sinceRecv>>

Next == Decide \/ RecvBlocked \/ PollSome \/ PollEmpty \/ Wake \/ Pass \/ Send
Spec == Init /\ [][Next]_vars

\* ---- what TLC checks --------------------------------------------------------------------
BlockedOnlyWhenIdle == pc = "recv" => IsIdle /\ ~counting
RecvThenTick == (pc = "decide" /\ sinceRecv >= 0) => sinceRecv >= 1
NoEventLost == Len(chan) + kq + done = sent
\* the on-idle action is never slept on: once armed, the loop is not in recv() until it fired
OnIdleNotPostponed == (counting /\ ~fired) => pc # "recv"
\* executed ticks vs elapsed wall-clock milliseconds (one extra tick per blocked wake-up by design)
TickBudget == ticks * Q <= (now - Q) + blockedWakes * Q
=============================================================================
