-------------------------------- MODULE ChordsV2 --------------------------------
(***************************************************************************)
(* L1 detailed model of keyberon/src/chord.rs (input chords v2,            *)
(* `defchordsv2`).  Functional style like Layout.tla: the ChordsV2 object   *)
(* is one record value cv, every Rust method is a pure operator.  One       *)
(* operator per Rust function, same order of sub-steps, same capacities.    *)
(*                                                                         *)
(* cv = [ q    : Seq([p, x, y, s])   queue (Queue, cap 32, wrapping)         *)
(*        ach  : Seq([coord, rem, ks, ac, st, delay, first])  active_chords  *)
(*               st: "U" Unread | "UR" UnreadReleased | "R" Releasable | "X" Released *)
(*        ign  : ticks_to_ignore_chord      tuns : ticks_until_next_state_change *)
(*        pal  : prev_active_layer          pql  : prev_queue_len            *)
(*        nc   : next_coord                 panic : "" or a site label ]     *)
(* tbl  = the parsed defchordsv2 table: Seq([ks, ac, T, dis, first])         *)
(*        (binding A: dumped from the real parser; ks sorted)                *)
(* cign = configured_ticks_to_ignore_chord (chords-v2-min-idle)              *)
(*                                                                         *)
(* Abstraction (DESIGN 4.3): `delay` of an active chord is only read while   *)
(* the chord is unread (get_action_chv2); afterwards it is kept at 0 so the  *)
(* state of a held chord does not grow with time.                            *)
(***************************************************************************)
EXTENDS Naturals, Integers, Sequences, FiniteSets

CvKeyMax == 850            \* src: key_code.rs:4 KEY_MAX
CvQCap == 32               \* src: layout.rs:48 QUEUE_SIZE
CvSmolCap == 16            \* src: chord.rs:61 SMOL_Q_LEN
CvAchCap == 10             \* src: chord.rs:119
CvU16 == 65535

CvMin(a, b) == IF a < b THEN a ELSE b
CvSatSub(a, b) == IF a > b THEN a - b ELSE 0
CvSatAdd1(a) == IF a >= CvU16 THEN CvU16 ELSE a + 1
CvSet(s) == {s[i] : i \in DOMAIN s}
CvHas(s, e) == \E i \in DOMAIN s : s[i] = e
CvPanic(cv, site) == IF cv.panic = "" THEN [cv EXCEPT !.panic = site] ELSE cv

\* src: chord.rs:151 new
CvInit == [q |-> <<>>, ach |-> <<>>, ign |-> 0, tuns |-> 0, pal |-> CvU16, pql |-> 255,
           nc |-> CvKeyMax + 1, panic |-> ""]

\* src: chord.rs:166 / 170
CvIsIdle(cv) == cv.q = <<>> /\ cv.ach = <<>>
CvAccepts(cv) == cv.ign = 0

\* src: chord.rs:174 push_back_chv2 (Wrapping): returns [cv, ov] (ov = <<evicted>> or <<>>)
CvPushBack(cv, ev) ==
  IF Len(cv.q) >= CvQCap THEN [cv |-> [cv EXCEPT !.q = Tail(@) \o <<ev>>], ov |-> <<Head(cv.q)>>]
  ELSE [cv |-> [cv EXCEPT !.q = Append(@, ev)], ov |-> <<>>]

\* push_back on the SmolQueue (Wrapping, cap 16): returns [q, ov]
CvSmolPush(dq, ev) ==
  IF Len(dq) >= CvSmolCap THEN [q |-> Tail(dq) \o <<ev>>, ov |-> TRUE] ELSE [q |-> Append(dq, ev), ov |-> FALSE]
RECURSIVE CvSmolExtend(_, _)
CvSmolExtend(dq, evs) == IF evs = <<>> THEN dq ELSE CvSmolExtend(CvSmolPush(dq, Head(evs)).q, Tail(evs))

\* src: chord.rs:182 get_action_chv2: the first unread chord.  returns [cv, some, y, delay, ac]
CvGetAction(cv) ==
  LET I == {i \in DOMAIN cv.ach : cv.ach[i].st \in {"U", "UR"}} IN
  IF I = {} THEN [cv |-> cv, some |-> FALSE, y |-> 0, delay |-> 0, ac |-> 0]
  ELSE LET i == CHOOSE k \in I : \A j \in I : k <= j
           a == cv.ach[i]
       IN [cv |-> [cv EXCEPT !.ach[i].st = IF a.st = "U" THEN "R" ELSE "X", !.ach[i].delay = 0],
           some |-> TRUE, y |-> a.coord, delay |-> a.delay, ac |-> a.ac]

\* src: chord.rs:235 next_coord: returns [cv, c]
CvNextCoord(cv) ==
  [cv |-> [cv EXCEPT !.nc = IF cv.nc + 1 > CvKeyMax + 50 THEN CvKeyMax + 1 ELSE cv.nc + 1], c |-> cv.nc]

\* src: chord.rs get_active_chord(cch, since, coord, released_key)
\* rl = [f, k, old]: f = relevant_release_found, k = released_key (the key of that release; -1 = None).
\* (fix 6fd250f) only the release of one of the chord's own keys marks a first-release chord released at once.
\* rl.old (bug = "chv2_foreign_release"): the behaviour before the fix - any relevant release does.
CvActiveChord(ch, since, coord, rl) ==
  LET relFound == IF rl.old THEN rl.f ELSE rl.f /\ CvHas(ch.ks, rl.k) IN
  [coord |-> coord, rem |-> IF ch.first THEN {} ELSE CvSet(ch.ks), ks |-> CvSet(ch.ks), ac |-> ch.ac,
   st |-> IF relFound /\ ch.first THEN "UR" ELSE "U", delay |-> since]

\* `self.active_chords.push(ach)` + `assert!(overflow.is_ok())`
CvActivate(cv, ch, since, rl) ==
  LET n == CvNextCoord(cv) IN
  IF Len(cv.ach) >= CvAchCap THEN CvPanic(n.cv, "assert:active chords has room")
  ELSE [n.cv EXCEPT !.ach = Append(@, CvActiveChord(ch, since, n.c, rl))]

\* src: chord.rs:268 drain_virtual_keys.  returns [cv, dq]
RECURSIVE CvDrainVkRec(_, _, _, _)
CvDrainVkRec(q, keep, dq, ovf) ==
  IF q = <<>> THEN [keep |-> keep, dq |-> dq, ovf |-> ovf]
  ELSE IF Head(q).x = 0 THEN CvDrainVkRec(Tail(q), Append(keep, Head(q)), dq, ovf)
  ELSE LET r == CvSmolPush(dq, Head(q)) IN CvDrainVkRec(Tail(q), keep, r.q, ovf \/ r.ov)
CvDrainVirtualKeys(cv, dq) ==
  LET r == CvDrainVkRec(cv.q, <<>>, dq, FALSE)
      cv1 == [cv EXCEPT !.q = r.keep]
  IN [cv |-> IF r.ovf THEN CvPanic(cv1, "assert:oops overflowed drain queue") ELSE cv1, dq |-> r.dq]

\* src: chord.rs release_in_active_chords(achs, j) (the closure of drain_releases until 6c7bac1)
CvReleaseIn(ach, j) ==
  [i \in DOMAIN ach |->
     IF j \notin ach[i].ks THEN ach[i]
     ELSE LET rem == ach[i].rem \ {j} IN
          IF rem = {} THEN [ach[i] EXCEPT !.rem = rem, !.st = IF @ \in {"U", "UR"} THEN "UR" ELSE "X"]
          ELSE [ach[i] EXCEPT !.rem = rem]]

\* src: chord.rs:283 drain_releases.  returns [cv, dq]
RECURSIVE CvDrainRelRec(_, _, _, _, _)
CvDrainRelRec(q, keep, ach, dq, npress) ==
  IF q = <<>> THEN [keep |-> keep, ach |-> ach, dq |-> dq, npress |-> npress]
  ELSE LET e == Head(q) IN
       IF e.p THEN CvDrainRelRec(Tail(q), Append(keep, e), ach, dq, npress + 1)
       ELSE LET ach1 == CvReleaseIn(ach, e.y) IN
            IF npress = 0 THEN CvDrainRelRec(Tail(q), keep, ach1, CvSmolPush(dq, e).q, npress)
            ELSE CvDrainRelRec(Tail(q), Append(keep, e), ach1, dq, npress)
CvDrainReleases(cv, dq) ==
  LET r == CvDrainRelRec(cv.q, <<>>, cv.ach, dq, 0)
      cv1 == [cv EXCEPT !.q = r.keep, !.ach = r.ach]
  IN \* `debug_assert!(overflow.is_ok())` on the 16-entry press list (dev profile: a panic)
     [cv |-> IF r.npress > CvSmolCap THEN CvPanic(cv1, "debug_assert:presses overflow") ELSE cv1, dq |-> r.dq]

\* ---- process_presses (chord.rs:316-519) ------------------------------------------------
\* first loop 319-332: returns [presses, rel, rk] (rk = released_key, -1 = None)
RECURSIVE CvScanPresses(_, _)
CvScanPresses(q, presses) ==
  IF q = <<>> THEN [presses |-> presses, rel |-> FALSE, rk |-> 0 - 1]
  ELSE IF Head(q).p THEN CvScanPresses(Tail(q), Append(presses, Head(q).y))
  ELSE IF CvHas(presses, Head(q).y) THEN [presses |-> presses, rel |-> TRUE, rk |-> Head(q).y]
  ELSE CvScanPresses(Tail(q), presses)

CvEnabled(ch, layer) == ~CvHas(ch.dis, layer)
CvSubset(acc, ch) == CvSet(acc) \subseteq CvSet(ch.ks)
CvExact(acc, ch) == CvSet(acc) = CvSet(ch.ks)
\* `possible_chords` = self.chords.mapping.get(starting_press): the chords the key takes part in
CvPossible(tbl, k) == SelectSeq(tbl, LAMBDA ch : CvHas(ch.ks, k))
CvFindExact(chs, acc, layer) ==     \* <<>> or <<chord>>
  LET s == SelectSeq(chs, LAMBDA ch : CvEnabled(ch, layer) /\ CvExact(acc, ch)) IN
  IF s = <<>> THEN <<>> ELSE <<s[1]>>
CvMinT(chs) == IF chs = <<>> THEN CvU16
               ELSE LET S == {chs[i].T : i \in DOMAIN chs} IN CHOOSE t \in S : \A u \in S : t <= u

\* the main loop 359-461 over the presses; st = [cv, acc, cands, brk]
\* (the `prev_count == chord_candidates.len()` branch only narrows the previous candidate list by the new press, which
\*  equals recomputing it from `possible` for the grown `acc` as long as the 16-entry candidate list did not overflow;
\*  tables in the instances are far smaller, so the candidate list is recomputed here)
RECURSIVE CvPressLoop(_, _, _, _, _, _, _)
CvPressLoop(st, presses, possible, layer, since, rl, cign) ==
  IF presses = <<>> \/ st.brk THEN st
  ELSE
    LET acc == Append(st.acc, Head(presses))
        all == SelectSeq(possible, LAMBDA ch : CvEnabled(ch, layer) /\ CvSubset(acc, ch))
        cands == SubSeq(all, 1, CvMin(Len(all), CvSmolCap))
        count == Len(all)
        minTo == CvMinT(all)
        cv == st.cv
    IN IF count = 1
       THEN LET n == CvNextCoord(cv) IN        \* the coordinate is taken before the completeness test
            IF CvExact(acc, cands[1])
            THEN LET cv1 == IF Len(n.cv.ach) >= CvAchCap THEN CvPanic(n.cv, "assert:active chords has room")
                            ELSE [n.cv EXCEPT !.ach = Append(@, CvActiveChord(cands[1], since, n.c, rl))]
                 IN [cv |-> cv1, acc |-> acc, cands |-> cands, brk |-> TRUE]
            ELSE CvPressLoop([cv |-> [n.cv EXCEPT !.tuns = CvSatSub(minTo, since)], acc |-> acc, cands |-> cands,
                              brk |-> FALSE], Tail(presses), possible, layer, since, rl, cign)
       ELSE IF count = 0
       THEN LET back == st.acc            \* accumulated_presses.pop()
                f == CvFindExact(possible, back, layer)
                cv1 == IF f # <<>> THEN CvActivate(cv, f[1], since, rl) ELSE [cv EXCEPT !.ign = cign]
            IN [cv |-> cv1, acc |-> back, cands |-> <<>>, brk |-> TRUE]
       ELSE CvPressLoop([cv |-> [cv EXCEPT !.tuns = CvSatSub(minTo, since)], acc |-> acc, cands |-> cands,
                         brk |-> FALSE], Tail(presses), possible, layer, since, rl, cign)

\* the retain closure of 513-526: `consumed` loses the key of every press it removes
RECURSIVE CvRemoveConsumed(_, _)
CvRemoveConsumed(q, consumed) ==
  IF q = <<>> THEN <<>>
  ELSE LET e == Head(q)
           I == {i \in DOMAIN consumed : consumed[i] = e.y}
       IN IF e.p /\ I # {}
          THEN LET i == CHOOSE k \in I : \A j \in I : k <= j IN
               CvRemoveConsumed(Tail(q), SubSeq(consumed, 1, i - 1) \o SubSeq(consumed, i + 1, Len(consumed)))
          ELSE <<e>> \o CvRemoveConsumed(Tail(q), consumed)

CvProcessPresses(cv, tbl, cign, layer, bug) ==
  LET sc == CvScanPresses(cv.q, <<>>)
      presses == sc.presses
      n0 == Len(cv.ach)
  IN IF presses = <<>> THEN cv
     ELSE LET possible == CvPossible(tbl, presses[1]) IN
          IF possible = <<>> THEN [cv EXCEPT !.ign = cign]
          ELSE
            LET since == cv.q[1].s
                rl == [f |-> sc.rel, k |-> sc.rk, old |-> (bug = "chv2_foreign_release")]
                lp == CvPressLoop([cv |-> cv, acc |-> <<>>, cands |-> <<>>, brk |-> FALSE],
                                  presses, possible, layer, since, rl, cign)
                cv1 == lp.cv
                \* 462-510 (fix deba873): skipped when the loop above activated a chord
                \* (`self.active_chords.len() == prev_active_chords_len`).
                \* bug = "chv2_double_activation": the behaviour before the fix (the loop's `break` does not skip it).
                cv2 == IF (cv1.tuns = 0 \/ sc.rel) /\ (Len(cv1.ach) = n0 \/ bug = "chv2_double_activation")
                       THEN LET f == CvFindExact(IF Len(lp.cands) >= CvSmolCap THEN possible ELSE lp.cands,
                                                 lp.acc, layer) IN
                            IF f # <<>> THEN CvActivate(cv1, f[1], since, rl) ELSE [cv1 EXCEPT !.ign = cign]
                       ELSE cv1
                \* "Clear presses from the queue if they were consumed by a chord" (fix e173bdb): only one press per
                \* accumulated key - the first in the queue - is removed; a later press of the same key stays queued.
                \* bug = "chv2_drop_all_presses": the behaviour before the fix (every press of an accumulated key).
                cv3 == IF Len(cv2.ach) > n0
                       THEN IF bug = "chv2_drop_all_presses"
                            THEN [cv2 EXCEPT !.q = SelectSeq(@, LAMBDA e : ~(e.p /\ CvHas(lp.acc, e.y)))]
                            ELSE [cv2 EXCEPT !.q = CvRemoveConsumed(@, lp.acc)]
                       ELSE cv2
            IN cv3

\* src: chord.rs:245 drain_inputs.  returns [cv, dq]
RECURSIVE CvReleaseAll(_, _)
CvReleaseAll(ach, q) == IF q = <<>> THEN ach
                        ELSE CvReleaseAll(IF Head(q).p THEN ach ELSE CvReleaseIn(ach, Head(q).y), Tail(q))
CvDrainInputs(cv, dq, tbl, cign, layer, bug) ==
  \* src: chord.rs drain_inputs (fix 7d8a52c): ticks_until_next_state_change = 0 - the fast-path counter of an
  \* earlier attempt does not outlive the queue drained during the min-idle window
  \* (fix 6c7bac1): the releases that skip chord processing still release the active chords (release_in_active_chords,
  \* the helper shared with drain_releases).  bug = "chv2_cooldown_skips_releases": the behaviour before the fix.
  IF cv.ign > 0 THEN [cv |-> [cv EXCEPT !.q = <<>>, !.tuns = 0,
                                        !.ach = IF bug = "chv2_cooldown_skips_releases" THEN @ ELSE CvReleaseAll(@, cv.q)],
                      dq |-> CvSmolExtend(dq, cv.q)]
  ELSE IF cv.tuns > 0 /\ cv.pal = layer /\ cv.pql = Len(cv.q)
  THEN [cv |-> [cv EXCEPT !.tuns = CvSatSub(@, 1)], dq |-> dq]
  ELSE LET cv0 == [cv EXCEPT !.tuns = 0, !.pal = layer, !.pql = Len(cv.q)]
           v == CvDrainVirtualKeys(cv0, dq)
           r == CvDrainReleases(v.cv, v.dq)
       IN [cv |-> CvProcessPresses(r.cv, tbl, cign, layer, bug), dq |-> r.dq]

\* src: chord.rs:521 clear_released_chords.  returns [cv, dq]
RECURSIVE CvClearRec(_, _, _, _)
CvClearRec(ach, keep, dq, ovf) ==
  IF ach = <<>> THEN [keep |-> keep, dq |-> dq, ovf |-> ovf]
  ELSE IF Head(ach).st = "X"
  THEN LET r == CvSmolPush(dq, [p |-> FALSE, x |-> 0, y |-> Head(ach).coord, s |-> 0]) IN
       CvClearRec(Tail(ach), keep, r.q, ovf \/ r.ov)
  ELSE CvClearRec(Tail(ach), Append(keep, Head(ach)), dq, ovf)
CvClearReleased(cv, dq) ==
  LET r == CvClearRec(cv.ach, <<>>, dq, FALSE)
      cv1 == [cv EXCEPT !.ach = r.keep]
  IN [cv |-> IF r.ovf THEN CvPanic(cv1, "assert:oops overflowed drain queue") ELSE cv1, dq |-> r.dq]

\* src: chord.rs:201 tick_chv2.  returns [cv, dq]; TRIGGER_TAPHOLD_COORD = (0, 0)
CvTick(cv, tbl, cign, layer, bug) ==
  LET cv0 == [cv EXCEPT !.q = [i \in DOMAIN @ |-> [@[i] EXCEPT !.s = CvSatAdd1(@)]],
                        !.ach = [i \in DOMAIN @ |-> IF @[i].st \in {"U", "UR"}
                                                    THEN [@[i] EXCEPT !.delay = CvSatAdd1(@)] ELSE @[i]]]
      n0 == Len(cv0.ach)
      d == CvDrainInputs(cv0, <<>>, tbl, cign, layer, bug)
      dq1 == IF Len(d.cv.ach) # n0 THEN CvSmolPush(d.dq, [p |-> TRUE, x |-> 0, y |-> 0, s |-> 0]).q ELSE d.dq
      dq2 == IF \E i \in DOMAIN d.cv.ach : d.cv.ach[i].st \in {"UR", "X"}
             THEN CvSmolPush(dq1, [p |-> FALSE, x |-> 0, y |-> 0, s |-> 0]).q ELSE dq1
      c == CvClearReleased(d.cv, dq2)
  IN [cv |-> [c.cv EXCEPT !.ign = CvSatSub(@, 1)], dq |-> c.dq]

\* ---- canonical form for the VIEW of model-checking instances ---------------------------
\* virtual coordinates are only compared for equality and are handed out round-robin from 50 values, so two states
\* that differ by a rotation of the virtual coordinates are bisimilar; the view renames a coordinate v to its age
\* relative to next_coord (the concrete state, with the real coordinates, is what the edge probe prints).
CvIsVirt(y) == y > CvKeyMax
CvRel(nc, y) == IF CvIsVirt(y) THEN CvKeyMax + 1 + ((nc - y + 50) % 50) ELSE y
=============================================================================
