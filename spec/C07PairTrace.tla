------------------------------ MODULE C07PairTrace ------------------------------
(***************************************************************************)
(* Binding C for C07 part 2: TLC reads the pairs of behaviours recorded     *)
(* from the real code by `kverif paired` (ndjson, one pair per line) and    *)
(* judges every pair with P_C07!PairErr.  One VERR line per rejected pair,  *)
(* one PNOTE line per pair whose raw event lists differ without effect.     *)
(***************************************************************************)
EXTENDS P_C07, Json, IOUtils
Rec == ndJsonDeserialize(IOEnv.TRACE)
VARIABLES l
Init == l = 1
Next == l <= Len(Rec) /\ l' = l + 1
Judge ==
  LET r == Rec[l] IN
  IF r.e # "pair" THEN TRUE
  ELSE LET e == PairErr(r)
           id == [line |-> l, job |-> r.job, case |-> r.case, cut |-> r.cut, K |-> r.K, cont |-> r.cont, mode |-> r.mode]
       IN /\ (e = "" \/ PrintT(<<"VERR", ToJson(id @@ [err |-> e])>>))
          /\ (e # "" \/ ~PairRawDiffers(r) \/ PrintT(<<"PNOTE", ToJson(id)>>))
Accepted == TLCGet("stats").diameter - 1 = Len(Rec)
=============================================================================
