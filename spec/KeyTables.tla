--------------------------------- MODULE KeyTables ---------------------------------
(***************************************************************************)
(* C11, table part.  The constants are generated from the working tree at   *)
(* check time (tools/props/c11.py):                                          *)
(*   KcEnum, OscEnum  Seq([n |-> variant name, v |-> discriminant]) parsed   *)
(*            from the source text of keyberon/src/key_code.rs (KeyCode) and *)
(*            parser/src/keys/mod.rs (OsCode)                                *)
(*   FromFn   c :> as_u16(from_u16(c)) for every c in 0..65535 for which the *)
(*            real OsCode::from_u16 returns Some (obtained by calling it)    *)
(*   NoneCount  number of c in 0..65535 with from_u16(c) = None              *)
(*   ConvFn   c :> [kc, back, kc_ref, back_ref, usize, u32, i32, u16,        *)
(*            try_usize]: KeyCode::from(osc) as u16, OsCode::from(kc), the   *)
(*            by-reference conversions and the integer conversions of OsCode *)
(*   Names    Seq([n, c]): every key name accepted by str_to_oscode          *)
(*   NamePos  Seq([n, c, src, act, lmap, exc, ovr]): the code the name       *)
(*            denotes when written in defsrc, as a layer action, as a        *)
(*            deflayermap input, in the process-unmapped-keys exception list *)
(*            and in defoverrides (observed through the real parser)         *)
(*   LkRows   Seq([i, n, lk, obs]): (row i) the name n observed under the     *)
(*            deflocalkeys-linux block lk = Seq([n, c]) (<<>>: no block) in   *)
(*            every configuration position that takes a key name; obs =       *)
(*            Seq([p |-> position, v |-> code held there]); v = -1: the        *)
(*            position does not take this name as a key (action keyword,     *)
(*            syntax), -2: something else than one key, -3: rejected          *)
(* What the property statement requires of them is stated below; one state  *)
(* per code value, so that the state count is the number of codes checked.  *)
(***************************************************************************)
EXTENDS Naturals, Integers, Sequences, FiniteSets, TLC, Json

CONSTANTS KcEnum, OscEnum, FromFn, NoneCount, ConvFn, Names, NamePos, LkRows

KcDisc == {KcEnum[i].v : i \in DOMAIN KcEnum}
OscDisc == {OscEnum[i].v : i \in DOMAIN OscEnum}
FromDom == DOMAIN FromFn

\* pseudo codes: not keys (evdev KEY_RESERVED, KEY_UNKNOWN, KEY_MAX)
Pseudo == {OscEnum[i].v : i \in {j \in DOMAIN OscEnum : OscEnum[j].n \in {"KEY_RESERVED", "KEY_UNKNOWN", "KEY_MAX"}}}
\* the reserved no-op codes of the statement
NoOpCodes == 676..685        \* 0x2a4 .. 0x2ad

\* ---- global requirements (checked once) ------------------------------------------
\* precondition of the two transmutes between the code enums: same set of discriminants
T_DiscEqual == KcDisc = OscDisc
\* discriminants and variant names are unique within each enum
T_EnumInjective == /\ Cardinality(KcDisc) = Len(KcEnum) /\ Cardinality(OscDisc) = Len(OscEnum)
                   /\ Cardinality({KcEnum[i].n : i \in DOMAIN KcEnum}) = Len(KcEnum)
                   /\ Cardinality({OscEnum[i].n : i \in DOMAIN OscEnum}) = Len(OscEnum)
\* from_u16 is total on u16 (Some or None for each of the 65536 values) and produces only enum values
T_FromTotal == Cardinality(FromDom) + NoneCount = 65536 /\ FromDom \subseteq 0..65535
T_FromInEnum == FromDom \subseteq OscDisc
\* a key name denotes one code
T_NamesFunctional == \A i, j \in DOMAIN Names : Names[i].n = Names[j].n => Names[i].c = Names[j].c
T_NamesInDomain == \A i \in DOMAIN Names : Names[i].c \in FromDom
\* ... and the same code wherever it is written (-1: position not applicable / not observed)
PosOk(v, c) == v = c \/ v = 0 - 1
T_NamePositions == \A i \in DOMAIN NamePos :
                     LET r == NamePos[i] IN
                     PosOk(r.src, r.c) /\ PosOk(r.act, r.c) /\ PosOk(r.lmap, r.c) /\ PosOk(r.exc, r.c) /\ PosOk(r.ovr, r.c)
\* the no-op names denote the reserved no-op codes, in order
NopName(k) == CASE k = 0 -> "nop0" [] k = 1 -> "nop1" [] k = 2 -> "nop2" [] k = 3 -> "nop3" [] k = 4 -> "nop4"
                [] k = 5 -> "nop5" [] k = 6 -> "nop6" [] k = 7 -> "nop7" [] k = 8 -> "nop8" [] k = 9 -> "nop9"
T_NopNames == \A k \in 0..9 : \E i \in DOMAIN Names : Names[i].n = NopName(k) /\ Names[i].c = 676 + k

\* ---- names under deflocalkeys -------------------------------------------------------
\* docs/config.adoc "deflocalkeys": the block defines key names "that can be used in defsrc, deflayer and anywhere
\* else in the configuration"; docs/locales.adoc gives built-in names (z, y, <, ;, ...) a new code this way.  So the
\* code a name denotes is a function of the name and the block only: the block's code when the block names it,
\* the built-in code otherwise - in every position, and whatever was parsed before.
\* (the tables are passed as arguments so that TLC evaluates the generated constants once)
LkHas(lk, n) == \E i \in DOMAIN lk : lk[i].n = n
LkCode(lk, n) == lk[CHOOSE i \in DOMAIN lk : lk[i].n = n].c
NameKnown(names, n) == \E i \in DOMAIN names : names[i].n = n
BuiltinCode(names, n) == names[CHOOSE i \in DOMAIN names : names[i].n = n].c
DenotesIn(names, n, lk) == IF LkHas(lk, n) THEN LkCode(lk, n)
                           ELSE IF NameKnown(names, n) THEN BuiltinCode(names, n) ELSE 0 - 9
Denotes(n, lk) == DenotesIn(Names, n, lk)
LkBadIn(names, r) == LET d == DenotesIn(names, r.n, r.lk) IN {i \in DOMAIN r.obs : ~PosOk(r.obs[i].v, d)}
RowsOf(s) == {s[i] : i \in DOMAIN s}
LkAllOk(names, rows) == \A r \in RowsOf(rows) : LkBadIn(names, r) = {}
T_LkPositions == LkAllOk(Names, LkRows)

Global == /\ T_DiscEqual /\ T_EnumInjective /\ T_FromTotal /\ T_FromInEnum
          /\ T_NamesFunctional /\ T_NamesInDomain /\ T_NamePositions /\ T_NopNames /\ T_LkPositions

\* ---- per code value ------------------------------------------------------------------
\* as_u16 o from_u16 = id on the domain of from_u16; outside the enum from_u16 is None
P_FromAs(c) == IF c \in FromDom THEN FromFn[c] = c ELSE TRUE
\* the two code spaces coincide value for value: every conversion keeps the numeric value and the
\* conversions are mutually inverse
P_Conv(c) == c \in FromDom =>
               LET r == ConvFn[c] IN
               /\ r.kc = c /\ r.back = c /\ r.kc_ref = c /\ r.back_ref = c
               /\ r.usize = c /\ r.u32 = c /\ r.i32 = c /\ r.u16 = c /\ r.try_usize = c
               /\ r.kc \in KcDisc
PerCode(c) == P_FromAs(c) /\ P_Conv(c)

\* soft probe (reported, not required): enum values that from_u16 cannot produce
Unreachable == OscDisc \ FromDom

VARIABLE code
TInit == code = 0
TNext == code < 65535 /\ code' = code + 1
\* every named code survives: the names whose code has no from_u16 entry
LostNames(names, dom) == {names[i] : i \in {j \in DOMAIN names : names[j].c \notin dom}}
LkReport(names, rows) ==
  \A r \in RowsOf(rows) :
    LET bad == LkBadIn(names, r) IN
    bad = {} \/ PrintT(<<"TERR", ToJson([req |-> IF r.lk = <<>> THEN "a key name denotes different codes in different positions"
                                                  ELSE "under deflocalkeys a key name does not denote the same code in every position",
                                         row |-> r.i, n |-> r.n, lk |-> r.lk, denotes |-> DenotesIn(names, r.n, r.lk),
                                         differs |-> {r.obs[j] : j \in bad}])>>)
\* failing requirements are printed (all of them), the run goes on
GlobalProbe == code = 0 =>
  /\ (T_DiscEqual \/ PrintT(<<"TERR", ToJson([req |-> "discriminant sets of KeyCode and OsCode differ",
                                               only_kc |-> KcDisc \ OscDisc, only_osc |-> OscDisc \ KcDisc])>>))
  /\ (T_EnumInjective \/ PrintT(<<"TERR", ToJson([req |-> "duplicate discriminant or variant name in an enum"])>>))
  /\ (T_FromTotal \/ PrintT(<<"TERR", ToJson([req |-> "from_u16 table does not cover u16"])>>))
  /\ (T_FromInEnum \/ PrintT(<<"TERR", ToJson([req |-> "from_u16 yields a value outside the OsCode enum",
                                                codes |-> FromDom \ OscDisc])>>))
  /\ (T_NamesFunctional \/ PrintT(<<"TERR", ToJson([req |-> "a key name denotes two codes"])>>))
  /\ (T_NamesInDomain \/ PrintT(<<"TERR", ToJson([req |-> "a key name denotes a code from_u16 does not know",
                                                 names |-> LostNames(Names, FromDom)])>>))
  /\ (T_NamePositions \/ PrintT(<<"TERR", ToJson([req |-> "a key name denotes different codes in different positions",
        names |-> {NamePos[i] : i \in {j \in DOMAIN NamePos :
                     LET r == NamePos[j] IN ~(PosOk(r.src, r.c) /\ PosOk(r.act, r.c) /\ PosOk(r.lmap, r.c)
                                              /\ PosOk(r.exc, r.c) /\ PosOk(r.ovr, r.c))}}])>>))
  /\ LkReport(Names, LkRows)
  /\ (T_NopNames \/ PrintT(<<"TERR", ToJson([req |-> "nop0..nop9 do not denote the reserved no-op codes 0x2a4..0x2ad"])>>))
  /\ PrintT(<<"TNOTE", ToJson([unreachable |-> Unreachable, pseudo |-> Pseudo])>>)
CodeProbe ==
  /\ (P_FromAs(code) \/ PrintT(<<"TERR", ToJson([req |-> "as_u16(from_u16(c)) differs from c", c |-> code, got |-> FromFn[code]])>>))
  /\ (P_Conv(code) \/ PrintT(<<"TERR", ToJson([req |-> "KeyCode/OsCode/integer conversion does not preserve the value",
                                               c |-> code, conv |-> ConvFn[code]])>>))
=============================================================================
