---------------------------------- MODULE P_C11 ----------------------------------
(***************************************************************************)
(* L2 for C11 (key identity), written from the property statement.          *)
(*                                                                         *)
(* Part 1, identity monitor.  The configuration leaves every pressed key    *)
(* to itself (mapped to its own name, to `_`, in a deflayermap, or unmapped *)
(* with process-unmapped-keys).  params p:                                   *)
(*   btn   : Seq([c, b])  mouse-button key codes and the button they click   *)
(*   wheel : Seq([c, s])  wheel key codes and the scroll event they send     *)
(*   pseudo: Seq(code)    pseudo codes (reserved / unknown / max): not keys, *)
(*                        nothing is required of them except silence or      *)
(*                        identity                                           *)
(* Rules (one queued input is processed per tick):                           *)
(*  I1 a press (release) of code c makes the OS see exactly a press          *)
(*     (release) of the same code c on the tick that processes it;           *)
(*  I2 the reserved no-op codes 0x2a4..0x2ad are never sent to the OS;       *)
(*  I3 mouse-button codes come out as the click / release of their button,   *)
(*     wheel codes as their scroll event (on the press only);                *)
(*  I4 nothing else is ever sent.                                            *)
(*                                                                         *)
(* Part 1b, output paths ("paths" \in DOMAIN p).  The configuration sends    *)
(* a no-op key down some output path (macro item, sequence replay, one-shot, *)
(* tap-hold, override output, virtual key, dynamic macro replay, ...).  Only *)
(* I2 is required there: whatever else comes out, no OS key event ever       *)
(* carries one of the reserved no-op codes.                                  *)
(*                                                                         *)
(* Part 2, the intercept set: Intercept(q, known) for a text-level           *)
(* description q = [defsrc, lmap, pu, exc] (sequences of codes, pu boolean). *)
(***************************************************************************)
EXTENDS Obs

NoOp(c) == c >= 676 /\ c <= 685      \* 0x2a4 .. 0x2ad

\* Part 1c, identity under a remapping layer ("lay" \in DOMAIN p): p.lay = [k |-> code of the layer key, mode |-> "held"
\* (layer-while-held: on while the key is down) | "flip" (layer-toggle / layer-switch: every press flips), remap |->
\* Seq([c, o])]: the second layer maps key c to key o; on the base layer every key but k is left to itself.  A key
\* pressed while the base layer is active is an identity key for the whole time it is held, whatever layer becomes
\* active meanwhile: its repeats and its release come out as the same code.  Nothing is required here of keys
\* pressed under the second layer (not this property's business) except I2.
MonInit(p) == [p |-> p, pending |-> <<>>, down |-> {}, nav |-> FALSE, held |-> {}, err |-> ""]

Lookup(tab, c) == LET I == {i \in DOMAIN tab : tab[i].c = c} IN
                  IF I = {} THEN <<>> ELSE <<tab[CHOOSE i \in I : TRUE]>>

\* the OS events the statement requires for one input event
Expected(p, press, c) ==
  LET b == Lookup(p.btn, c)
      w == Lookup(p.wheel, c)
  IN IF NoOp(c) THEN <<>>
     ELSE IF b # <<>> THEN <<<<IF press THEN "bd" ELSE "bu", b[1].b>>>>
     ELSE IF w # <<>> THEN (IF press THEN <<<<"sc", w[1].s>>>> ELSE <<>>)
     ELSE <<<<IF press THEN "d" ELSE "u", c>>>>

HasNoOp(out) == \E i \in DOMAIN out : out[i][1] \in {"d", "u"} /\ out[i][2] \in 676..685

PathsMode(p) == "paths" \in DOMAIN p
LayOn(p) == "lay" \in DOMAIN p
LayKey(p) == IF LayOn(p) THEN p.lay.k ELSE 0 - 1
\* the code key c is pressed as, given the layer state
PressedAs(m, c) == IF LayOn(m.p) /\ m.nav /\ Lookup(m.p.lay.remap, c) # <<>> THEN Lookup(m.p.lay.remap, c)[1].o ELSE c
HeldAs(m, c) == LET H == {x \in m.held : x.c = c} IN IF H = {} THEN c ELSE (CHOOSE x \in H : TRUE).o

MonIn(m, r) ==
  IF m.err # "" THEN m
  ELSE IF PathsMode(m.p) THEN
    IF r.e = "fk" THEN m          \* a virtual key operated from outside: no output is recorded with the step itself
    ELSE IF HasNoOp(r.out) THEN Fail(m, "C11 I2: a reserved no-op code was sent to the OS (with the input event)")
    ELSE m
  ELSE IF r.e \in {"d", "u"} THEN
    IF r.out # <<>> THEN Fail(m, "C11 I4: output while the input event was only queued")
    ELSE [m EXCEPT !.pending = Append(@, [p |-> r.e = "d", c |-> r.c])]
  ELSE IF r.e = "r" THEN
    \* I5 an OS auto-repeat of a held key; the reserved no-op codes are never sent
    IF HasNoOp(r.out) THEN Fail(m, "C11 I2: a reserved no-op code was sent to the OS (repeat)")
    ELSE IF InSeq(m.p.pseudo, r.c) \/ Lookup(m.p.btn, r.c) # <<>> \/ Lookup(m.p.wheel, r.c) # <<>> \/ r.c = LayKey(m.p) THEN m
    ELSE IF (\E i \in DOMAIN m.pending : m.pending[i].c = r.c) \/ {x \in m.held : x.c = r.c} = {}
    THEN \* the key's own press / release is still queued, or it is not down: at most a repeat of the code
         IF r.out = <<>> \/ (Len(r.out) = 1 /\ r.out[1][1] = "d" /\ (r.out[1][2] = r.c \/ LayOn(m.p))) THEN m
         ELSE Fail(m, "C11 I1: the repeat of a key did not come out as the same OS code")
    ELSE IF HeldAs(m, r.c) # r.c THEN m          \* pressed under the second layer
    ELSE IF NoOp(r.c) THEN (IF r.out = <<>> THEN m ELSE Fail(m, "C11 I2: a reserved no-op code produced output (repeat)"))
    ELSE IF r.out = <<<<"d", r.c>>>> THEN m
    ELSE Fail(m, "C11 I5: the repeat of a held identity key did not come out as a repeat of the same code")
  ELSE Fail(m, "C11: input kind outside the instance")


MonTick(m, out, idle, cb) ==
  IF m.err # "" THEN m
  ELSE IF HasNoOp(out) THEN Fail(m, "C11 I2: a reserved no-op code was sent to the OS")
  ELSE IF PathsMode(m.p) THEN m
  ELSE IF m.pending = <<>>
  THEN IF out # <<>> THEN Fail(m, "C11 I4: output without input") ELSE m
  ELSE LET ev == Head(m.pending)
           m0 == [m EXCEPT !.pending = Tail(@)]
       IN IF ev.c = LayKey(m.p)
          THEN LET m1 == [m0 EXCEPT !.nav = IF m.p.lay.mode = "held" THEN ev.p ELSE (IF ev.p THEN ~@ ELSE @)]
               IN IF out = <<>> THEN m1 ELSE Fail(m1, "C11 I4: the layer key produced output")
          ELSE
          LET o == IF ev.p THEN PressedAs(m, ev.c) ELSE HeldAs(m, ev.c)
              m1 == IF ev.p THEN [m0 EXCEPT !.held = {x \in @ : x.c # ev.c} \cup {[c |-> ev.c, o |-> o]}]
                    ELSE [m0 EXCEPT !.held = {x \in @ : x.c # ev.c}]
              exp == Expected(m.p, ev.p, ev.c)
          IN IF o # ev.c THEN m1                  \* pressed under the second layer
             ELSE IF InSeq(m.p.pseudo, ev.c)
             THEN IF out = <<>> \/ out = exp THEN m1
                  ELSE Fail(m1, "C11 I4: a pseudo code produced foreign output")
             ELSE IF out = exp THEN m1
             ELSE IF NoOp(ev.c) THEN Fail(m1, "C11 I2: a reserved no-op code produced output")
             ELSE IF Lookup(m.p.btn, ev.c) # <<>> \/ Lookup(m.p.wheel, ev.c) # <<>>
             THEN Fail(m1, "C11 I3: mouse code not emitted as its button / scroll event")
             ELSE Fail(m1, "C11 I1: the key did not come out as the same OS code that went in")

RECURSIVE MonSilent(_, _, _, _)
MonSilent(m, n, idle, cb) ==
  IF n = 0 \/ m.err # "" THEN m
  ELSE IF m.pending = <<>> THEN m
  ELSE MonSilent(MonTick(m, <<>>, idle, cb), n - 1, idle, cb)

\* ---- part 2 -------------------------------------------------------------------------
\* "the set of keys kanata intercepts is exactly defsrc plus deflayermap inputs (plus all known keys
\*  minus the listed exceptions when process-unmapped-keys is on)"
Intercept(q, known) ==
  SeqToSet(q.defsrc) \cup SeqToSet(q.lmap) \cup (IF q.pu THEN known \ SeqToSet(q.exc) ELSE {})

\* ---- part 3: the intercept set across live reloads ------------------------------------
\* "the set of keys kanata intercepts is exactly ..." of the configuration IN FORCE: the start-up configuration until a
\* live reload really replaces the layout (ground truth observed on the code: repl), from then on the content the
\* file had at that moment; a reload that is abandoned (the file does not parse, or a later step of the reload
\* fails) leaves the set alone.
\*   qs   : record  content kind |-> q  for the contents that parse (q as for Intercept)
\*   obs  : Seq([i, mk, repl, file]): after step i the code intercepts the codes mk; file = content kind of the file
\* Result: <<>> or one record describing the first observation that differs.
RECURSIVE ReloadScan(_, _, _, _, _, _)
ReloadScan(qs, known, pseudo, obs, k, cur) ==
  IF k > Len(obs) THEN <<>>
  ELSE LET o == obs[k]
           c == IF o.repl /\ o.file \in DOMAIN qs THEN o.file ELSE cur
           real == SeqToSet(o.mk) \ pseudo
           spec == Intercept(qs[c], known) \ pseudo
       IN IF real = spec THEN ReloadScan(qs, known, pseudo, obs, k + 1, c)
          ELSE <<[i |-> o.i, inforce |-> c, file |-> o.file, repl |-> o.repl, missing |-> spec \ real, extra |-> real \ spec]>>
ReloadBad(qs, known, pseudo, start, obs) == ReloadScan(qs, known, pseudo, obs, 1, start)
=============================================================================
