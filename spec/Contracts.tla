--------------------------------- MODULE Contracts ---------------------------------
(***************************************************************************)
(* C02: the parser / run-time contract table.                              *)
(*                                                                         *)
(* Sites: every run-time arithmetic / indexing site in src/kanata/mod.rs,  *)
(* keyberon/src/layout.rs, chord.rs, dynamic_macro.rs, sequences.rs that   *)
(* relies on a range of a user-controlled number, with its precondition.   *)
(* Entries: every parser entry feeding a site, with the range the parser   *)
(* guarantees (read off parse_non_zero_u16 / parse_u16 / parse_distance /  *)
(* parse_u8_with_range / the defcfg checks).                               *)
(*                                                                         *)
(* TLC checks  guarantee => precondition  for every site over the boundary *)
(* values and prints one CONTRACT line per site with the counterexamples.  *)
(* tools/props/c02_model.py then checks the real parser's accept / reject  *)
(* decision for every entry and boundary value against Guar, and runs      *)
(* every accepted value (and every counterexample tuple) on the real code. *)
(*                                                                         *)
(* The second part is a small state machine for the one contract that is   *)
(* about state rather than a number: dynamic_macro.rs removed item         *)
(* `macro_items.len() - 1`, which needs a recorded item the parser cannot   *)
(* guarantee; since fix 72e2986 it is `pop()` and no precondition is left. *)
(***************************************************************************)
EXTENDS Naturals, Integers, Sequences, FiniteSets, TLC, Json, NestV2, ReloadIdx   \* NestV2, ReloadIdx: their enumerations are printed in the same TLC run

Boundary == {0, 1, 5, 8, 30000, 65535}
CoordBoundary == {0, 1, 766, 767, 851, 900}
LenBoundary == {0, 1, 5, 8, 9}
U16 == 65535

\* ----- parser guarantees (the set of values an entry lets through) ---------------------
Guar(g, v) ==
  CASE g = "u16" -> v <= U16                       \* src: parser/src/cfg/mod.rs:2058 parse_u16
    [] g = "nz" -> v >= 1 /\ v <= U16              \* src: mod.rs:2065 parse_non_zero_u16; defcfg.rs:844 parse_cfg_val_u16(.., true)
    [] g = "dist" -> v >= 1 /\ v <= 30000          \* src: mod.rs:3152 parse_distance
    [] g = "rec" -> v >= 1 /\ v <= 8               \* src: switch.rs:143,204,217 parse_u8_with_range(.., 1, 8)
    [] g = "minidle" -> v >= 5 /\ v <= U16         \* src: defcfg.rs:786-796
    [] g = "code" -> v <= 767                      \* src: mod.rs:3728 parse_arbitrary_code
    [] g = "mapped" -> v <= 766                    \* src: mod.rs:1174 `for osc in 0..KEYS_IN_ROW`, defsrc keys, MAPPED_KEYS filter of the OS layers
    [] g = "vkey" -> v <= 766                      \* src: mod.rs:3099,3143 at most KEYS_IN_ROW virtual keys => index <= 766
    [] g = "chv2coord" -> v >= 851 /\ v <= 900     \* src: keyberon/src/chord.rs:162,235-243 virtual coordinates of active chords
    [] g = "len1" -> v >= 1                        \* src: mod.rs parse_tap_dance "the list must have at least one action" (fix a045d7c)
    [] g = "depth8" -> v <= 8                      \* src: parser/src/cfg/switch.rs:66 rejects depth > MAX_BOOL_EXPR_DEPTH
    [] OTHER -> FALSE

\* ----- entries: [id, g, site, slot] -------------------------------------------------------
\* `slot` = which parameter of the site's precondition the entry feeds (1-based)
Entries == <<
  [id |-> "mwheel.interval",            g |-> "nz",      site |-> "scroll.interval-1",       slot |-> 1],
  [id |-> "mwheel.distance",            g |-> "dist",    site |-> "none",                     slot |-> 1],
  [id |-> "movemouse.interval",         g |-> "nz",      site |-> "move.interval-1",         slot |-> 1],
  [id |-> "movemouse.distance",         g |-> "dist",    site |-> "none",                     slot |-> 1],
  [id |-> "movemouse-accel.interval",   g |-> "nz",      site |-> "move.interval-1",         slot |-> 1],
  [id |-> "movemouse-accel.accel-time", g |-> "nz",      site |-> "accel.min+increment",     slot |-> 1],
  [id |-> "movemouse-accel.min",        g |-> "dist",    site |-> "accel.min+increment",     slot |-> 2],
  [id |-> "movemouse-accel.max",        g |-> "dist",    site |-> "accel.min+increment",     slot |-> 3],
  [id |-> "movemouse-speed.speed",      g |-> "nz",      site |-> "none",                     slot |-> 1],
  [id |-> "defcfg.sequence-timeout",    g |-> "nz",      site |-> "seq.ticks_until_timeout-=1", slot |-> 1],
  [id |-> "sequence.timeout",           g |-> "nz",      site |-> "seq.ticks_until_timeout-=1", slot |-> 1],
  [id |-> "sequence-noerase.count",     g |-> "nz",      site |-> "seq.noerase_count+=",     slot |-> 1],
  [id |-> "sequence-noerase.count#2",   g |-> "nz",      site |-> "seq.noerase_count+=",     slot |-> 2],
  [id |-> "defcfg.rapid-event-delay",   g |-> "u16",     site |-> "waiting.delay+ticks",     slot |-> 1],
  [id |-> "tap-hold.hold-timeout",      g |-> "nz",      site |-> "waiting.delay+ticks",     slot |-> 2],
  [id |-> "tap-hold.tap-timeout",       g |-> "u16",     site |-> "none",                     slot |-> 1],
  [id |-> "defchords.timeout",          g |-> "nz",      site |-> "waiting.delay+ticks",     slot |-> 2],
  [id |-> "one-shot.timeout",           g |-> "nz",      site |-> "none",                     slot |-> 1],
  [id |-> "tap-dance.timeout",          g |-> "nz",      site |-> "none",                     slot |-> 1],
  [id |-> "defchordsv2.timeout",        g |-> "nz",      site |-> "none",                     slot |-> 1],
  [id |-> "macro.delay",                g |-> "nz",      site |-> "seq.duration-1",          slot |-> 1],
  [id |-> "switch.key-history.recency", g |-> "rec",     site |-> "history[n-1]",            slot |-> 1],
  [id |-> "switch.input-history.recency", g |-> "rec",   site |-> "history[n-1]",            slot |-> 1],
  [id |-> "switch.key-timing.recency",  g |-> "rec",     site |-> "history[n-1]",            slot |-> 1],
  [id |-> "defcfg.chords-v2-min-idle",  g |-> "minidle", site |-> "chv2.assert-min-idle",    slot |-> 1],
  [id |-> "defcfg.dynamic-macro-max-presses", g |-> "u16", site |-> "none",                   slot |-> 1],
  [id |-> "dynamic-macro-record-stop-truncate.n", g |-> "u16", site |-> "none",               slot |-> 1],
  [id |-> "caps-word.timeout",          g |-> "nz",      site |-> "none",                     slot |-> 1],
  [id |-> "on-idle.duration",           g |-> "nz",      site |-> "none",                     slot |-> 1],
  [id |-> "hold-for-duration.duration", g |-> "nz",      site |-> "none",                     slot |-> 1],
  [id |-> "one-shot-pause-processing.ticks", g |-> "nz", site |-> "none",                     slot |-> 1],
  [id |-> "arbitrary-code.code",        g |-> "code",    site |-> "none",                     slot |-> 1]
>>

\* coordinate providers of the coordinate-indexed lookups, and length / depth providers
CoordEntries == <<
  [id |-> "coord.real-key",   g |-> "mapped",    site |-> "src_keys[y]"],
  [id |-> "coord.virtual-key", g |-> "vkey",     site |-> "src_keys[y]"],
  [id |-> "coord.real-key",   g |-> "mapped",    site |-> "layers[l][x][y]"],
  [id |-> "coord.virtual-key", g |-> "vkey",     site |-> "layers[l][x][y]"]
  \* virtual coordinates 851..900 of active chords (keyberon/src/chord.rs next_coord) do not feed these two lookups:
  \* parse_single_chord refuses an action that is or contains the transparent action (fix b1a5742) or use-defsrc
  \* (fix e6580d6), the only actions that index by the coordinate; tools/props/c02.py keeps both as targeted texts
  \* that must be rejected
>>
LenEntries == <<
  [id |-> "tap-dance.actions.len",       g |-> "len1",   site |-> "tap-dance.actions[idx]"],
  [id |-> "tap-dance-eager.actions.len", g |-> "len1",   site |-> "tap-dance-eager.actions[0]"],
  [id |-> "switch.bool-depth",           g |-> "depth8", site |-> "switch.eval-stack"]
>>

\* ----- sites: precondition over the tuple of its parameters ---------------------------------
\* number of parameters per site
Arity(site) ==
  CASE site = "accel.min+increment" -> 3
    [] site \in {"seq.noerase_count+=", "waiting.delay+ticks"} -> 2
    [] OTHER -> 1

\* src comments: where the site is
Pre(site, p) ==
  CASE site = "scroll.interval-1" -> p[1] >= 1                   \* src: src/kanata/mod.rs:868,877
    [] site = "move.interval-1" -> p[1] >= 1                     \* src: src/kanata/mod.rs:901,948
    \* src: src/kanata/mod.rs:893,940 `min_distance + increment`, increment <= (max-min) * ticks/accel_time, ticks <= accel_time;
    \* accel_time = 0 makes the increment infinite (saturating cast to 65535)
    [] site = "accel.min+increment" -> p[1] >= 1 /\ p[2] <= p[3] /\ p[2] + (p[3] - p[2]) <= U16
    [] site = "seq.ticks_until_timeout-=1" -> p[1] >= 1          \* src: src/kanata/mod.rs:987
    [] site = "seq.noerase_count+=" -> TRUE                       \* src: src/kanata/sequences.rs add_noerase: saturating_add (fix b0ed4c2)
    \* src: keyberon/src/layout.rs:1131,1161,1191 `w.delay + w.ticks`: delay = queue age (saturating, so up to the time the
    \* event was held back: a pause of rapid-event-delay ticks or another waiting action), ticks <= the action's own timeout
    \* saturating_add at all four sites since fix 871d8af: no precondition left
    [] site = "waiting.delay+ticks" -> TRUE
    [] site = "seq.duration-1" -> TRUE                           \* src: keyberon/src/layout.rs:1402-1404 guarded by `duration > 0`
    [] site = "history[n-1]" -> p[1] >= 1 /\ p[1] - 1 < 8        \* src: keyberon/src/action/switch.rs history lookups, HISTORICAL_EVENT_LEN = 8
    [] site = "chv2.assert-min-idle" -> p[1] >= 5                \* src: keyberon/src/chord.rs:152
    [] site = "src_keys[y]" -> p[1] < 767                        \* src: keyberon/src/layout.rs:1619 Action::Src
    [] site = "layers[l][x][y]" -> p[1] < 767                    \* src: keyberon/src/layout.rs:1566-1570 resolve_coord (Action::Trans)
    [] site = "tap-dance.actions[idx]" -> p[1] >= 1              \* src: keyberon/src/layout.rs:478
    [] site = "tap-dance-eager.actions[0]" -> p[1] >= 1          \* src: keyberon/src/layout.rs:1762
    [] site = "switch.eval-stack" -> p[1] <= 8                   \* src: keyberon/src/action/switch.rs:382-416 assert on depth
    [] OTHER -> TRUE

\* cross-parameter checks the parser makes in addition to the per-entry ranges
Cross(site, p) ==
  CASE site = "accel.min+increment" -> p[2] <= p[3]              \* src: parser/src/cfg/mod.rs:3213 "min distance should be less than max distance"
    [] OTHER -> TRUE

SeqToSet(s) == {s[i] : i \in DOMAIN s}
SitesOf(E) == {E[i].site : i \in DOMAIN E} \ {"none"}
\* guarantees feeding slot k of a site
SlotGuars(E, site, k) == {E[i].g : i \in {j \in DOMAIN E : E[j].site = site /\ (IF "slot" \in DOMAIN E[j] THEN E[j].slot = k ELSE k = 1)}}

Tuples(B, n) == IF n = 1 THEN {<<a>> : a \in B}
                ELSE IF n = 2 THEN {<<a, b>> : a \in B, b \in B}
                ELSE {<<a, b, c>> : a \in B, b \in B, c \in B}

\* a tuple is admitted by the parser if every slot value passes at least one entry feeding that slot
Admitted(E, site, p) ==
  /\ \A k \in 1..Arity(site) : \E g \in SlotGuars(E, site, k) : Guar(g, p[k])
  /\ Cross(site, p)

Counterexamples(E, B, site) == {p \in Tuples(B, Arity(site)) : Admitted(E, site, p) /\ ~Pre(site, p)}

SetToSeq(S) == LET RECURSIVE f(_) f(T) == IF T = {} THEN <<>> ELSE LET x == CHOOSE y \in T : TRUE IN <<x>> \o f(T \ {x}) IN f(S)

Report(E, B) ==
  \A site \in SitesOf(E) :
    LET cx == Counterexamples(E, B, site) IN
    PrintT(<<"CONTRACT", ToJson([site |-> site, arity |-> Arity(site), holds |-> cx = {},
                                 tuples |-> Cardinality(Tuples(B, Arity(site))),
                                 admitted |-> Cardinality({p \in Tuples(B, Arity(site)) : Admitted(E, site, p)}),
                                 cx |-> SetToSeq(cx)])>>)

\* one line per (entry, boundary value): what the table says the parser does
Decisions(E, B) ==
  \A i \in DOMAIN E : \A v \in B :
    PrintT(<<"DECISION", ToJson([id |-> E[i].id, v |-> v, accept |-> Guar(E[i].g, v)])>>)

ASSUME Report(Entries, Boundary) /\ Report(CoordEntries, CoordBoundary) /\ Report(LenEntries, LenBoundary)
ASSUME Decisions(Entries, Boundary) /\ Decisions(LenEntries, LenBoundary)

\* ===== the dynamic-macro recorder: `macro_items.len() - 1` needs an item ===================
\* src: src/kanata/dynamic_macro.rs.  rec = -1: not recording, else the id being recorded.
VARIABLES rec, items, pend, bad, hist
dvars == <<rec, items, pend, bad, hist>>
MaxItems == 3
Min2(n) == IF n > MaxItems THEN MaxItems ELSE n
DInit == rec = -1 /\ items = 0 /\ pend = FALSE /\ bad = "" /\ hist = <<>>
\* src: record_press / record_release -> add_event (handle_input_event, before the action of the key runs)
Phys(k) == /\ bad = ""
           /\ IF rec = -1 THEN UNCHANGED <<rec, items, pend>>
              ELSE /\ items' = IF pend THEN Min2(items + 1) ELSE items
                   /\ pend' = TRUE /\ UNCHANGED rec
           /\ UNCHANGED bad /\ hist' = Append(hist, k)
\* src: begin_record_macro 159-202
ActRecord(id) ==
  /\ bad = ""
  /\ hist' = Append(hist, IF id = 1 THEN "record1" ELSE "record2")
  /\ IF rec = -1 THEN rec' = id /\ items' = 0 /\ pend' = FALSE /\ UNCHANGED bad
     ELSE LET n == IF pend THEN Min2(items + 1) ELSE items IN
          \* `macro_items.pop()` (fix 72e2986): nothing recorded yet is fine; before the fix n = 0 was `len() - 1` on an empty Vec
          /\ rec' = IF rec = id THEN -1 ELSE id
          /\ items' = 0 /\ pend' = FALSE /\ UNCHANGED bad
\* src: stop_macro 242-278
ActStop ==
  /\ bad = ""
  /\ hist' = Append(hist, "stop")
  /\ IF rec = -1 THEN UNCHANGED <<rec, items, pend, bad>>
     ELSE LET n == IF pend THEN Min2(items + 1) ELSE items IN
          rec' = -1 /\ items' = 0 /\ pend' = FALSE /\ UNCHANGED bad     \* `pop()` (fix 72e2986)
\* the parser puts no constraint on where record / stop actions are placed: several in one multi, on virtual keys,
\* in hold / timeout / release positions - so an action may run without a recorded event since recording began
DNext == Phys("press") \/ Phys("release") \/ ActRecord(1) \/ ActRecord(2) \/ ActStop
DView == <<rec, items, pend, bad>>
DynProbe == bad = "" \/ PrintT(<<"PANIC", ToJson([h |-> hist, site |-> bad])>>)
=============================================================================
