------------------------------ MODULE LexConf ------------------------------
(* C03 lexer conformance: every line of the file named by the environment variable TRACE is
   {"b": bytes of a text, "r": result of the real sexpr::parse on it}; TLC checks r = Lexer!Parse(b)
   for every line (token tree with all spans and line positions, or error class with its span) and
   prints the differences.  The records are visited as a binary tree so that all workers are used. *)
EXTENDS Lexer, Json, IOUtils
Rec == ndJsonDeserialize(IOEnv.TRACE)
VARIABLE l
Init == l = 1 /\ Len(Rec) >= 1
Next == \E c \in {2 * l, 2 * l + 1} : c <= Len(Rec) /\ l' = c
Conforms ==
  LET r == Rec[l]
      exp == Parse(r.b) IN
  exp = r.r \/ PrintT(<<"LEXDIFF", ToJson([b |-> r.b, model |-> exp, code |-> r.r])>>)
AllVisited == TLCGet("distinct") = Len(Rec)
=============================================================================
