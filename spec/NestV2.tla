--------------------------------- MODULE NestV2 ---------------------------------
(***************************************************************************)
(* C02: position-dependent actions nested inside a defchordsv2 action.     *)
(*                                                                         *)
(* The transparent action `_` and `use-defsrc` look up the position of the *)
(* pressed key.  A chords-v2 action fires at a virtual position (row 0,    *)
(* column 851..900) that has no slot in a layer row or in defsrc, so the   *)
(* run time may never reach one of the two at such a position.  The parser *)
(* guards this by refusing a defchordsv2 action that is or CONTAINS one of *)
(* them (also through an alias).  "Contains" is a tree walk over every     *)
(* action form that has sub-actions; the walk and the set of forms can     *)
(* diverge.                                                                *)
(*                                                                         *)
(* This module enumerates, from the user documentation (docs/config.adoc), *)
(* every action form with sub-action positions x every position x leaf,    *)
(* nested to depth 2, renders the configuration text of the action, and    *)
(* states the outcome relation: the parser rejects the text used as a      *)
(* defchordsv2 action through an alias, OR every history of the            *)
(* stimulation family (which reaches every sub-position: tap, hold past    *)
(* all timeouts, interruption by another key, n taps, trigger key held or  *)
(* not) is processed to completion.  The same texts used directly in a     *)
(* deflayer, where both leaves are legal, are the control.                  *)
(* tools/props/c02_model.py reads the NESTCASE / NESTHIST lines, asks the   *)
(* real parser and runs the accepted ones on the real code.                 *)
(***************************************************************************)
EXTENDS Naturals, Sequences, TLC, Json

\* `rpt-any` is position dependent by proxy: it performs the most recent action again at the position of the key that
\* carries it; key c of the family is (multi use-defsrc lsft), so after c was pressed the repeated action looks up defsrc
NvLeaves == <<"_", "use-defsrc", "rpt-any">>
NvFill == <<"x", "y", "z">>           \* plain keys in the positions not under test
NvT == "20"                            \* every timeout of the family (ticks); NvLong outlasts any two nested ones

\* a form: name, tokens (slot tokens "$1".."$3"), number of slots.  Keys: a b = the chord, c = trigger / case key, d = other
NvTH2(n) == [name |-> n, toks |-> <<"(", n, NvT, NvT, "$1", "$2", ")">>, slots |-> 2]
NvTH3(n) == [name |-> n, toks |-> <<"(", n, NvT, NvT, "$1", "$2", "$3", ")">>, slots |-> 3]
NvTHK(n) == [name |-> n, toks |-> <<"(", n, NvT, NvT, "$1", "$2", "(", "d", ")", ")">>, slots |-> 2]
NvOS(n) == [name |-> n, toks |-> <<"(", n, NvT, "$1", ")">>, slots |-> 1]
NvTD(n) == [name |-> n, toks |-> <<"(", n, NvT, "(", "$1", "$2", "$3", ")", ")">>, slots |-> 3]

NvForms == <<
  [name |-> "multi", toks |-> <<"(", "multi", "$1", "$2", ")">>, slots |-> 2],
  NvTH2("tap-hold"), NvTH2("tap-hold-press"), NvTH2("tap-hold-release"),
  NvTH3("tap-hold-press-timeout"), NvTH3("tap-hold-release-timeout"),
  NvTHK("tap-hold-release-keys"), NvTHK("tap-hold-except-keys"),
  NvOS("one-shot"), NvOS("one-shot-press"), NvOS("one-shot-release"),
  NvOS("one-shot-press-pcancel"), NvOS("one-shot-release-pcancel"),
  NvTD("tap-dance"), NvTD("tap-dance-eager"),
  [name |-> "fork", toks |-> <<"(", "fork", "$1", "$2", "(", "c", ")", ")">>, slots |-> 2],
  [name |-> "switch-break", toks |-> <<"(", "switch", "(", "c", ")", "$1", "break", "(", ")", "$2", "break", ")">>, slots |-> 2],
  [name |-> "switch-fallthrough", toks |-> <<"(", "switch", "(", ")", "$1", "fallthrough", "(", ")", "$2", "break", ")">>, slots |-> 2]
>>

NvSlotTok(k) == CASE k = 1 -> "$1" [] k = 2 -> "$2" [] OTHER -> "$3"
NvSlotOf(t) == CASE t = "$1" -> 1 [] t = "$2" -> 2 [] t = "$3" -> 3 [] OTHER -> 0

RECURSIVE NvJoin(_)
NvJoin(s) == IF s = <<>> THEN "" ELSE IF Len(s) = 1 THEN s[1] ELSE s[1] \o " " \o NvJoin(Tail(s))

\* the text of form f with `inner` at slot k and plain keys elsewhere
NvRenderForm(f, k, inner) ==
  NvJoin([i \in DOMAIN f.toks |->
            LET sl == NvSlotOf(f.toks[i]) IN
            IF sl = 0 THEN f.toks[i] ELSE IF sl = k THEN inner ELSE NvFill[sl]])

\* a case: path = <<[f, s], ...>> outermost first, leaf index
RECURSIVE NvRender(_, _)
NvRender(path, leaf) ==
  IF path = <<>> THEN leaf ELSE NvRenderForm(NvForms[path[1].f], path[1].s, NvRender(Tail(path), leaf))

NvPos == {[f |-> f, s |-> s] : f \in DOMAIN NvForms, s \in 1..3}
NvPositions == {p \in NvPos : p.s <= NvForms[p.f].slots}
NvPaths1 == {<<p>> : p \in NvPositions}
NvPaths2 == {<<p, q>> : p \in NvPositions, q \in NvPositions}

NvPathNames(path) == [i \in DOMAIN path |-> <<NvForms[path[i].f].name, path[i].s>>]

\* ----- the stimulation family ---------------------------------------------------------------
\* steps: <<"d", key>> <<"u", key>> <<"p", key>> <<"t", n>>; keys by name (a b chord, c trigger, d other)
NvLong == 150
NvFire == <<<<"d", "a">>, <<"d", "b">>>>
NvLift == <<<<"u", "a">>, <<"u", "b">>>>
NvTapOnce == NvFire \o <<<<"t", 3>>>> \o NvLift \o <<<<"t", 3>>>>
RECURSIVE NvTaps(_)
NvTaps(n) == IF n = 0 THEN <<>> ELSE NvTapOnce \o NvTaps(n - 1)
NvFinal(k) ==
  CASE k = "tap" -> NvFire \o <<<<"t", 5>>>> \o NvLift \o <<<<"t", NvLong>>>>
    [] k = "hold" -> NvFire \o <<<<"t", NvLong>>>> \o NvLift \o <<<<"t", NvLong>>>>
    [] k = "hold-other-press" -> NvFire \o <<<<"t", 5>>, <<"d", "d">>, <<"t", 5>>, <<"u", "d">>, <<"t", NvLong>>>> \o NvLift \o <<<<"t", NvLong>>>>
    [] k = "hold-other-tap-late" -> NvFire \o <<<<"t", NvLong>>, <<"p", "d">>, <<"t", 30>>>> \o NvLift \o <<<<"t", NvLong>>>>
    [] k = "tap-then-other" -> NvFire \o <<<<"t", 5>>>> \o NvLift \o <<<<"t", 3>>, <<"p", "d">>, <<"t", NvLong>>>>
NvFinals == {"tap", "hold", "hold-other-press", "hold-other-tap-late", "tap-then-other"}
\* pretaps 0..2 (tap-dance items 1..3), trigger key c held or not (fork right / switch case)
NvHist(pre, fin, trig) ==
  (IF trig THEN <<<<"d", "c">>, <<"t", 12>>>> ELSE <<>>) \o NvTaps(pre) \o NvFinal(fin)   \* 12 > chords-v2-min-idle
  \o (IF trig THEN <<<<"u", "c">>, <<"t", NvLong>>>> ELSE <<>>)
NvHists == {[pre |-> pre, fin |-> fin, trig |-> trig] : pre \in 0..2, fin \in NvFinals, trig \in BOOLEAN}

\* ----- the outcome relation ------------------------------------------------------------------
\* r = [rejected : BOOLEAN, outcomes : set of strings ("ok" or a crash signature)]
NvOk(r) == r.rejected \/ \A o \in r.outcomes : o = "ok"

\* ----- enumeration (printed once when the module is loaded) ------------------------------------
NvPrintCases(paths, depth) ==
  \A path \in paths : \A l \in DOMAIN NvLeaves :
    PrintT(<<"NESTCASE", ToJson([depth |-> depth, path |-> NvPathNames(path), leaf |-> NvLeaves[l],
                                 text |-> NvRender(path, NvLeaves[l])])>>)
NvPrintHists ==
  \A h \in NvHists :
    PrintT(<<"NESTHIST", ToJson([pre |-> h.pre, fin |-> h.fin, trig |-> h.trig, steps |-> NvHist(h.pre, h.fin, h.trig)])>>)

ASSUME NvPrintHists /\ NvPrintCases({<<>>}, 0) /\ NvPrintCases(NvPaths1, 1) /\ NvPrintCases(NvPaths2, 2)
=============================================================================
