---------------------------------- MODULE P_C13 ----------------------------------
(***************************************************************************)
(* L2 for C13 (global overrides), written from the property statement and   *)
(* docs/config.adoc ("Global overrides", override-release-on-activation),   *)
(* not from key_override.rs.                                                 *)
(*                                                                         *)
(* Text-level table: Seq([i |-> Seq(code), o |-> Seq(code)]) - the input    *)
(* and output key lists as written in defoverrides; mods = the codes of the *)
(* eight modifier key names.  Each list has exactly one non-modifier key    *)
(* (the parser rejects anything else).                                       *)
(*                                                                         *)
(* Part 1, the abstract function.  Allowed(mods, table, keys) is the set of *)
(* key sets the OS may see when kanata is about to hold down `keys` (in      *)
(* that order):                                                              *)
(*  - an override of a held non-modifier key k is a candidate when all its  *)
(*    input modifiers are held as well;                                      *)
(*  - sharp zone (natural typing order): all its modifiers come before k.   *)
(*    Among the sharp candidates the one with the most modifiers must win;  *)
(*    the statement is silent on ties, either tied candidate is accepted;   *)
(*  - when k precedes some of a candidate's modifiers the statement is       *)
(*    ambiguous: that candidate may be applied in full or not at all (then  *)
(*    the best sharp candidate applies, or nothing if there is none);        *)
(*  - an applied override removes its key and its modifiers and contributes *)
(*    its output keys; never a partial substitution; all other keys stay.    *)
(*                                                                         *)
(* Part 2, the pipeline monitor (MonInit/MonIn/MonTick/MonSilent) for        *)
(* configurations whose keys are plain (mapped to themselves): see below.    *)
(***************************************************************************)
EXTENDS Obs

InModsOf(mods, o) == SeqToSet(o.i) \cap mods
InKeyOf(mods, o) == CHOOSE c \in SeqToSet(o.i) \ mods : TRUE
OutSetOf(o) == SeqToSet(o.o)

FirstPos(keys, k) == CHOOSE j \in DOMAIN keys : keys[j] = k /\ \A h \in DOMAIN keys : keys[h] = k => j <= h
ModsBefore(mods, keys, k) == {keys[j] : j \in 1..(FirstPos(keys, k) - 1)} \cap mods

\* candidates of key k: indices into table
AllCands(mods, table, keys, k) ==
  {n \in DOMAIN table : InKeyOf(mods, table[n]) = k /\ InModsOf(mods, table[n]) \subseteq SeqToSet(keys)}
SharpCands(mods, table, keys, k) ==
  {n \in AllCands(mods, table, keys, k) : InModsOf(mods, table[n]) \subseteq ModsBefore(mods, keys, k)}
NMods(mods, table, n) == Cardinality(InModsOf(mods, table[n]))

\* the overrides that may be applied to k; 0 = none
Choices(mods, table, keys, k) ==
  LET A == AllCands(mods, table, keys, k)
      S == SharpCands(mods, table, keys, k)
  IN {n \in A : \A j \in S : NMods(mods, table, j) <= NMods(mods, table, n)}
     \cup (IF S = {} THEN {0} ELSE {})

\* set of <<removed, added>> pairs over all admissible choices for the keys in nm
RECURSIVE Combine(_, _, _, _, _)
Combine(mods, table, keys, nm, acc) ==
  IF nm = {} THEN acc
  ELSE LET k == CHOOSE x \in nm : TRUE
           ch == Choices(mods, table, keys, k)
           step == {IF n = 0 THEN ra
                    ELSE <<ra[1] \cup InModsOf(mods, table[n]) \cup {k}, ra[2] \cup OutSetOf(table[n])>>
                    : ra \in acc, n \in ch}
       IN Combine(mods, table, keys, nm \ {k}, step)

Allowed(mods, table, keys) ==
  LET held == SeqToSet(keys)
      ras == Combine(mods, table, keys, held \ mods, {<<{}, {}>>})
  IN {(held \ ra[1]) \cup ra[2] : ra \in ras}

\* TRUE when the statement pins the result: no ambiguous candidate and no tie
Sharp(mods, table, keys) == Cardinality(Allowed(mods, table, keys)) = 1

\* the relation used to judge a result observed on the real code (a key list, duplicates and
\* order irrelevant at the OS)
Accepts(mods, table, keys, result) == SeqToSet(result) \in Allowed(mods, table, keys)

(***************************************************************************)
(* Pipeline monitor.  params p: [mods : Seq(code), table, roa : 0|1].       *)
(* The configuration maps every key to itself, so "the keys kanata is about *)
(* to hold down" are the physically held keys in the order their presses    *)
(* were processed (one queued event per tick) - except that a key which has *)
(* been substituted may be dropped by kanata afterwards (the documentation  *)
(* of override-release-on-activation describes the substituted key as gone  *)
(* once the combination is broken; with the option on it is dropped at      *)
(* once).  State:                                                            *)
(*   H     processed held keys, in order                                     *)
(*   may   held non-modifier keys that had a candidate override at some      *)
(*         point since their press: kanata may have dropped them             *)
(*   must  held non-modifier keys whose press completed a combination in     *)
(*         natural order (they were substituted)                             *)
(*   down  keys the OS sees pressed;  bad = consecutive unacceptable ticks   *)
(*   quiet ticks since the last processed event (capped)                     *)
(* Rules:                                                                    *)
(*  O1 (sharp) a tick that processes an event while no held key may have    *)
(*     been dropped: the OS key set after the tick is in Allowed(H) - the    *)
(*     substituted set while the combination is held, the plain set with    *)
(*     still-held modifiers back and no override output when it ended.       *)
(*  O2 any tick: the OS key set is in Allowed(H minus X) for some set X of  *)
(*     possibly dropped keys; at most 2 consecutive ticks may fall outside   *)
(*     (override outputs are released within 2 ticks, none stays pressed).   *)
(*  O3 roa = 0: a tick that processes no event changes nothing at the OS    *)
(*     (the substitution stays while the combination is held).               *)
(*  O4 roa = 1: from the 2nd quiet tick after an activation on, the OS key  *)
(*     set is in Allowed(H minus X) for some X containing `must`: the output *)
(*     cannot remain held.                                                   *)
(*  O5 the BLOCKED loop: a tick whose can-block decision (cb) is true is     *)
(*     the last one before the processing loop sleeps until the next input   *)
(*     event, so nothing may be owed any more - the OS key set must already  *)
(*     be the one the statement requires for good: acceptable (O2 without    *)
(*     the 2-tick grace) and, with roa = 1, without the output of an         *)
(*     activated override (O4 without waiting for the 2nd quiet tick).       *)
(* Remapped keys: p.map (optional) = Seq([c, k]): physical key c is written  *)
(* as the plain key k in the layer; H, may, must hold the key codes kanata   *)
(* is about to hold down, not the physical ones.  Two physical keys may be   *)
(* written as the same MODIFIER (both shift keys -> lsft): the key list then *)
(* holds the code twice and the override replaces all copies (Allowed works  *)
(* on the set of held codes).  Non-modifier keys are mapped injectively.     *)
(* OS repeat events ("r" inputs; a repeat written to the OS shows as         *)
(* ["d", code] in the out list of the "r" line):                             *)
(*  R1 a repeat event makes kanata write at most one event, a repeat; when   *)
(*     every input is processed and the OS key set is settled (final `fin`,  *)
(*     acceptable, and either the result of a sharp tick or two quiet ticks  *)
(*     old) only for a key the OS sees down - never for the replaced key or  *)
(*     a released output.  (In the 1-tick window between a roa activation    *)
(*     and the tick that brings the modifiers back the statement is silent;  *)
(*     a repeat for a key that is up is C14's question.)                     *)
(*  R2 (sharp zone only: every input processed, the OS key set is the       *)
(*     result of a sharp tick - `sh` - so no key was dropped, and roa = 0 or *)
(*     the key has no candidate override) the override output stands "in     *)
(*     place of that key": the repeat of a held non-modifier key k is        *)
(*     forwarded, as a repeat of k or of the non-modifier output key of an   *)
(*     override of k, whichever the OS sees down.  Which of several such     *)
(*     keys that are down for different reasons repeats is C14's question.   *)
(***************************************************************************)
MonInit(p) == [p |-> p, pending |-> <<>>, H |-> <<>>, HP |-> <<>>, may |-> {}, must |-> {}, down |-> {},
               bad |-> 0, quiet |-> 3, sh |-> TRUE, fin |-> TRUE, err |-> ""]

PMods(m) == SeqToSet(m.p.mods)
DropKeys(H, X) == SelectSeq(H, LAMBDA k : k \notin X)
\* the key written in the layer for physical key c (identity without p.map)
PKeyOf(m, c) ==
  IF "map" \in DOMAIN m.p /\ \E i \in DOMAIN m.p.map : m.p.map[i].c = c
  THEN m.p.map[CHOOSE i \in DOMAIN m.p.map : m.p.map[i].c = c].k
  ELSE c
OutKeyOf(mods, o) == CHOOSE c \in SeqToSet(o.o) \ mods : TRUE
\* keys the OS may see "in place of" key k: k itself, or the non-modifier output of an override of k
StandIns(mods, table, k) == {k} \cup {OutKeyOf(mods, table[n]) : n \in {j \in DOMAIN table : InKeyOf(mods, table[j]) = k}}

MonRepeat(m, r) ==
  LET mods == PMods(m)
      k == PKeyOf(m, r.c)
      onlyReps == \A i \in DOMAIN r.out : r.out[i][1] = "d"
      sharp == /\ m.pending = <<>> /\ m.sh /\ m.bad = 0 /\ k \notin mods /\ InSeq(m.H, k)
               /\ (m.p.roa = 0 \/ AllCands(mods, m.p.table, m.H, k) = {})
      stand == StandIns(mods, m.p.table, k) \cap m.down
  IN IF Len(r.out) > 1 \/ ~onlyReps
     THEN Fail(m, "C13 R1: an OS repeat event made kanata write more than one repeat")
     ELSE IF m.pending = <<>> /\ m.fin /\ m.bad = 0 /\ (m.sh \/ m.quiet >= 2) /\ r.out # <<>> /\ r.out[1][2] \notin m.down
     THEN Fail(m, "C13 R1: repeat written for a key the OS does not see pressed")
     ELSE IF sharp /\ stand # {} /\ (r.out = <<>> \/ r.out[1][2] \notin stand)
     THEN Fail(m, "C13 R2: the repeat of a held key was not forwarded for the key the OS sees in its place")
     ELSE m

MonIn(m, r) ==
  IF m.err # "" THEN m
  ELSE IF r.e \in {"d", "u"} THEN [m EXCEPT !.pending = Append(@, [p |-> r.e = "d", c |-> PKeyOf(m, r.c), ph |-> r.c])]
  ELSE IF r.e = "r" THEN MonRepeat(m, r)
  ELSE Fail(m, "C13: input kind outside the instance")

AccSets(m, H, may) == UNION {Allowed(PMods(m), m.p.table, DropKeys(H, X)) : X \in SUBSET may}

MonTick(m, out, idle, cb) ==
  IF m.err # "" THEN m
  ELSE
    LET mods == PMods(m)
        tab == m.p.table
        hasEv == m.pending # <<>>
        ev == IF hasEv THEN Head(m.pending) ELSE [p |-> FALSE, c |-> 0, ph |-> 0]
        \* H / HP run in parallel: key code and physical key of every held key.  Two physical keys may be written as the
        \* same (modifier) key: H then holds the code twice, and the release of one physical key removes its own copy
        phIdx == {i \in DOMAIN m.HP : m.HP[i] = ev.ph}
        keep == {i \in DOMAIN m.HP : i \notin phIdx}
        Sub(sq) == LET f[i \in 0..Len(sq)] == IF i = 0 THEN <<>> ELSE IF i \in keep THEN Append(f[i - 1], sq[i]) ELSE f[i - 1]
                   IN f[Len(sq)]
        H1 == IF ~hasEv THEN m.H
              ELSE IF ev.p THEN (IF phIdx # {} THEN m.H ELSE Append(m.H, ev.c))
              ELSE Sub(m.H)
        HP1 == IF ~hasEv THEN m.HP
               ELSE IF ev.p THEN (IF phIdx # {} THEN m.HP ELSE Append(m.HP, ev.ph))
               ELSE Sub(m.HP)
        held == SeqToSet(H1)
        may0 == m.may \cap held
        must0 == m.must \cap held
        D1 == DownAfter(out, m.down)
        okSoft == D1 \in AccSets(m, H1, may0)
        sharpTick == hasEv /\ may0 = {}
        nm == held \ mods
        may1 == may0 \cup {k \in nm : AllCands(mods, tab, H1, k) # {}}
        \* dropped keys are never modifiers, so whether the pressed key has a sharp candidate does not
        \* depend on which keys kanata may have dropped
        must1 == must0 \cup (IF hasEv /\ ev.p /\ ev.c \in nm /\ SharpCands(mods, tab, H1, ev.c) # {}
                             THEN {ev.c} ELSE {})
        quiet1 == IF hasEv THEN 0 ELSE OMin(m.quiet + 1, 3)
        bad1 == IF okSoft THEN 0 ELSE m.bad + 1
        \* the OS key set is the result of a sharp tick (nothing dropped, nothing owed) and nothing happened since
        sh1 == IF hasEv THEN sharpTick /\ D1 \in Allowed(mods, tab, H1) ELSE m.sh /\ D1 = m.down
        \* what the OS may see for good (no grace): O5
        fin == IF m.p.roa = 1
               THEN UNION {Allowed(mods, tab, DropKeys(H1, X)) : X \in {Y \in SUBSET may1 : must1 \subseteq Y}}
               ELSE AccSets(m, H1, may0)
        m1 == [m EXCEPT !.pending = IF hasEv THEN Tail(@) ELSE @, !.H = H1, !.HP = HP1, !.may = may1, !.must = must1,
                        !.down = D1, !.bad = bad1, !.quiet = quiet1, !.sh = sh1, !.fin = D1 \in fin]
    IN IF sharpTick /\ D1 \notin Allowed(mods, tab, H1)
       THEN Fail(m1, "C13 O1: OS key set differs from the override function of the held keys")
       ELSE IF cb /\ D1 \notin fin /\ D1 \ UNION fin # {}
       THEN Fail(m1, "C13 O5a: the loop may block (can_block) while a key that has to go up is still pressed at the OS (an override output is owed its release)")
       ELSE IF cb /\ D1 \notin fin
       THEN Fail(m1, "C13 O5b: the loop may block (can_block) while a still-held key that has to come back is not pressed at the OS (owed until the next input)")
       ELSE IF bad1 > 2
       THEN Fail(m1, "C13 O2: an override output stayed pressed / a held modifier did not come back within 2 ticks")
       ELSE IF ~hasEv /\ m.p.roa = 0 /\ m.bad = 0 /\ D1 # m.down
       THEN Fail(m1, "C13 O3: OS key set changed while the combination was held and nothing happened")
       ELSE IF ~hasEv /\ m.p.roa = 1 /\ quiet1 >= 2 /\ must0 # {}
               /\ D1 \notin UNION {Allowed(mods, tab, DropKeys(H1, X)) : X \in {Y \in SUBSET may0 : must0 \subseteq Y}}
       THEN Fail(m1, "C13 O4: override output remained held with override-release-on-activation")
       ELSE m1

RECURSIVE MonSilent(_, _, _, _)
MonSilent(m, n, idle, cb) ==
  IF n = 0 \/ m.err # "" THEN m
  ELSE IF m.pending = <<>> /\ m.bad = 0 /\ m.quiet >= 3
  THEN m       \* nothing pending, stable and acceptable: further silent ticks change nothing
  ELSE MonSilent(MonTick(m, <<>>, idle, cb), n - 1, idle, cb)
=============================================================================
