--------------------------------- MODULE Kanata ---------------------------------
(***************************************************************************)
(* L1 detailed model of the glue in src/kanata/mod.rs around the layout:   *)
(* handle_input_event, tick_states (keystate diff prev_keys/cur_keys,      *)
(* custom actions, virtual keys, idle timers), is_idle and                 *)
(* can_block_update_idle_waiting.  Same functional style as Layout.tla.    *)
(***************************************************************************)
EXTENDS Layout, Overrides, KeyRepeat, DynMacro, SeqMode

\* OS events: <<kind, arg>>  kind \in {"d","u","bd","bu","U","sc","mv","code"}
Ev(k, a) == <<k, a>>

KEY_IGNORE_MIN == 676   \* 0x2a4
KEY_IGNORE_MAX == 685   \* 0x2ad
BtnOf(c) == CASE c = 272 -> "Left" [] c = 273 -> "Right" [] c = 274 -> "Mid"
              [] c = 275 -> "Backward" [] c = 276 -> "Forward" [] OTHER -> ""

InitK ==
  [ L |-> InitLayout, prev |-> <<>>, out |-> <<>>,
    wfi |-> {}, vpr |-> <<>>, tsi |-> 0, mcd |-> 0, lrr |-> FALSE,
    scroll |-> <<>>, hscroll |-> <<>>, lpk |-> 0,
    um |-> <<>>, us |-> <<>>, umm |-> 0,      \* unmodded_keys, unshifted_keys, unmodded_mods (bits)
    ovrem |-> FALSE,        \* override_states.removed_oscs() is non-empty (left by the last override_keys call)
    cw |-> <<>>,            \* caps_word: <<>> or <<[cap, nt, T, ticks]>> (CapsWordState)
    sq |-> InitSq,          \* defseq sequence mode (SeqMode.tla); only touched when "seqtrie" \in DOMAIN Opts
    dyn |-> DmInit ]        \* dynamic macros (DynMacro.tla): record / replay state, stored macros

\* src: output_logic.rs press_key / release_key (zippychord disabled => plain)
PressKeyOut(c) ==
  IF c >= KEY_IGNORE_MIN /\ c <= KEY_IGNORE_MAX THEN <<>>
  ELSE IF BtnOf(c) # "" THEN <<Ev("bd", BtnOf(c))>>
  ELSE <<Ev("d", c)>>
ReleaseKeyOut(c) ==
  IF c >= KEY_IGNORE_MIN /\ c <= KEY_IGNORE_MAX THEN <<>>
  ELSE IF BtnOf(c) # "" THEN <<Ev("bu", BtnOf(c))>>
  ELSE <<Ev("u", c)>>

\* the custom-action list a custom event refers to
CuList(ce) == IF ce.i = 0 THEN Act[ce.a].cu ELSE Act[ce.a].evs[ce.i].cu

\* src: mod.rs:2336 handle_fakekey_action
StatesHasCoord(L, x, y) == \E i \in DOMAIN L.states : StHasCoord(L.states[i]) /\ L.states[i].x = x /\ L.states[i].y = y
FakeKeyOp(L, op, x, y) ==
  CASE op = "press" -> EventL(L, Qd(TRUE, x, y))
    [] op = "release" -> EventL(L, Qd(FALSE, x, y))
    [] op = "tap" -> EventL(EventL(L, Qd(TRUE, x, y)), Qd(FALSE, x, y))
    \* since fix cc71619: the most recent queued event of the coordinate decides what "pressed" means,
    \* only when nothing is in flight do the processed states tell (Bug "toggle_states_only" = before the fix)
    [] op = "toggle" ->
         LET qi == LastIdx(L.queue, LAMBDA e : e.x = x /\ e.y = y)
             pressed == IF qi # 0 /\ Bug # "toggle_states_only" THEN L.queue[qi].p ELSE StatesHasCoord(L, x, y)
         IN IF pressed THEN EventL(L, Qd(FALSE, x, y)) ELSE EventL(L, Qd(TRUE, x, y))

\* ----- handle_input_event (702-745) ----------------------------------------------
HandleInput(K, kind, code) ==
  \* 708-714 / 727: record_press / record_release see the event when it arrives (before the layout)
  LET K0 == [K EXCEPT !.tsi = 0, !.out = <<>>,
                      !.dyn = CASE kind = "d" -> DmRecordPress(@, code, Opts.dynamic_macro_max_presses
                                                                         + (IF Bug = "dm_limit" THEN 1 ELSE 0))
                                [] kind = "u" -> DmRecordRelease(@, code)
                                [] OTHER -> @] IN
  CASE kind = "d" ->
         LET K1 == IF K0.mcd > 0
                   THEN [K0 EXCEPT !.mcd = 0, !.L.seqs = <<>>,
                                   !.L.states = SelectSeq(@, LAMBDA s : s.t \notin {"fk", "rs"})]
                   ELSE K0
         IN [K1 EXCEPT !.L = EventL(@, Qd(TRUE, 0, code))]
    [] kind = "u" -> [K0 EXCEPT !.L = EventL(@, Qd(FALSE, 0, code))]
    [] kind = "p" -> [K0 EXCEPT !.L = EventL(EventL(@, Qd(TRUE, 0, code)), Qd(FALSE, 0, code))]
    \* src: mod.rs:730-733 KeyValue::Repeat -> handle_repeat (key_repeat.rs; KeyRepeat.tla): the layout is untouched
    [] kind = "r" -> IF TransOrderPanics(K0.L) THEN [K0 EXCEPT !.L = Panic(@, "heapless:layer_stack")]
                     \* handle_repeat_actual runs override_keys on the shared scratch override_states as well
                     ELSE [K0 EXCEPT !.out = KrRepeatOut(K0.L, K0.um, K0.us, code),
                                     !.ovrem = IF KrOverrides = <<>> THEN @
                                               ELSE OvrOverrideKeysSt(KrOverrides, Keycodes(K0.L), OvrClean, "none").st.rem # <<>>]
    [] OTHER -> K0

\* ----- handle_keystate_changes (1019-1791) ----------------------------------------
RECURSIVE ReleasesOut(_, _)
ReleasesOut(prev, cur) ==
  IF prev = <<>> THEN <<>>
  ELSE (IF Contains(cur, Head(prev)) THEN <<>> ELSE ReleaseKeyOut(Head(prev))) \o ReleasesOut(Tail(prev), cur)

\* returns [prev, out, lpk]
RECURSIVE PressesOut(_, _, _, _)
PressesOut(cur, prev, out, lpk) ==
  IF cur = <<>> THEN [prev |-> prev, out |-> out, lpk |-> lpk]
  ELSE LET k == Head(cur) IN
       IF Contains(prev, k) THEN PressesOut(Tail(cur), prev, out, lpk)
       ELSE PressesOut(Tail(cur), Append(prev, k), out \o PressKeyOut(k), k)

\* a dynamic-macro operator that may have hit a panic site (none since fix 72e2986: pop() in
\* begin_record_macro / stop_macro)
DynApply(K, D) == IF D.pn # "" THEN [K EXCEPT !.L = Panic(@, D.pn)] ELSE [K EXCEPT !.dyn = D]

\* one custom action on press; K carries L/out etc.
CustomPress(K, c) ==
  CASE c.c = "fakekey" -> [K EXCEPT !.L = FakeKeyOp(@, c.op, c.x, c.y)]
    [] c.c = "fakekey_idle" ->
         [K EXCEPT !.tsi = 0, !.wfi = @ \cup {[x |-> c.x, y |-> c.y, op |-> c.op, d |-> c.d]}]
    [] c.c = "fakekey_hold" ->
         LET i == SelectSeqIdx(K.vpr, LAMBDA v : v.x = c.x /\ v.y = c.y) IN
         IF i # 0 THEN [K EXCEPT !.vpr[i].d = c.d]
         ELSE [K EXCEPT !.vpr = Append(@, [x |-> c.x, y |-> c.y, d |-> c.d]),
                        !.L = EventL(@, Qd(TRUE, c.x, c.y))]
    [] c.c = "unicode" -> [K EXCEPT !.out = Append(@, Ev("U", c.ch))]
    [] c.c = "mousetap" -> [K EXCEPT !.out = @ \o <<Ev("bd", c.btn), Ev("bu", c.btn)>>]
    [] c.c = "lrld" -> [K EXCEPT !.lrr = TRUE]
    \* src: mod.rs CustomAction::MWheel press arm: a fresh ScrollState (vertical / horizontal slot), first event on the
    \* next handle_scrolling; MWheelNotch: one event at once
    [] c.c = "mwheel" ->
         LET st == <<[dir |-> c.dir, dist |-> c.distance, ticks |-> 0, iv |-> c.interval]>> IN
         IF c.dir \in {"Up", "Down"} THEN [K EXCEPT !.scroll = st] ELSE [K EXCEPT !.hscroll = st]
    [] c.c = "mwheelnotch" -> [K EXCEPT !.out = Append(@, Ev("sc", c.dir \o ",120"))]
    \* src: mod.rs CustomAction::CapsWord arm: Overwrite starts afresh, Toggle ends an active caps-word
    [] c.c = "capsword" ->
         LET fresh == <<[cap |-> c.cap, nt |-> c.nonterm, T |-> c.timeout, ticks |-> c.timeout]>> IN
         [K EXCEPT !.cw = IF c.toggle /\ K.cw # <<>> THEN <<>> ELSE fresh]
    [] c.c = "cancel_macro_press" -> [K EXCEPT !.mcd = c.d]
    \* src: mod.rs CustomAction::Repeat arm (`rpt`): release, press, release of last_pressed_key
    \* (KeyCode::No = code 240 before any key was pressed)
    [] c.c = "repeat" ->
         LET k == IF K.lpk = 0 THEN 240 ELSE K.lpk IN
         [K EXCEPT !.out = @ \o ReleaseKeyOut(k) \o PressKeyOut(k) \o ReleaseKeyOut(k)]
    \* src: mod.rs DynamicMacroRecord / DynamicMacroRecordStop / DynamicMacroPlay arms (1590-1612)
    [] c.c = "dynrec" -> DynApply(K, DmBeginRecord(K.dyn, c.n))
    \* model mutants (DESIGN 3.4): dm_trunc truncates one more, dm_limit allows one press more,
    \* dm_norecguard forgets which macros are being replayed
    [] c.c = "dynstop" -> DynApply(K, DmStopMacro(K.dyn, IF Bug = "dm_trunc" THEN c.n + 1 ELSE c.n))
    [] c.c = "dynplay" -> [K EXCEPT !.dyn = DmPlayMacro(IF Bug = "dm_norecguard" /\ @.rep # <<>>
                                                       THEN [@ EXCEPT !.rep[1].active = {}] ELSE @, c.n)]
    \* src: mod.rs SequenceCancel / SequenceLeader / SequenceNoerase arms (SeqMode.tla)
    [] SqOn /\ c.c \in {"seqcancel", "seqleader", "seqnoerase"} ->
         LET sr == SqCustom(K.sq, K.out, c) IN [K EXCEPT !.sq = sr.sq, !.out = sr.out]
    [] OTHER -> K

RECURSIVE CustomPressAll(_, _, _)
\* `prev_mouse_btn` threading for CustomAction::Mouse (1307-1315)
CustomPressAll(K, cs, pbtn) ==
  IF cs = <<>> THEN K
  ELSE LET c == Head(cs) IN
       IF c.c = "mouse"
       THEN CustomPressAll([K EXCEPT !.out = @ \o (IF pbtn # "" THEN <<Ev("bu", pbtn)>> ELSE <<>>)
                                              \o <<Ev("bd", c.btn)>>], Tail(cs), c.btn)
       ELSE CustomPressAll(CustomPress(K, c), Tail(cs), pbtn)

\* release fold (1666-1785): returns K, and the last Mouse button is released at the end
RECURSIVE CustomReleaseAll(_, _, _)
CustomReleaseAll(K, cs, pbtn) ==
  IF cs = <<>> THEN IF pbtn # "" THEN [K EXCEPT !.out = Append(@, Ev("bu", pbtn))] ELSE K
  ELSE LET c == Head(cs) IN
       CASE c.c = "mouse" -> CustomReleaseAll(K, Tail(cs), c.btn)
         [] c.c = "fakekey_rel" ->
              CustomReleaseAll([K EXCEPT !.L = FakeKeyOp(@, c.op, c.x, c.y)], Tail(cs), pbtn)
         \* src: mod.rs CustomAction::MWheel release arm: the slot is cleared only if it still scrolls in this direction
         [] c.c = "mwheel" ->
              CustomReleaseAll(IF c.dir \in {"Up", "Down"}
                               THEN [K EXCEPT !.scroll = IF @ # <<>> /\ @[1].dir = c.dir THEN <<>> ELSE @]
                               ELSE [K EXCEPT !.hscroll = IF @ # <<>> /\ @[1].dir = c.dir THEN <<>> ELSE @],
                               Tail(cs), pbtn)
         [] c.c = "cancel_macro_rel" ->
              CustomReleaseAll([K EXCEPT !.mcd = 0, !.L.seqs = <<>>,
                                         !.L.states = SelectSeq(@, LAMBDA s : s.t \notin (IF Bug = "cancel_keeps_fk" THEN {"rs"}
                                                                                         ELSE {"fk", "rs"}))],
                               Tail(cs), pbtn)
         [] OTHER -> CustomReleaseAll(K, Tail(cs), pbtn)

RevRelease(ce) == ce.k = "release" /\ \E i \in DOMAIN CuList(ce) : CuList(ce)[i].c = "revrel"

\* global overrides, src: mod.rs:1086-1098 (override_keys, mark_overridden_nonmodkeys_for_eager_erasure,
\* override_release_on_activation).  Opts.overrides = the parsed defoverrides table (Overrides.tla shape);
\* the scratch OverrideStates is cleaned by every call, so it is not part of the state.
\* returns [L, cur]
ApplyOverrides(L, cur) ==
  IF "overrides" \notin DOMAIN Opts \/ Opts.overrides = <<>> THEN [L |-> L, cur |-> cur, rem |-> FALSE]
  ELSE LET o == OvrOverrideKeysSt(Opts.overrides, cur, OvrClean, "none")
           gone == OvrRemovedNonMods(o.st)
           \* src: key_override.rs:262-296: flags |= CLEAR_ON_NEXT_ACTION | CLEAR_ON_NEXT_RELEASE
           mark(s) == IF s.t = "nk" /\ s.a \in gone
                      THEN [s EXCEPT !.f = @ + (IF HasFlag(@, FlagClearOnNextAction) THEN 0 ELSE FlagClearOnNextAction)
                                             + (IF HasFlag(@, FlagClearOnNextRelease) THEN 0 ELSE FlagClearOnNextRelease)]
                      ELSE s
           st1 == [i \in DOMAIN L.states |-> mark(L.states[i])]
           \* src: mod.rs:1089-1098: release_state(KeyCode(removed)) drops NormalKey and FakeKey states of the key
           st2 == IF Opts.override_release_on_activation
                  THEN FilterSeq(st1, LAMBDA s : ~(s.t \in {"nk", "fk"} /\ s.a \in gone))
                  ELSE st1
       IN [L |-> [L EXCEPT !.states = st2], cur |-> o.keys, rem |-> o.st.rem # <<>>]

\* src: caps_word.rs maybe_add_lsft (called from handle_keystate_changes after the overrides): the state ends when its
\* ticks ran out or a key outside both lists is active; lsft is put in front when the LAST active key is one to
\* capitalise; any active key refreshes the timeout
CwStep(cw, cur) ==
  IF cw = <<>> THEN [cw |-> cw, cur |-> cur]
  ELSE LET s == cw[1] IN
       IF s.ticks = 0 THEN [cw |-> <<>>, cur |-> cur]
       ELSE IF \E i \in DOMAIN cur : ~Contains(s.cap, cur[i]) /\ ~Contains(s.nt, cur[i]) THEN [cw |-> <<>>, cur |-> cur]
       ELSE LET cur1 == IF cur # <<>> /\ Contains(s.cap, cur[Len(cur)]) THEN <<42>> \o cur ELSE cur
                t1 == IF cur1 # <<>> THEN s.T ELSE s.ticks
            IN [cw |-> <<[s EXCEPT !.ticks = SatSub(t1, 1)]>>, cur |-> cur1]

HandleKeystateChanges(K) ==
  LET r == TickL(K.L)
      ce == r.ce
      \* src: mod.rs:1050-1107 unmod / unshift edit cur_keys before the overrides (KeyRepeat.tla KrUnmodStep)
      un == KrUnmodStep(K.um, K.us, K.umm, ce.k, IF ce.k = "none" THEN <<>> ELSE CuList(ce), Keycodes(r.L))
      ov == ApplyOverrides(r.L, un.cur)
      cws == CwStep(K.cw, ov.cur)
      cur == cws.cur
      prevOrder == IF RevRelease(ce) THEN Reverse(K.prev) ELSE K.prev
      rel == ReleasesOut(prevOrder, cur)
      pr == PressesOut(cur, K.prev, <<>>, K.lpk)
      \* defseq sequence mode (SeqMode.tla; mod.rs:1181-1250): the all-keys-released check after the
      \* releases, then the press loop runs every new key through do_sequence_press_logic
      sqr == IF SqOn /\ K.sq.act /\ cur = <<>> /\ K.prev # <<>> THEN SqAllReleased(K.sq, ov.L, rel)
             ELSE [sq |-> K.sq, L |-> ov.L, out |-> rel]
      pl == IF SqOn THEN SqPressLoop(cur, cur, sqr.sq, sqr.L, sqr.out, K.prev, K.lpk)
            ELSE [sq |-> K.sq, L |-> ov.L, out |-> rel \o pr.out, lpk |-> pr.lpk]
      K1 == [K EXCEPT !.L = pl.L, !.out = pl.out, !.lpk = pl.lpk, !.sq = pl.sq,
                      !.um = un.um, !.us = un.us, !.umm = un.umm, !.cw = cws.cw]
      K2 == CASE ce.k = "press" -> CustomPressAll(K1, CuList(ce), "")
              [] ce.k = "release" -> CustomReleaseAll(K1, CuList(ce), "")
              [] OTHER -> K1
  IN [K2 EXCEPT !.prev = cur,       \* prev_keys := cur_keys at the end of tick_states (855-856)
                !.ovrem = ov.rem]

\* ----- the rest of tick_states (846-863) ---------------------------------------------
\* src: tick_idle_timeout 996-1011 (HashSet iteration order is not modelled: instances use
\* at most one on-idle entry per coordinate)
RECURSIVE IdleFire(_, _)
IdleFire(K, ws) ==
  IF ws = {} THEN K
  ELSE LET w == CHOOSE v \in ws : TRUE IN
       IF K.tsi >= w.d
       THEN IdleFire([K EXCEPT !.L = FakeKeyOp(@, w.op, w.x, w.y), !.wfi = @ \ {w}], ws \ {w})
       ELSE IdleFire(K, ws \ {w})

\* src: tick_held_vkeys 829-844
RECURSIVE HeldVkeys(_, _, _)
HeldVkeys(L, vpr, acc) ==
  IF vpr = <<>> THEN [L |-> L, vpr |-> acc]
  ELSE LET v == [Head(vpr) EXCEPT !.d = SatSub(@, 1)] IN
       IF v.d = 0 THEN HeldVkeys(EventL(L, Qd(FALSE, v.x, v.y)), Tail(vpr), acc)
       ELSE HeldVkeys(L, Tail(vpr), Append(acc, v))

\* src: mod.rs handle_scrolling (right after handle_keystate_changes): an event when the counter is 0, then
\* interval - 1 further ticks (the parser refuses interval 0)
ScrollStep(st, out) ==
  IF st = <<>> THEN [st |-> st, out |-> out]
  ELSE IF st[1].ticks = 0
  THEN [st |-> <<[st[1] EXCEPT !.ticks = SatSub(st[1].iv, 1)]>>,
        out |-> Append(out, Ev("sc", st[1].dir \o "," \o ToString(st[1].dist)))]
  ELSE [st |-> <<[st[1] EXCEPT !.ticks = @ - 1]>>, out |-> out]
HandleScrolling(K) ==
  LET v == ScrollStep(K.scroll, K.out)
      h == ScrollStep(K.hscroll, v.out)
  IN [K EXCEPT !.scroll = v.st, !.hscroll = h.st, !.out = h.out]

TickStates(K) ==
  LET K0 == HandleScrolling(HandleKeystateChanges(K))
      \* src: mod.rs:873 tick_sequence_state (after scrolling / mouse movement, before the idle timers)
      K1 == IF ~SqOn THEN K0
            ELSE LET st == SqTick(K0.sq, K0.out) IN
                 [K0 EXCEPT !.sq = st.sq, !.out = st.out, !.L = IF st.panic # "" THEN Panic(@, st.panic) ELSE @]
      K2 == IdleFire(K1, K1.wfi)
      K3 == [K2 EXCEPT !.mcd = SatSub(@, 1),
                       \* 853 tick_record_state
                       !.dyn = DmTickRecord(@, IF Opts.dynamic_macro_replay_delay_behaviour = "Recorded"
                                               THEN Caps.age ELSE 0)]
      hv == HeldVkeys(K3.L, K3.vpr, <<>>)
  IN [K3 EXCEPT !.L = hv.L, !.vpr = hv.vpr]

\* ----- is_idle / can_block_update_idle_waiting (2128-2194) ------------------------------
IsIdle(K) ==
  LET L == K.L
      pressedMeansNotIdle == K.wfi # {} \/ K.lrr
  IN /\ L.queue = <<>>
     /\ L.waiting = <<>>
     \* src: mod.rs is_idle (fix 60ae9e3): layout.extra_waiting.is_empty(); Bug = "idle_ignores_extra" = before the fix
     /\ (Bug = "idle_ignores_extra" \/ L.extra = <<>>)
     /\ L.lpt = 0
     \* src: mod.rs is_idle (fix 594c697): oneshot.keys.is_empty(); Bug = "idle_os_timeout0" = before the fix
     \* (`oneshot.timeout == 0 || keys.is_empty()`: with rapid-event-delay 0 the end of a one-shot was slept on)
     /\ (IF Bug = "idle_os_timeout0" THEN (L.os.timeout = 0 \/ L.os.keys = <<>>) ELSE L.os.keys = <<>>)
     \* src: mod.rs is_idle (fix 743d8bc): oneshot.pause_input_processing_ticks == 0; Bug = "idle_ignores_pause"
     /\ (Bug = "idle_ignores_pause" \/ L.os.pticks = 0)
     /\ L.seqs = <<>>
     /\ L.tde = <<>>
     /\ L.aq = <<>>
     /\ K.scroll = <<>> /\ K.hscroll = <<>>
     /\ K.mcd = 0
     \* src: mod.rs is_idle (fix 345be8d): prev_keys.iter().all(|pk| layout.keycodes().any(|kc| kc == *pk));
     \* Bug = "idle_ignores_prev" = the behaviour before the fix
     \* (Bug = "idle_ignores_owed": neither this conjunct nor the next one, the code before both fixes)
     /\ (Bug \in {"idle_ignores_prev", "idle_ignores_owed"} \/ \A i \in DOMAIN K.prev : Contains(Keycodes(L), K.prev[i]))
     \* src: mod.rs is_idle (fix d2e57b2): !(override_release_on_activation && override_states.removed_oscs().next().is_some()):
     \* the tick after a roa activation still has to release the outputs and to press the still-held modifiers again;
     \* Bug = "idle_ignores_roa_removed" = the behaviour before the fix
     /\ (Bug \in {"idle_ignores_roa_removed", "idle_ignores_owed"} \/ ~(K.ovrem /\ Opts.override_release_on_activation))
     /\ K.vpr = <<>>
     /\ (Bug = "idle_ignores_capsword" \/ K.cw = <<>>)      \* caps_word.is_none()
     /\ K.dyn.rep = <<>>                       \* dynamic_macro_replay_state.is_none()
     \* src: mod.rs is_idle (fix db302df): dynamic_macro_record_state.is_none(); Bug = "idle_ignores_rec"
     /\ (Bug = "idle_ignores_rec" \/ K.dyn.rec = <<>>)
     /\ (~SqOn \/ ~K.sq.act)                   \* sequence_state.is_inactive()
     /\ (~HasChv2 \/ CvIsIdle(L.chv2))         \* chords_v2.map(is_idle_chv2).unwrap_or(true)
     /\ ~\E i \in DOMAIN L.states :
            L.states[i].t \in {"scp", "sca"} \/ (pressedMeansNotIdle /\ L.states[i].t = "nk")

\* returns [K, cb]; ms_elapsed = 1 in the deterministic stepper
CanBlockUpdate(K) ==
  LET idle == IsIdle(K)
      counting == K.wfi # {} \/ K.lrr
      K1 == IF ~idle THEN [K EXCEPT !.tsi = 0]
            ELSE IF counting THEN [K EXCEPT !.tsi = CapAdd1(@)] ELSE K
      passed == K.L.hk = <<>> \/ K.L.hk[1].age >= Opts.switch_max_key_timing
  IN [K |-> K1, cb |-> idle /\ ~counting /\ passed
                       /\ (~HasChv2 \/ CvAccepts(K.L.chv2))]   \* chordsv2_accepts_chords (mod.rs:2153-2160)

\* ----- the deterministic stepper (DESIGN 3.1) ---------------------------------------------
\* one Tick = tick_ms(1) ; can_block_update_idle_waiting(1)
\* src: mod.rs tick_ms (801-827 at the pinned commit) with ms_elapsed = 1: tick_states, then the
\* replay cursor may hand one recorded key event to the layout; with the `recorded` delay behaviour
\* the recorded gap runs as extra tick_states inside the same call.  `out` accumulates over the
\* executed ticks, dyn.nt counts them.
RECURSIVE TickMsExtra(_, _)
TickMsExtra(K, n) ==
  IF n = 0 \/ K.L.panic # "" THEN K
  ELSE LET K1 == TickStates(K)
           r == DmTickReplay(K1.dyn, Opts.dynamic_macro_replay_delay_behaviour = "Recorded")
           K2 == [K1 EXCEPT !.out = K.out \o @, !.dyn = [r.D EXCEPT !.nt = K.dyn.nt + 1]]
       IN IF r.ev # <<>> THEN K2            \* "overshot to next event": the event is dropped, break
          ELSE TickMsExtra(K2, n - 1)
TickMs(K) ==
  LET K1 == TickStates(K)
      r == DmTickReplay(K1.dyn, Opts.dynamic_macro_replay_delay_behaviour = "Recorded")
      K2 == [K1 EXCEPT !.dyn = [r.D EXCEPT !.nt = 1]]
  IN IF r.ev = <<>> THEN K2
     ELSE TickMsExtra([K2 EXCEPT !.L = EventL(@, Qd(r.ev[1].p, 0, r.ev[1].c))], SatSub(r.ev[1].d, 1))

StepTick(K) ==
  LET K1 == TickMs([K EXCEPT !.out = <<>>])
      c == CanBlockUpdate(K1)
  IN [K |-> c.K, idle |-> IsIdle(K1), cb |-> c.cb]

\* ----- C07 part 1: the inductive core of "idle blocking is unobservable" ----------------------
\* Fut(k) = everything of k that can influence the future.  The outputs of the last step are not state; the history
\* ages are only ever compared with thresholds <= switch_max_key_timing (key-timing lt/gt, src: action/switch.rs:433-445:
\* `age <= Q(t)` / `age > Q(t)`, Q rounds down), and a comparison happens at least one tick after a may-block decision
\* (the press is dequeued by a tick, after tick_hist), so ages at or above the maximum are indistinguishable.
FutCapAges(h) == [i \in DOMAIN h |-> [h[i] EXCEPT !.age = Min(@, Opts.switch_max_key_timing)]]
\* A Tombstone (src: layout.rs:1486-1496, the slot of a macro custom action whose release was just emitted) is inert: no
\* keycode, no coordinate, never matched by a release; the next process_sequence_custom drops it.  It only occupies one
\* of the 64 state slots for a tick, which the bounded instances never fill.
Fut(k) == [k EXCEPT !.out = <<>>, !.L.hk = FutCapAges(@), !.L.hi = FutCapAges(@),
                    !.L.states = SelectSeq(@, LAMBDA s : s.t # "tomb")]
\* a tick taken where the loop may block emits nothing and is a stutter on Fut; by induction over the gap length this
\* is "K ticks are unobservable" for every K
IdleTickIsStutter(k) ==
  CanBlockUpdate(k).cb => LET s == StepTick(k) IN s.K.out = <<>> /\ Fut(s.K) = Fut(k)
\* the may-block states covered by a recorded, unrepaired finding of C07 (known_findings.json) that L1 models: none
\* (the rapid-event pause, the one-shot end with timeout 0, the recording state and extra_waiting were repaired in
\* 743d8bc / 594c697 / db302df / 60ae9e3 and are conjuncts of IsIdle now; the zippychord reset is outside L1)
IdleTickKnownDefect(k) == FALSE
\* ----- projection on what the harness can observe without hooks (binding B) ---------------
ProjSt(s) ==
  CASE s.t = "nk" -> <<"nk", s.a, s.x, s.y, s.f>>
    [] s.t = "lm" -> <<"lm", s.a, s.x, s.y, 0>>
    [] s.t \in {"cu", "rs"} -> <<s.t, 0, s.x, s.y, 0>>
    [] s.t = "fk" -> <<"fk", s.a, 0, 0, 0>>
    [] OTHER -> <<s.t, 0, 0, 0, 0>>
SeqMap(s, F(_)) == [i \in 1..Len(s) |-> F(s[i])]
Proj(K) ==
  LET L == K.L IN
  [ st |-> SeqMap(L.states, ProjSt),
    q |-> SeqMap(L.queue, LAMBDA e : <<IF e.p THEN 1 ELSE 0, e.x, e.y>>),
    w |-> L.waiting # <<>>, xw |-> Len(L.extra), tde |-> L.tde # <<>>,
    osk |-> L.os.keys, osr |-> L.os.released, oso |-> L.os.other,
    ost |-> L.os.timeout, osrn |-> L.os.rnt, osp |-> L.os.pticks, osi |-> L.os.ignore,
    lpc |-> L.lpc, lpt |-> L.lpt, nseq |-> Len(L.seqs), naq |-> Len(L.aq), dl |-> L.dl,
    prev |-> K.prev, tsi |-> K.tsi, nwfi |-> Cardinality(K.wfi), nvpr |-> Len(K.vpr),
    cw |-> IF K.cw = <<>> THEN <<>> ELSE <<K.cw[1].ticks>>,
    scr |-> <<IF K.scroll = <<>> THEN <<>> ELSE <<K.scroll[1].dir, K.scroll[1].ticks>>,
              IF K.hscroll = <<>> THEN <<>> ELSE <<K.hscroll[1].dir, K.hscroll[1].ticks>>>> ]
  @@ DmProj(K.dyn)
  @@ (IF SqOn THEN [sq |-> SqProj(K.sq)] ELSE [zz \in {} |-> 0])
  @@ (IF HasChv2 THEN [cv2i |-> CvIsIdle(K.L.chv2), cv2a |-> CvAccepts(K.L.chv2)] ELSE [zz \in {} |-> 0])
\* ----- canonical form of the chords-v2 virtual coordinates for the VIEW of model-checking instances (ChordsV2.tla):
\* the coordinates (0, KEY_MAX+1 .. KEY_MAX+50) are renamed to their age relative to next_coord in the places where a
\* chord action with plain key / custom actions can leave them (states, queues, last-press coordinate).
CvCanonK(K) ==
  IF ~HasChv2 THEN K
  ELSE LET nc == K.L.chv2.nc IN
       [K EXCEPT !.L.states = [i \in DOMAIN @ |-> [@[i] EXCEPT !.y = CvRel(nc, @)]],
                 !.L.queue = [i \in DOMAIN @ |-> [@[i] EXCEPT !.y = CvRel(nc, @)]],
                 !.L.aq = [i \in DOMAIN @ |-> [@[i] EXCEPT !.y = CvRel(nc, @)]],
                 !.L.lpc = <<@[1], CvRel(nc, @[2])>>,
                 !.L.chv2.ach = [i \in DOMAIN @ |-> [@[i] EXCEPT !.coord = CvRel(nc, @)]],
                 !.L.chv2.nc = 0]
=============================================================================
