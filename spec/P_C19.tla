---------------------------------- MODULE P_C19 ----------------------------------
(***************************************************************************)
(* L2 monitor for C19: dynamic macros replay what was typed and never      *)
(* leave a key down.  Written from the property statement and              *)
(* docs/config.adoc (dynamic-macro, dynamic-macro-max-presses), not from   *)
(* dynamic_macro.rs.  Calibration: DESIGN Appendix A (dynamic macro rows). *)
(*                                                                         *)
(* params p: [ c04  : parameters of the layered-keymap reference P_C04     *)
(*                    (control keys and time-sensitive keys appear as XX), *)
(*             ctl  : Seq([c, k, n])  control keys: k = "rec" (record id   *)
(*                    n) | "stop" (stop, truncate n) | "play" (play id n), *)
(*             th   : Seq([c, T, tap, hold]) tap-hold keys (time-sensitive *)
(*                    mappings: tap / hold are plain output keys),         *)
(*             max  : dynamic-macro-max-presses,                           *)
(*             recorded : BOOLEAN (replay delay behaviour),                *)
(*             red  : rapid-event-delay (default 5),                       *)
(*             live : liveness bound, stepper calls per replayed event,    *)
(*             gcap : cap of the recorded gaps (>= 2 and > T, or 0 when    *)
(*                    no gap is ever read) ]                              *)
(*                                                                         *)
(* Two independent parts:                                                  *)
(*  (R) bookkeeping of what a macro holds - a function of the input stream *)
(*      alone: Recorded = the events typed after the record key until the  *)
(*      stop key (its own press excluded), minus the truncated tail, plus  *)
(*      (any order) releases of the keys still down; a record key pressed  *)
(*      again stops (same id) or stops and starts (other id); a press      *)
(*      arriving when more than 2*max events are stored stops by itself.   *)
(*  (P) expected OS output: "typing them again" is the P_C04 reference     *)
(*      (and a tap/hold rule with a pacing margin for time-sensitive keys) *)
(*      fed with Recorded from the state at play time; a play key inside a *)
(*      macro splices the other macro in, the macro itself is never        *)
(*      spliced into itself; observed output must equal the expectation    *)
(*      in order (the final releases as a set); when kanata reports idle   *)
(*      nothing expected may be missing, and with no physical key held no  *)
(*      OS key may be down.                                                *)
(* Soft zones (the statement is silent; the monitor only keeps the safety  *)
(* part "nothing stays down" until the next quiescent point): physical     *)
(* input while a replay runs, play of the macro being recorded,            *)
(* time-sensitive keys typed live or replayed near their timeout.          *)
(* Calm: since fix db302df kanata never reports idle while a recording is  *)
(* switched on, so "idle" cannot be observed there.  While the monitor's   *)
(* own bookkeeping says a recording is on (and no late control key has     *)
(* been seen) it uses instead: every typed event has had its tick, no      *)
(* tap-hold key can still be undecided, no control key press is pending    *)
(* and an expected replay has had its full time budget.                    *)
(* Late control keys: when other input arrives before a record / stop key  *)
(* press has been processed (a burst, or a tap-hold key still undecided),  *)
(* the macro is still judged by the order in which the keys were typed,    *)
(* but it is marked `late` and a rejection of its replay carries the tag   *)
(* "[late control key]" (a known defect class: kanata records at arrival   *)
(* and starts / stops at processing time).                                  *)
(***************************************************************************)
EXTENDS Obs
Ref == INSTANCE P_C04

\* The pace of the `constant` delay behaviour and the pause after the end of a nested macro are implementation
\* constants the statement does not fix: there only order and content are judged, plus a liveness bound of p.live
\* stepper calls per replayed event.  With `recorded` delays the replay must reproduce the typed gaps exactly.

Lookup(tab, c) == LET I == {i \in DOMAIN tab : tab[i].c = c} IN
                  IF I = {} THEN <<>> ELSE <<tab[CHOOSE i \in I : TRUE]>>
CtlOf(p, c) == Lookup(p.ctl, c)
ThOf(p, c) == Lookup(p.th, c)

MonInit(p) ==
  [ p |-> p,
    ref |-> Ref!MonInit(p.c04),    \* state of the reference (only .p, .held, .base are used)
    phys |-> {},       \* physically held keys
    down |-> {},       \* keys the OS sees down
    pend |-> 0,        \* typed events kanata has not processed yet (one per tick, in order)
    ctlp |-> 0,        \* ticks until the latest control key press has been processed (0 = none pending)
    rec |-> <<>>,      \* <<[id, evs, late]>> while recording; evs : Seq([p, c, g]), g = ticks until the next event
    mac |-> <<>>,      \* stored macros Seq([id, evs, rel, late]); rel = keys still down (released at the end, any order)
    lastSaved |-> 0 - 1,   \* id saved by the latest control key press (-1: none)
    repLate |-> FALSE, \* the expected replay involves a macro marked late
    anch |-> 0 - 1,    \* pacing of the replay (recorded delays): schedule offset of the first timed output of the current
                       \* stretch (-1 none yet, -2 not judged); a stretch ends at the end of a nested macro
    rclk |-> 0,        \* stepper calls since that output
    exp |-> <<>>,      \* expected OS events not yet seen: <<"o", ev>> in order | <<"s", set of release events>>
    replaying |-> FALSE, budget |-> 0,
    mode |-> "sync",   \* "sync" | "lost" (soft zone: wait for the next quiescent point)
    behind |-> 0,      \* events typed while a tap-hold key may be undecided (they do not drain meanwhile)
    stall |-> 0,       \* ticks a tap-hold key may still keep kanata from being idle (its first T + 2 ticks: the key
                       \* may still be undecided and typed events do not drain)
    lateSeen |-> FALSE, \* a late control key was seen and kanata has not reported idle since: whether kanata is
                       \* recording is not determined by the input order
    lastIdle |-> TRUE, err |-> "" ]

\* ------------------------------------------------------------------ (R) bookkeeping
RECURSIVE StillDownRec(_, _)
StillDownRec(evs, acc) ==
  IF evs = <<>> THEN acc
  ELSE StillDownRec(Tail(evs), IF Head(evs).p THEN acc \cup {Head(evs).c} ELSE acc \ {Head(evs).c})
StillDown(evs) == StillDownRec(evs, {})

MacHas(mac, id) == \E i \in DOMAIN mac : mac[i].id = id
MacGet(mac, id) == mac[CHOOSE i \in DOMAIN mac : mac[i].id = id]
MacPut(mac, e) == SelectSeq(mac, LAMBDA x : x.id # e.id) \o <<e>>
SaveMac(m, id, evs, late) ==
  [m EXCEPT !.mac = MacPut(@, [id |-> id, evs |-> evs, rel |-> StillDown(evs), late |-> late,
                               gu |-> m.rec # <<>> /\ m.rec[1].gu]), !.lastSaved = id]
\* gu: the gaps of this recording are not known in ticks (a replay ran meanwhile: with recorded delays one stepper
\* call then executes several ticks)
NewRec(id) == [id |-> id, evs |-> <<>>, late |-> FALSE, gu |-> FALSE]
DropLast(s, n) == SubSeq(s, 1, IF Len(s) > n THEN Len(s) - n ELSE 0)

UndOf(m) == IF m.stall > m.p.red + 1 THEN m.stall - (m.p.red + 1) ELSE 0

\* an input event arrives: what it does to the recording
RecArrive(m0, isPress, c) ==
  LET p == m0.p
      ctl == CtlOf(p, c)
      \* the size limit: a press arriving when more than 2*max events are stored (the newest typed
      \* event is not stored yet) ends the recording; the stored events are the macro
      over == isPress /\ m0.rec # <<>> /\ Len(m0.rec[1].evs) > 2 * p.max + 1
      m == IF over
           THEN [SaveMac(m0, m0.rec[1].id, DropLast(m0.rec[1].evs, 1), m0.rec[1].late) EXCEPT !.rec = <<>>]
           ELSE m0
  IN IF isPress /\ ctl # <<>> /\ ctl[1].k = "rec"
     THEN IF m.rec = <<>> THEN [m EXCEPT !.rec = <<NewRec(ctl[1].n)>>]
          ELSE LET r == m.rec[1]
                   m1 == SaveMac(m, r.id, r.evs, r.late)
               IN [m1 EXCEPT !.rec = IF r.id = ctl[1].n THEN <<>> ELSE <<NewRec(ctl[1].n)>>]
     ELSE IF isPress /\ ctl # <<>> /\ ctl[1].k = "stop"
     THEN IF m.rec = <<>> THEN m
          ELSE LET r == m.rec[1] IN
               [SaveMac(m, r.id, DropLast(r.evs, ctl[1].n), r.late) EXCEPT !.rec = <<>>]
     ELSE IF m.rec # <<>>
     THEN [m EXCEPT !.rec[1].evs = Append(@, [p |-> isPress, c |-> c, g |-> 0])]
     ELSE m

RecTick(m) ==      \* the gap after the newest recorded event grows
  IF m.rec = <<>> \/ m.rec[1].evs = <<>> THEN m
  ELSE LET n == Len(m.rec[1].evs) IN [m EXCEPT !.rec[1].evs[n].g = OMin(@ + 1, m.p.gcap),
                                               !.rec[1].gu = @ \/ m.replaying]

\* other input arrives while a record / stop key press has not been processed yet: what that press
\* started / saved is marked late
MarkLate(m) ==
  [m EXCEPT !.mac = [i \in DOMAIN m.mac |-> IF m.mac[i].id = m.lastSaved THEN [m.mac[i] EXCEPT !.late = TRUE] ELSE m.mac[i]],
            !.rec = IF m.rec = <<>> THEN <<>> ELSE <<[m.rec[1] EXCEPT !.late = TRUE]>>,
            !.lateSeen = TRUE]
Lose(m) == [m EXCEPT !.mode = "lost", !.exp = <<>>, !.anch = 0 - 1, !.rclk = 0]

\* ------------------------------------------------------------------ (P) expected output
\* the events a replay of macro `id` feeds, nested plays spliced in (never a macro that is already
\* being replayed): [items, ok, n, late, gu]; items: <<"e", ev>> | <<"s", set of codes to release>> |
\* <<"m", 0>> the end of a nested macro (a pause, no event)
RECURSIVE Expand(_, _, _, _)
RECURSIVE ExpandEvs(_, _, _, _, _)
Expand(p, mac, id, active) ==
  LET e == MacGet(mac, id)
      b == ExpandEvs(p, mac, e.evs, active, [items |-> <<>>, ok |-> TRUE, n |-> 1, late |-> e.late, gu |-> e.gu])
  IN IF e.rel = {} THEN b
     ELSE [b EXCEPT !.items = Append(@, <<"s", e.rel>>), !.n = @ + Cardinality(e.rel)]
ExpandEvs(p, mac, evs, active, acc) ==
  IF evs = <<>> \/ ~acc.ok THEN acc
  ELSE LET ev == Head(evs)
           ctl == CtlOf(p, ev.c)
           a1 == [acc EXCEPT !.items = Append(@, <<"e", ev>>), !.n = @ + 1]
       IN IF ev.p /\ ctl # <<>> /\ ctl[1].k = "play"
          THEN IF ctl[1].n \in active \/ ~MacHas(mac, ctl[1].n)
               THEN ExpandEvs(p, mac, Tail(evs), active, a1)          \* never into itself / nothing stored
               ELSE LET x == Expand(p, mac, ctl[1].n, active \cup {ctl[1].n}) IN
                    ExpandEvs(p, mac, Tail(evs), active,
                              [items |-> a1.items \o x.items \o <<<<"m", 0>>>>, ok |-> x.ok, n |-> a1.n + x.n,
                               late |-> a1.late \/ x.late, gu |-> a1.gu \/ x.gu])
          ELSE IF ev.p /\ ctl # <<>>        \* a record / stop key inside a macro: not determined here
          THEN [a1 EXCEPT !.ok = FALSE]
          ELSE ExpandEvs(p, mac, Tail(evs), active, a1)

KeysNow(ref) == Ref!KeysOf(ref.held)
OutItems(evs, O) == [i \in 1..Len(evs) |-> <<"o", evs[i], O>>]
RECURSIVE RelAll(_, _)
RelAll(ref, S) == IF S = {} THEN ref
                  ELSE LET c == CHOOSE x \in S : TRUE IN
                       RelAll(Ref!ProcessEvent(ref, [p |-> FALSE, c |-> c]), S \ {c})

\* Pacing (stepper calls; Appendix A): the replay hands one event per call to kanata with recorded delays (the
\* recorded gap runs as extra ticks inside the call, so an event followed by a gap of 2 or more ticks shows its
\* output in the call that handed it over, otherwise in the next one), one event per 5 calls with constant delays.
EvCost(p) == 1
EvLag(p, ev) == IF p.recorded /\ ev.g >= 2 THEN 0 ELSE 1

\* the OS output of typing `items` from reference state `ref`: [ref, out, ok]; out items <<"o", event, O>> (O = the
\* call offset at which it is due, -1 = not timed) | <<"s", set of release events>>.  F = offset of the next hand-over.
RECURSIVE Typing(_, _, _, _, _)
Typing(p, ref, items, F, timed) ==
  IF items = <<>> THEN [ref |-> ref, out |-> <<>>, ok |-> TRUE]
  ELSE LET it == Head(items) IN
    IF it[1] = "m"       \* the pause after a nested macro is not fixed: a new stretch begins
    THEN LET t == Typing(p, ref, Tail(items), 0, timed) IN [t EXCEPT !.out = <<<<"a">>>> \o @]
    ELSE IF it[1] = "s"
    THEN LET r1 == RelAll(ref, it[2])
             ups == {<<"u", k>> : k \in SeqToSet(KeysNow(ref)) \ SeqToSet(KeysNow(r1))}
             t == Typing(p, r1, Tail(items), F + Cardinality(it[2]) * EvCost(p), timed)
         IN [t EXCEPT !.out = (IF ups = {} THEN <<>> ELSE <<<<"s", ups>>>>) \o @]
    ELSE LET ev == it[2]
             th == ThOf(p, ev.c) IN
      IF th # <<>>
      THEN \* time-sensitive key: decided when it is pressed and released with nothing in between; the replay
           \* reproduces the typed gap exactly (recorded) / uses its own pace (constant): tap before T ticks, else hold
           IF ev.p /\ Len(items) >= 2 /\ items[2][1] = "e" /\ ~items[2][2].p /\ items[2][2].c = ev.c
           /\ p.recorded      \* (with the constant pace the outcome depends on the value of the pace)
           THEN LET g == OMax(1, ev.g)
                    k == IF g < th[1].T THEN th[1].tap ELSE th[1].hold
                    t == Typing(p, ref, Tail(Tail(items)), F + 2 * EvCost(p), timed)
                IN [t EXCEPT !.out = <<<<"o", <<"d", k>>, 0 - 1>>, <<"o", <<"u", k>>, 0 - 1>>>> \o @]
           ELSE [ref |-> ref, out |-> <<>>, ok |-> FALSE]
      ELSE LET r1 == Ref!ProcessEvent(ref, [p |-> ev.p, c |-> ev.c])
               \* compared by the effect on the OS key state (a key held through two coordinates goes up once)
               o == Eff(Ref!ExpectedOut(KeysNow(ref), KeysNow(r1)), SeqToSet(KeysNow(ref))).eff
               t == Typing(p, r1, Tail(items), F + EvCost(p), timed)
           IN [t EXCEPT !.out = OutItems(o, IF timed THEN F + EvLag(p, ev) ELSE 0 - 1) \o @]

\* a replay of macro n may start in kanata although the monitor does not follow it (soft zone): no calm
\* before its time budget has passed
PlayStart(m, n) ==
  IF ~MacHas(m.mac, n) THEN m
  ELSE LET x == Expand(m.p, m.mac, n, {n})
           b == IF x.ok THEN m.p.live * (x.n + 1) + 10 ELSE m.p.live * (6 * m.p.max + 20) + 10
       IN [m EXCEPT !.replaying = TRUE, !.repLate = @ \/ x.late, !.budget = OMin(@ + b, 4000)]

\* an input event arrives: what output it announces
PlayArrive(m, isPress, c) ==
  LET p == m.p
      ctl == CtlOf(p, c)
      isPlay == isPress /\ ctl # <<>> /\ ctl[1].k = "play"
  IN IF m.mode = "lost" THEN (IF isPlay THEN PlayStart(m, ctl[1].n) ELSE m)
     ELSE IF ThOf(p, c) # <<>> THEN Lose(m)
     ELSE IF m.replaying
     \* (a typed event queued ahead of a replayed one delays it by a tick: the pacing of this replay is not judged)
     THEN IF ~isPress /\ ctl # <<>> THEN [m EXCEPT !.anch = 0 - 2]
          ELSE Lose(IF isPlay THEN PlayStart(m, ctl[1].n) ELSE m)
     ELSE LET one == Typing(p, m.ref, <<<<"e", [p |-> isPress, c |-> c, g |-> 0]>>>>, 0, FALSE)
              m1 == [m EXCEPT !.ref = one.ref, !.exp = @ \o one.out]
          IN IF ~isPlay THEN m1
             ELSE IF m1.rec # <<>> /\ m1.rec[1].id = ctl[1].n THEN Lose(PlayStart(m1, ctl[1].n))       \* statement silent
             ELSE IF ~MacHas(m1.mac, ctl[1].n) THEN m1
             ELSE LET x == Expand(p, m1.mac, ctl[1].n, {ctl[1].n})
                      t == Typing(p, m1.ref, x.items, 0, p.recorded /\ ~x.late /\ ~x.gu)
                  IN IF ~x.ok \/ ~t.ok THEN Lose(PlayStart(m1, ctl[1].n))
                     ELSE [m1 EXCEPT !.ref = t.ref, !.exp = @ \o t.out, !.replaying = TRUE, !.repLate = x.late,
                                     !.anch = 0 - 1, !.rclk = 0,
                                     !.budget = p.live * (x.n + 1) + 10]

\* r: input record [e, c, out]
MonIn(m, r) ==
  IF m.err # "" THEN m
  ELSE IF r.e \notin {"d", "u"} THEN Fail(m, "C19: input kind outside the fragment")
  ELSE IF r.out # <<>> THEN Fail(m, "C19: output on an input event")
  ELSE
    LET isPress == r.e = "d"
        ctl == CtlOf(m.p, r.c)
        isCtlPress == isPress /\ ctl # <<>>
        \* input while a control key press is still waiting to be processed
        m0 == IF m.ctlp > 0 THEN MarkLate(m) ELSE m
        m1 == RecArrive(IF isCtlPress THEN [m0 EXCEPT !.lastSaved = 0 - 1] ELSE m0, isPress, r.c)
        m3 == PlayArrive(m1, isPress, r.c)
        \* when will this control key press have been processed?  One queued event per tick (a replayed
        \* event may be queued ahead); with time-sensitive keys only known when kanata was idle
        wait == IF m.lastIdle THEN 1
                ELSE UndOf(m) + OMax(m.pend, m.behind) + 1 + (IF m.replaying \/ m.mode = "lost" THEN 1 ELSE 0)
        th == ThOf(m.p, r.c)
    IN [m3 EXCEPT !.behind = IF th # <<>> THEN 1 ELSE IF UndOf(m) > 0 THEN OMin(@ + 1, 40) ELSE 0,
                  \* a tap is released rapid-event-delay ticks after its press; a hold starts at T
                  !.stall = IF th = <<>> THEN @ ELSE th[1].T + m.p.red + 3,
                  !.phys = IF isPress THEN @ \cup {r.c} ELSE @ \ {r.c},
                  !.pend = OMin(@ + 1, 40),
                  !.ctlp = IF isCtlPress THEN OMax(wait, m.ctlp) ELSE m.ctlp,
                  !.lastIdle = FALSE]

\* [exp, ok, anch, tok, ra]: tok = FALSE when a timed output is not on its call; ra = a stretch was anchored now
RECURSIVE Match(_, _, _, _, _)
Match(exp, obs, anch, clk, ra) ==
  IF exp # <<>> /\ Head(exp)[1] = "a"
  THEN Match(Tail(exp), obs, IF anch = 0 - 2 THEN anch ELSE 0 - 1, 0, ra)
  ELSE IF obs = <<>> THEN [exp |-> exp, ok |-> TRUE, anch |-> anch, tok |-> TRUE, ra |-> ra]
  ELSE IF exp = <<>> THEN [exp |-> exp, ok |-> FALSE, anch |-> anch, tok |-> TRUE, ra |-> ra]
  ELSE LET h == Head(exp)
           e == Head(obs) IN
       IF h[1] = "o"
       THEN IF h[2] # e THEN [exp |-> exp, ok |-> FALSE, anch |-> anch, tok |-> TRUE, ra |-> ra]
            ELSE IF h[3] < 0 \/ anch = 0 - 2 THEN Match(Tail(exp), Tail(obs), anch, clk, ra)
            ELSE IF anch = 0 - 1 THEN Match(Tail(exp), Tail(obs), h[3], 0, TRUE)
            ELSE IF clk = h[3] - anch THEN Match(Tail(exp), Tail(obs), anch, clk, ra)
            ELSE [exp |-> exp, ok |-> TRUE, anch |-> anch, tok |-> FALSE, ra |-> ra]
       ELSE IF e \in h[2]
            THEN Match((IF h[2] = {e} THEN <<>> ELSE <<<<"s", h[2] \ {e}>>>>) \o Tail(exp), Tail(obs), anch, clk, ra)
            ELSE [exp |-> exp, ok |-> FALSE, anch |-> anch, tok |-> TRUE, ra |-> ra]

MonTick(m, out, idle, cb) ==
  IF m.err # "" THEN m
  ELSE
    LET o == Eff(out, m.down)
        \* (an idle report settles both bounds)
        stall == IF idle THEN 0 ELSE IF m.stall > 0 THEN m.stall - 1 ELSE 0
        pend == IF m.pend > 0 THEN m.pend - 1 ELSE 0
        ctlp == IF idle THEN 0 ELSE IF m.ctlp > 0 THEN m.ctlp - 1 ELSE 0
        \* an idle report settles whether kanata records: it does not
        lateSeen == m.lateSeen /\ ~idle
        rec0 == IF idle /\ m.lateSeen THEN <<>> ELSE m.rec
        \* calm: idle, or what stands for it while a recording is switched on
        recOn == rec0 # <<>> /\ ~lateSeen
        \* the time budget of a replay the monitor does not follow is only needed while recording (otherwise idle tells)
        budget == IF m.replaying /\ m.budget > 0 /\ (m.mode = "sync" \/ recOn) THEN m.budget - 1 ELSE m.budget
        \* the expected replay is over: kanata idle, or (recording) its full time budget has passed
        repDone == ~m.replaying \/ idle \/ (recOn /\ m.budget = 0)
        calm == idle \/ (recOn /\ pend = 0 /\ stall = 0 /\ ctlp = 0 /\ repDone)
        m1 == [RecTick([m EXCEPT !.rec = rec0]) EXCEPT !.down = o.down, !.pend = pend, !.stall = stall,
                                 !.behind = IF stall > m.p.red + 1 THEN @ ELSE 0,
                                 !.ctlp = ctlp, !.lateSeen = lateSeen, !.lastIdle = calm,
                                 !.replaying = ~repDone, !.budget = IF ~repDone THEN budget ELSE 0,
                                 !.repLate = @ /\ ~repDone]
        tag == IF (m.replaying /\ m.repLate) \/ m.lateSeen THEN "C19 [late control key]: " ELSE "C19: "
        quiet == m.phys = {} /\ calm /\ pend = 0
    IN IF m.mode = "lost"
       THEN IF ~quiet THEN m1
            ELSE IF o.down # {} THEN Fail(m1, tag \o "a key is left down (kanata idle, no physical key held)")
            ELSE [m1 EXCEPT !.mode = "sync", !.exp = <<>>, !.replaying = FALSE, !.repLate = FALSE, !.budget = 0,
                            !.ref = Ref!MonInit(m.p.c04)]
       ELSE LET clk == IF m.anch >= 0 THEN OMin(m.rclk + 1, 500) ELSE 0
                x == Match(m.exp, o.eff, m.anch, clk, FALSE) IN
            IF ~x.tok
            THEN Fail(m1, tag \o "replay pacing differs from the recorded gaps")
            ELSE IF ~x.ok
            THEN Fail(m1, IF m.replaying THEN tag \o "replay output differs from typing the recorded events again"
                          ELSE tag \o "output differs from the reference for typed keys")
            ELSE IF calm /\ pend = 0 /\ x.exp # <<>>
            THEN Fail(m1, IF m.replaying THEN tag \o "replay ended with expected output missing (events dropped or keys not released)"
                          ELSE tag \o "expected output missing")
            ELSE IF quiet /\ o.down # {}
            THEN Fail(m1, tag \o "a key is left down (kanata idle, no physical key held)")
            ELSE IF ~repDone /\ m.budget = 0
            THEN Fail(m1, tag \o "replay does not end")
            \* a replay that involved a late macro has ended: resynchronise at the next quiescent point
            ELSE IF m.replaying /\ repDone /\ m.repLate THEN Lose([m1 EXCEPT !.replaying = FALSE, !.repLate = FALSE, !.budget = 0])
            ELSE [m1 EXCEPT !.exp = x.exp,
                            !.anch = IF repDone THEN 0 - 1 ELSE x.anch,
                            !.rclk = IF repDone \/ x.anch < 0 \/ x.ra THEN 0 ELSE clk]

\* n silent ticks
RECURSIVE MonSilent(_, _, _, _)
MonSilent(m, n, idle, cb) ==
  IF n = 0 \/ m.err # "" THEN m
  ELSE LET m1 == MonTick(m, <<>>, idle, cb) IN
       IF m1 = m THEN m ELSE MonSilent(m1, n - 1, idle, cb)
=============================================================================
