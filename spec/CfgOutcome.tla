----------------------------- MODULE CfgOutcome -----------------------------
(* C03: the outcome relation of "configuration parsing is total".
   A probe record r describes what loading one text (plus its includable files) did:
     r.o   "ok" | "err" | "panic" | "timeout" | "crash"   (crash = worker killed: stack overflow, abort)
     r.sp  <<>> when the diagnostic carries no location, else <<start, end>> (byte offsets)
     r.n   length in bytes of the content of the file the diagnostic names (after the BOM is
           stripped, as the reader does), -1 when it names a file that is neither the main text
           nor one of the includable files
     r.ib  the diagnostic library itself could slice the named source at the location
     r.rd  the diagnostic was rendered for the user without crashing (always TRUE for "err": a
           crash while rendering is reported as o = "panic") *)
EXTENDS Naturals, Sequences

Allowed(r) ==
  \/ r.o = "ok"
  \/ /\ r.o = "err"
     /\ \/ r.sp = <<>>
        \/ /\ r.n >= 0                                     \* file \in {main} \cup includes
           /\ 0 <= r.sp[1] /\ r.sp[1] <= r.sp[2] /\ r.sp[2] <= r.n
           /\ r.ib
=============================================================================
