------------------------------- MODULE ActionTerms -------------------------------
(***************************************************************************)
(* C10: fork / switch whose branches are composite actions, in particular  *)
(* actions that a post-parse pass of the parser rebuilds (the resolution   *)
(* of the v1 `(chord <group> <key>)` placeholders, parser/src/cfg/mod.rs   *)
(* resolve_chord_groups / fill_chords, walks through fork, switch, multi,  *)
(* tap-hold, tap-dance, one-shot and reconstructs every action that        *)
(* contains a placeholder).                                                *)
(*                                                                         *)
(* Text-level action terms (what is written in the configuration):         *)
(*   [f |-> "key", kc]                            a key                    *)
(*   [f |-> "chord", g, out, two]   (chord g<g> p): the only / first key   *)
(*        of chord group g<g>, whose chord (p) is the key `out`; if `two`  *)
(*        the group has a second key q bound on another physical key       *)
(*   [f |-> "multi", a, b]          (multi a b)                            *)
(*   [f |-> "taphold", a, b]        (tap-hold-press HT HT a b) a=tap b=hold*)
(*   [f |-> "tapdance", a, b]       (tap-dance TD (a b))                    *)
(*   [f |-> "fork", a, b, trig]     (fork a b (trig...))  a = left          *)
(*   [f |-> "switch", cases]        cases : Seq([cond, a, brk]), cond a     *)
(*                                  condition of Switch.tla                *)
(*                                                                         *)
(*   Final(t, lay)    the action tree the parser must hand to the run time *)
(*                    (L2: the term as written, every placeholder replaced *)
(*                    by its complete chord group, nothing else changed)   *)
(*   HeldOut(t, env)  the documented behaviour of the term when its key is *)
(*                    pressed in state env and held with nothing else      *)
(*                    happening: the output keys pressed, in order         *)
(***************************************************************************)
EXTENDS Switch

HT == 10              \* tap-hold timeouts used by the generated configurations
TD == 10              \* tap-dance timeout
GroupTimeout(g) == 10 + g

KeyT(kc) == [t |-> "key", kc |-> kc]

\* ----- Final: the tree after parsing ------------------------------------------------------------
\* lay: [sk |-> code of the physical key that carries the term, ck |-> code of the physical key that
\*       carries the second key of a two-key group, q1, q2 |-> outputs of the chords (q) and (p q)]
\* coords of a group are listed in ascending (row, column) order (the harness sorts them too)
GroupCoords(t, lay) ==
  IF ~t.two THEN <<[x |-> 0, y |-> lay.sk, m |-> <<0>>]>>
  ELSE IF lay.sk < lay.ck THEN <<[x |-> 0, y |-> lay.sk, m |-> <<0>>], [x |-> 0, y |-> lay.ck, m |-> <<1>>]>>
  ELSE <<[x |-> 0, y |-> lay.ck, m |-> <<1>>], [x |-> 0, y |-> lay.sk, m |-> <<0>>]>>
GroupChords(t, lay) ==
  <<[m |-> <<0>>, ac |-> KeyT(t.out)]>> \o
  (IF t.two THEN <<[m |-> <<1>>, ac |-> KeyT(lay.q1)], [m |-> <<0, 1>>, ac |-> KeyT(lay.q2)]>> ELSE <<>>)

RECURSIVE Final(_, _), FinalMembers(_, _)
FinalMembers(t, lay) == IF t.f = "multi" THEN FinalMembers(t.a, lay) \o FinalMembers(t.b, lay) ELSE <<Final(t, lay)>>
Final(t, lay) ==
  CASE t.f = "key" -> KeyT(t.kc)
    [] t.f = "chord" -> [t |-> "chords", timeout |-> GroupTimeout(t.g), coords |-> GroupCoords(t, lay),
                         chords |-> GroupChords(t, lay)]
    [] t.f = "multi" -> [t |-> "multi", acs |-> FinalMembers(t, lay)]    \* (a multi inside a multi is flattened)
    [] t.f = "taphold" -> [t |-> "holdtap", timeout |-> HT, thi |-> HT, cfg |-> "press",
                           tap |-> Final(t.a, lay), hold |-> Final(t.b, lay),
                           toa |-> Final(t.b, lay)]     \* the timeout action: the hold action unless given explicitly
    [] t.f = "tapdance" -> [t |-> "tapdance", timeout |-> TD, eager |-> FALSE,
                            acs |-> <<Final(t.a, lay), Final(t.b, lay)>>]
    [] t.f = "fork" -> [t |-> "fork", left |-> Final(t.a, lay), right |-> Final(t.b, lay), trig |-> t.trig]
    [] t.f = "switch" -> [t |-> "switch",
                          cases |-> [i \in DOMAIN t.cases |->
                                       [ops |-> Compile(t.cases[i].cond), ac |-> Final(t.cases[i].a, lay),
                                        brk |-> t.cases[i].brk]]]

\* ----- Admitted: the terms the configuration language admits -----------------------------------
\* "Cannot combine multiple tap-hold/tap-dance/chord": a multi (nested multis count as one) has at most
\* one member that waits for a decision
RECURSIVE MultiMembers(_)
MultiMembers(t) == IF t.f = "multi" THEN MultiMembers(t.a) \o MultiMembers(t.b) ELSE <<t>>
RECURSIVE Admitted(_)
Admitted(t) ==
  CASE t.f \in {"key", "chord"} -> TRUE
    [] t.f = "multi" -> /\ Admitted(t.a) /\ Admitted(t.b)
                        /\ LET ms == MultiMembers(t) IN
                           Cardinality({i \in DOMAIN ms : ms[i].f \in {"chord", "taphold", "tapdance"}}) <= 1
    [] t.f = "taphold" -> t.a.f # "taphold" /\ Admitted(t.a) /\ Admitted(t.b)  \* "tap-hold does not work in the tap-action of tap-hold"
    [] t.f \in {"tapdance", "fork"} -> Admitted(t.a) /\ Admitted(t.b)
    [] t.f = "switch" -> \A i \in DOMAIN t.cases : Admitted(t.cases[i].a)

\* ----- HeldOut: what the term does (documentation) ---------------------------------------------
\* the key is pressed in state env and held, nothing else happens (quiescent window).
\*   key         pressed at once
\*   chord       "chording mode": with no further chord key the single-key chord triggers (at the
\*               latest) when the group's timeout expires
\*   multi       all its actions
\*   tap-hold    held beyond the timeout: the hold action
\*   tap-dance   no further tap before the timeout: the first action
\*   fork        right iff one of the trigger keys is active, else left
\*   switch      the actions of all firing cases (DenoteCases)
\* NowOut: the keys pressed on the tick the action is performed; LaterOut: the keys pressed after a
\* timeout.  HeldOut is sharp (an order) only if at most one key comes later: OrderedOk.
TermActive(env, trig) == \E i \in DOMAIN trig : \E j \in DOMAIN env.keys : env.keys[j] = trig[i]
FiringCases(t, env) == FiringIdx(t.cases, env)
RECURSIVE NowOut(_, _), LaterOut(_, _), CatNow(_, _, _), CatLater(_, _, _)
NowOut(t, env) ==
  CASE t.f = "key" -> <<t.kc>>
    [] t.f = "chord" -> <<>>
    [] t.f = "multi" -> NowOut(t.a, env) \o NowOut(t.b, env)
    [] t.f \in {"taphold", "tapdance"} -> <<>>
    [] t.f = "fork" -> NowOut(IF TermActive(env, t.trig) THEN t.b ELSE t.a, env)
    [] t.f = "switch" -> CatNow(t, FiringCases(t, env), env)
LaterOut(t, env) ==
  CASE t.f = "key" -> <<>>
    [] t.f = "chord" -> <<t.out>>
    [] t.f = "multi" -> LaterOut(t.a, env) \o LaterOut(t.b, env)
    [] t.f = "taphold" -> NowOut(t.b, env) \o LaterOut(t.b, env)
    [] t.f = "tapdance" -> NowOut(t.a, env) \o LaterOut(t.a, env)
    [] t.f = "fork" -> LaterOut(IF TermActive(env, t.trig) THEN t.b ELSE t.a, env)
    [] t.f = "switch" -> CatLater(t, FiringCases(t, env), env)
CatNow(t, idx, env) == IF idx = <<>> THEN <<>> ELSE NowOut(t.cases[Head(idx)].a, env) \o CatNow(t, Tail(idx), env)
CatLater(t, idx, env) == IF idx = <<>> THEN <<>> ELSE LaterOut(t.cases[Head(idx)].a, env) \o CatLater(t, Tail(idx), env)
HeldOut(t, env) == NowOut(t, env) \o LaterOut(t, env)
OrderedOk(t, env) == Len(LaterOut(t, env)) <= 1

\* all output codes a term can press
RECURSIVE TermOuts(_)
TermOuts(t) ==
  CASE t.f = "key" -> {t.kc}
    [] t.f = "chord" -> {t.out}
    [] t.f \in {"multi", "taphold", "tapdance", "fork"} -> TermOuts(t.a) \cup TermOuts(t.b)
    [] t.f = "switch" -> UNION {TermOuts(t.cases[i].a) : i \in DOMAIN t.cases}
\* a chord placeholder somewhere in the term
RECURSIVE HasChord(_)
HasChord(t) ==
  CASE t.f = "key" -> FALSE
    [] t.f = "chord" -> TRUE
    [] t.f \in {"multi", "taphold", "tapdance", "fork"} -> HasChord(t.a) \/ HasChord(t.b)
    [] t.f = "switch" -> \E i \in DOMAIN t.cases : HasChord(t.cases[i].a)
\* A switch that is followed by further actions of the same key press -- inside the action of a
\* `fallthrough` case, or as an earlier member of a multi: the inner switch's actions are performed after
\* those further actions (they are queued behind them).  The statement fixes no order between the two, so
\* HeldOut is not sharp for such terms.
RECURSIVE HasSwitch(_)
HasSwitch(t) ==
  CASE t.f \in {"key", "chord"} -> FALSE
    [] t.f = "switch" -> TRUE
    [] t.f \in {"multi", "taphold", "tapdance", "fork"} -> HasSwitch(t.a) \/ HasSwitch(t.b)
RECURSIVE SwitchBeforeOthers(_)
SwitchBeforeOthers(t) ==
  CASE t.f \in {"key", "chord"} -> FALSE
    [] t.f = "switch" -> \E i \in DOMAIN t.cases : \/ (~t.cases[i].brk /\ HasSwitch(t.cases[i].a))
                                                    \/ SwitchBeforeOthers(t.cases[i].a)
    [] t.f = "multi" -> HasSwitch(t.a) \/ SwitchBeforeOthers(t.b)
    [] t.f \in {"taphold", "tapdance", "fork"} -> SwitchBeforeOthers(t.a) \/ SwitchBeforeOthers(t.b)
=============================================================================
