------------------------------- MODULE CfgCaps -------------------------------
(* C03: capacity boundaries of the configuration language.

   Every capacity the guide documents or the loader announces in a diagnostic ("You can define up to
   767 virtual keys", "the maximum keys allowed in a given O-(...) list is 6", "maximum key match size
   of 4095 items", "maximum key match expression depth 8", "Maximum number of keys in a chords group
   (128)", "Maximum number of layers (60000)", key-recency 1-8, distances 1-30000, ...) is a place
   where "a configuration or a diagnostic" has to hold on BOTH sides of the bound: at the bound the
   text is a configuration, beyond it a diagnostic - a crash of a later stage that trusted the bound
   is neither.  For every capacity with limit L this module enumerates the quantities
   Around(L) = {L-1, L, L+1, L+2} (and the lower bound where there is one) in every shape in which
   the quantity can be reached; the requirement is CfgOutcome!Allowed for every text.

   A case is [c, t, n, a, b, ops]:
     c    the capacity
     t    the boundary quantity (what the limit counts: opcodes, keys, layers, a numeric argument..)
     n    the number of filler items the tools have to write so that the quantity is t
     a,b  the shape (meaning per capacity, below);  ops  the nesting of boolean operators (switch)
   The tools only print the text for a case.

   switch-opcodes (L = 4095).  A switch key match is compiled to a flat opcode list: a key name is 1
     opcode, (key-history ..) and (key-timing ..) are 1, (input ..), (input-history ..), (layer ..) and
     (base-layer ..) are 2, every or/and/not list is 1 + its items and records the index at which it
     ENDS.  t = the total number of opcodes when the last list closes; ops = the operators of the
     nested lists that all close at the end (outermost first, <<>> = the plain top-level list);
     a = the last item (so the bound is also crossed by a 2-opcode item entered at L-1 and at L);
     b = "inner": the n filler keys stand inside the innermost list, "outer": in the top-level list
     in front of the nested lists (which then hold only the last item).
   switch-depth (L = 8): t nested boolean lists around one key; a = the operator pattern.
   key-recency (1..8): t = the recency argument of a = key-history | input-history | key-timing.
   chord-keys (L = 128): t distinct keys in one defchords group, every one used by a key of the layer;
     a = "one-chord" (a single chord of t keys), "singles" (t chords of one key), "two-chords" (the keys
     split over two chords).
   chord-groups (L = 65536, heavy): t defchords groups.
   virtual-keys (L = 767): t virtual keys; a = the form(s) declaring them.
   layers (L = 60000, heavy): t deflayer forms.
   seq-overlap (2..6): an O-(..) list of t keys in a defseq; a = what else the sequence holds.
   localkey-code (L = 767, and the 16-bit edge): deflocalkeys code t; a = used in defsrc or not.
   defsrc-keys (L = K, the number of key codes that have a name; the tools ask the loader which codes
     deflocalkeys accepts): a = all of them but one | all | all and one of them again | .. two again.
   distance (1..30000): t = the distance argument of action a.
   hwid (L = 1024): t numbers in a hardware id of defcfg option a (Windows options: a Linux build
     must at least read over them).
   width (L = 255, 4095 and, heavy, 65535): constructs without an announced bound - t items in a
     macro, tap-dance, multi, concat, defseq key list, t aliases, variables, layers: the widths of the
     counters a loader typically uses. *)
EXTENDS Naturals, Sequences, TLC, Json
CONSTANT Heavy        \* TRUE: also the capacities whose boundary texts are very large (thorough tier)

Around(L) == {L - 1, L, L + 1, L + 2}
Case(c, t, n, a, b, ops) == [c |-> c, t |-> t, n |-> n, a |-> a, b |-> b, ops |-> ops]
Plain(c, ts, as) == {Case(c, t, t, a, "", <<>>) : t \in ts, a \in as}

BoolOps == {"or", "and", "not"}
Nests == {<<>>} \cup {<<o>> : o \in BoolOps} \cup {<<o, p>> : o \in BoolOps, p \in BoolOps}
         \cup {<<"or", "and", "not">>, <<"not", "not", "not">>}
\* <<item, number of opcodes>>
LastItems == {<<"key", 1>>, <<"key-history", 1>>, <<"key-timing", 1>>, <<"input", 2>>, <<"input-virtual", 2>>,
              <<"input-history", 2>>, <<"layer", 2>>, <<"base-layer", 2>>}
SwitchOpcodes ==
  {Case("switch-opcodes", t, t - Len(ops) - it[2], it[1], pl, ops) :
     t \in Around(4095), ops \in Nests, it \in LastItems, pl \in {"inner", "outer"}}
SwitchCases == {c \in SwitchOpcodes : c.b = "outer" => c.ops # <<>>}

Widths == {255, 4095} \cup (IF Heavy THEN {65535} ELSE {})
WidthCases ==
  {Case("width", t, t, a, "", <<>>) :
     t \in UNION {Around(L) : L \in Widths},
     a \in {"macro", "tap-dance", "tap-dance-eager", "multi", "concat", "defseq-keys", "defalias", "defvar", "deflayer"}}

Cases ==
  SwitchCases
  \cup Plain("switch-depth", Around(8), {"or", "and", "not", "mixed"})
  \cup Plain("key-recency", {0, 1, 2} \cup Around(8), {"key-history", "input-history", "key-timing"})
  \cup Plain("chord-keys", Around(128), {"one-chord", "singles", "two-chords"})
  \cup Plain("virtual-keys", Around(767), {"deffakekeys", "defvirtualkeys", "both", "two-blocks"})
  \cup Plain("seq-overlap", {1, 2, 3} \cup Around(6), {"alone", "key-before", "key-after", "two-groups"})
  \cup Plain("localkey-code", Around(767) \cup Around(65535), {"in-defsrc", "unused"})
  \cup Plain("defsrc-keys", {0}, {"all-but-one", "all", "all-plus-one-again", "all-plus-two-again"})
  \cup Plain("distance", {0, 1, 2} \cup Around(30000), {"mwheel-up", "movemouse-up", "movemouse-accel-min", "movemouse-accel-max"})
  \cup Plain("hwid", Around(1024), {"windows-interception-mouse-hwid", "windows-interception-mouse-hwids"})
  \cup {c \in WidthCases : c.a = "deflayer" => c.t < 5000}
  \cup (IF Heavy THEN Plain("chord-groups", Around(65536), {"defchords"})
                      \cup Plain("layers", Around(60000), {"deflayer"})
        ELSE {})

VARIABLE cs
Init == cs \in Cases
Next == UNCHANGED cs
Emit == PrintT(<<"CAP", ToJson(cs)>>)
=============================================================================
