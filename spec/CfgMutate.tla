----------------------------- MODULE CfgMutate -----------------------------
(* C03: TLC as the enumerator of the structure-aware mutations of the property.

   The seed corpus (shipped samples, configs embedded in the docs and in the tests) is read by the
   REAL reader (kverif sexpr-tree) and handed over as JSON, one seed per line of the file named by
   the environment variable SEEDS:  {"id": .., "top": [node..]},
       node = {"a": atom id (a number, resolved by the tools), "k": "num"|"var"|"alias"|"str"|"name"}
            | {"l": [node..]}.
   For every seed TLC enumerates ALL single mutations at ALL sites, and pairs of mutations of the
   kinds in DoubleKinds at sites in two different top-level forms when MaxMut = 2.  A mutation is a
   list of patches [p |-> path, d |-> n, ins |-> nodes]: "in the list reached by path p (child
   indices from the list of top-level forms), replace the d children starting at the last index of
   p by ins".  Which sites, which kinds, which replacement values, which donors, which arities -
   everything about a mutation - is decided here; the tools only perform the list replacement and
   print the tree as text.  New atoms introduced by a mutation carry their text ("a" is a string).

   The requirement on the code under test is CfgOutcome!Allowed for the probe result of every
   text produced here (evaluated by TLC in CfgJudge). *)
EXTENDS CfgOutcome, FiniteSets, TLC, Json, IOUtils
CONSTANTS MaxMut,        \* 1: single mutations; 2: also pairs
          NDonors,       \* number of donor sub-expressions per seed for "splice"
          DoubleKinds,   \* kinds that may be combined into a double mutation
          Kinds,         \* the mutation kinds enabled in this run
          HangSites      \* the self-referential template (every such text may cost a full watchdog
                         \* period on the code under test) is tried at the first HangSites atoms of a seed only

Seeds == ndJsonDeserialize(IOEnv.SEEDS)
VARIABLES sd, ms         \* seed index, mutations applied so far

IsAtom(n) == "a" \in DOMAIN n
A(t) == [a |-> t, k |-> "name"]
L(c) == [l |-> c]
LastOf(s) == s[Len(s)]

\* every node with its path and its right sibling, in pre-order
RECURSIVE SitesFrom(_, _, _)
SitesFrom(c, pre, i) ==
  IF i > Len(c) THEN <<>>
  ELSE LET p == Append(pre, i) IN
       << [p |-> p, n |-> c[i], nx |-> IF i < Len(c) THEN <<c[i + 1]>> ELSE <<>>] >>
       \o (IF IsAtom(c[i]) THEN <<>> ELSE SitesFrom(c[i].l, p, 1))
       \o SitesFrom(c, pre, i + 1)
Sites(seed) == SitesFrom(seed.top, <<>>, 1)

Patch(p, d, ins) == [p |-> p, d |-> d, ins |-> ins]
M1(k, s, d, ins) == [k |-> k, ps |-> << Patch(s.p, d, ins) >>]
\* a replacement that needs a definition elsewhere: the form is put in front of the configuration
M2(k, s, node, form) == [k |-> k, ps |-> << Patch(s.p, 1, <<node>>), Patch(<<1>>, 0, <<form>>) >>]

Boundary == {"0", "1", "65535", "65536", "-1", "256", "18446744073709551616"}

\* name -> unknown name / variable / alias
Unknown == {"kvundef", "$kvundef", "@kvundef"}
\* name -> a reference whose definition refers to itself (directly, mutually, inside a list,
\* through an alias, through a template, through concat)
SelfRef == {
  <<A("$kvself"), L(<<A("defvar"), A("kvself"), A("$kvself")>>)>>,
  <<A("$kva"), L(<<A("defvar"), A("kva"), A("$kvb"), A("kvb"), A("$kva")>>)>>,
  <<A("$kvl"), L(<<A("defvar"), A("kvl"), L(<<A("$kvl")>>)>>)>>,
  <<A("$kvc"), L(<<A("defvar"), A("kvc"), L(<<A("concat"), A("a"), A("$kvc")>>)>>)>>,
  <<A("@kvs"), L(<<A("defalias"), A("kvs"), A("@kvs")>>)>>,
  <<L(<<A("t!"), A("kvt")>>), L(<<A("deftemplate"), A("kvt"), L(<<>>), L(<<A("t!"), A("kvt")>>)>>)>>
}
\* a template whose expansion is a call of itself
SelfRefTemplate ==
  <<L(<<A("t!"), A("kvu"), A("t!")>>), L(<<A("deftemplate"), A("kvu"), L(<<A("x")>>), L(<<A("$x"), A("kvu"), A("$x")>>)>>)>>

Arities(n) == {k \in {0, 1, 2, 3, n - 1} : k >= 0 /\ k < n}

MutsAt(s, donors, idx) ==
  LET x == s.n IN
  {M1("delete", s, 1, <<>>), M1("duplicate", s, 1, <<x, x>>), M1("wrap", s, 1, <<L(<<x>>)>>)}
  \cup (IF s.nx # <<>> THEN {M1("swap", s, 2, <<s.nx[1], x>>)} ELSE {})
  \cup {M1("splice", s, 1, <<d>>) : d \in donors \ {x}}
  \cup (IF IsAtom(x)
        THEN {M1("atom-to-empty-list", s, 1, <<L(<<>>)>>)}
             \cup (IF x.k = "num" THEN {M1("number-boundary", s, 1, <<A(v)>>) : v \in Boundary} ELSE {})
             \cup (IF Len(s.p) > 1
                   THEN {M1("name-unknown", s, 1, <<A(v)>>) : v \in Unknown}
                        \cup {M2("name-self-referential", s, r[1], r[2]) : r \in SelfRef}
                        \cup (IF idx <= HangSites
                              THEN {M2("name-self-referential", s, SelfRefTemplate[1], SelfRefTemplate[2])}
                              ELSE {})
                   ELSE {})
        ELSE LET n == Len(x.l) IN
             {M1("unwrap", s, 1, x.l)}
             \cup {M1("arity", s, 1, <<L(SubSeq(x.l, 1, k))>>) : k \in Arities(n)}
             \cup (IF n > 0 THEN {M1("arity", s, 1, <<L(Append(x.l, LastOf(x.l)))>>)} ELSE {}))

Donors(all) ==
  LET N == Len(all) IN
  IF N = 0 THEN {} ELSE {all[1 + ((j * N) \div NDonors)].n : j \in 0..(NDonors - 1)}

Muts(seed) ==
  LET all == Sites(seed)
      donors == Donors(all) IN
  {m \in UNION {MutsAt(all[i], donors, i) : i \in 1..Len(all)} : m.k \in Kinds}

\* a second mutation: single-patch kinds only, in a later top-level form than the first
Compatible(m1, m2) ==
  /\ m1.k \in DoubleKinds /\ m2.k \in DoubleKinds
  /\ m1.ps[1].p[1] < m2.ps[1].p[1]

Init == sd \in 1..Len(Seeds) /\ ms = <<>>
Next == /\ Len(ms) < MaxMut
        /\ \E mu \in Muts(Seeds[sd]) :
             /\ ms # <<>> => Compatible(ms[1], mu)
             /\ ms' = Append(ms, mu)
        /\ UNCHANGED sd

RECURSIVE Patches(_)
Patches(m) == IF m = <<>> THEN <<>> ELSE Head(m).ps \o Patches(Tail(m))
\* one line per mutated configuration
Emit == PrintT(<<"MUT", ToJson([s |-> Seeds[sd].id, k |-> [i \in 1..Len(ms') |-> ms'[i].k], ps |-> Patches(ms')])>>)
=============================================================================
