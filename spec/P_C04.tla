---------------------------------- MODULE P_C04 ----------------------------------
(***************************************************************************)
(* L2 abstract reference model for C04: "the simple layered-keymap model". *)
(* Written from the property statement and docs/config.adoc (layers,        *)
(* transparent key, layer-while-held, layer-switch, release-key/layer,      *)
(* delegate-to-first-layer), not from layout.rs.                            *)
(*                                                                         *)
(* params p: [layers : Seq(Seq([c, a])), src : Seq([c, kc]),               *)
(*            trans_v2, delegate]                                           *)
(* actions: key kc | chord kcs | multi acs | xx | trans | src | lwh l |     *)
(*          lsw l | relkey kc | rellayer l                                   *)
(* state:  pending FIFO, held effects (activation order), base layer,       *)
(*         prev key list, set of keys the OS sees down                       *)
(***************************************************************************)
EXTENDS Obs

Eff_(k, v, c, clr) == [k |-> k, v |-> v, c |-> c, clr |-> clr]

\* ovf: the statement speaks about histories with fewer than 32 events pending; once a 33rd event arrives while 32 are
\* pending (the event queue wraps) nothing further is claimed for the rest of the history
MonInit(p) == [p |-> p, pending |-> <<>>, held |-> <<>>, base |-> 0, prev |-> <<>>,
               down |-> {}, ovf |-> FALSE, err |-> ""]

MapLookup(layer, c) ==     \* <<>> or <<action>>
  LET I == {i \in DOMAIN layer : layer[i].c = c} IN
  IF I = {} THEN <<>> ELSE <<layer[CHOOSE i \in I : TRUE].a>>
SrcKey(p, c) ==
  LET I == {i \in DOMAIN p.src : p.src[i].c = c} IN
  IF I = {} THEN <<>> ELSE <<p.src[CHOOSE i \in I : TRUE].kc>>

HeldLayers(held) ==   \* newest first
  LET ls == SelectSeq(held, LAMBDA e : e.k = "layer") IN
  [i \in 1..Len(ls) |-> ls[Len(ls) + 1 - i].v]
CurLayer(m) == LET hl == HeldLayers(m.held) IN IF hl = <<>> THEN m.base ELSE hl[1]

SearchOrder(m) ==
  LET cur == CurLayer(m) IN
  IF m.p.trans_v2
  THEN HeldLayers(m.held) \o <<m.base>>
       \o (IF m.p.delegate /\ cur # 0 /\ m.base # 0 THEN <<0>> ELSE <<>>)
  ELSE <<cur>> \o (IF m.p.delegate /\ cur # 0 THEN <<0>> ELSE <<>>)

\* first non-transparent mapping of c along `order`: [a, rest]; a = <<>> if none
RECURSIVE Find(_, _, _)
Find(p, c, order) ==
  IF order = <<>> THEN [a |-> <<>>, rest |-> <<>>]
  ELSE LET f == MapLookup(p.layers[Head(order) + 1], c) IN
       IF f = <<>> \/ f[1].t = "trans" THEN Find(p, c, Tail(order))
       ELSE [a |-> f, rest |-> Tail(order)]

ClearOnNext(held) == SelectSeq(held, LAMBDA e : ~e.clr)
AddKeys(held, kcs, c, clr) == held \o [i \in 1..Len(kcs) |-> Eff_("key", kcs[i], c, clr)]

\* perform an action: every performed action first drops the output-chord keys of the
\* previous action ("cleared on the next action")
RECURSIVE Perform(_, _, _, _)
RECURSIVE PerformAll(_, _, _, _)
Perform(m0, a, c, rest) ==
  LET m == [m0 EXCEPT !.held = ClearOnNext(@)] IN
  CASE a.t = "key" -> [m EXCEPT !.held = AddKeys(@, <<a.kc>>, c, FALSE)]
    [] a.t = "chord" -> [m EXCEPT !.held = AddKeys(@, a.kcs, c, TRUE)]
    [] a.t = "multi" -> PerformAll(m, a.acs, c, rest)
    [] a.t = "xx" -> m
    [] a.t = "trans" ->
         LET f == Find(m.p, c, rest) IN
         IF f.a # <<>> THEN Perform(m, f.a[1], c, f.rest)
         ELSE LET k == SrcKey(m.p, c) IN
              IF k = <<>> THEN m ELSE [m EXCEPT !.held = AddKeys(@, k, c, FALSE)]
    [] a.t = "src" ->
         LET k == SrcKey(m.p, c) IN
         IF k = <<>> THEN m ELSE [m EXCEPT !.held = AddKeys(@, k, c, FALSE)]
    [] a.t = "lwh" -> [m EXCEPT !.held = Append(@, Eff_("layer", a.l, c, FALSE))]
    [] a.t = "lsw" -> IF a.l < Len(m.p.layers) THEN [m EXCEPT !.base = a.l] ELSE m
    [] a.t = "relkey" -> [m EXCEPT !.held = SelectSeq(@, LAMBDA e : ~(e.k = "key" /\ e.v = a.kc))]
    [] a.t = "rellayer" -> [m EXCEPT !.held = SelectSeq(@, LAMBDA e : ~(e.k = "layer" /\ e.v = a.l))]
PerformAll(m, acs, c, rest) ==
  IF acs = <<>> THEN m ELSE PerformAll(Perform(m, Head(acs), c, rest), Tail(acs), c, rest)

ProcessEvent(m, ev) ==
  IF ev.p
  THEN Perform(m, [t |-> "trans"], ev.c, SearchOrder(m))
  ELSE [m EXCEPT !.held = SelectSeq(@, LAMBDA e : e.c # ev.c)]

\* r: input record [e, c, out]
MonIn(m, r) ==
  IF m.err # "" THEN m
  ELSE IF r.e \in {"d", "u"} THEN
    IF m.ovf \/ Len(m.pending) >= 32 THEN [m EXCEPT !.ovf = TRUE]
    ELSE [m EXCEPT !.pending = Append(@, [p |-> r.e = "d", c |-> r.c])]
  ELSE Fail(m, "C04: input kind outside the fragment")

KeysOf(held) == LET ks == SelectSeq(held, LAMBDA e : e.k = "key") IN [i \in 1..Len(ks) |-> ks[i].v]

RECURSIVE DedupRec(_, _)
DedupRec(s, seen) == IF s = <<>> THEN <<>>
                     ELSE IF Head(s) \in seen THEN DedupRec(Tail(s), seen)
                     ELSE <<Head(s)>> \o DedupRec(Tail(s), seen \cup {Head(s)})

ExpectedOut(prev, cur) ==
  LET rel == SelectSeq(prev, LAMBDA k : ~InSeq(cur, k))
      prs == DedupRec(SelectSeq(cur, LAMBDA k : ~InSeq(prev, k)), {})
  IN [i \in 1..Len(rel) |-> <<"u", rel[i]>>] \o [i \in 1..Len(prs) |-> <<"d", prs[i]>>]

MonTick(m, out, idle, cb) ==
  IF m.err # "" \/ m.ovf THEN m
  ELSE
    LET m1 == IF m.pending = <<>> THEN m
              ELSE ProcessEvent([m EXCEPT !.pending = Tail(@)], Head(m.pending))
        cur == KeysOf(m1.held)
        exp == Eff(ExpectedOut(m.prev, cur), m.down)
        obs == Eff(out, m.down)
    IN IF obs.eff # exp.eff
       THEN Fail(m1, "C04: output differs from the layered-keymap model")
       ELSE [m1 EXCEPT !.prev = cur, !.down = obs.down]

\* n silent ticks
RECURSIVE MonSilent(_, _, _, _)
MonSilent(m, n, idle, cb) ==
  IF n = 0 \/ m.err # "" \/ m.ovf THEN m
  ELSE IF m.pending = <<>> /\ m.prev = KeysOf(m.held)
  THEN m       \* nothing pending, nothing to emit: further silent ticks change nothing
  ELSE MonSilent(MonTick(m, <<>>, idle, cb), n - 1, idle, cb)
=============================================================================
