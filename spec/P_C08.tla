---------------------------------- MODULE P_C08 ----------------------------------
(***************************************************************************)
(* L2 specification for C08: macros play exactly their key list, in order, *)
(* and always end with keys released.  Written from the statement and      *)
(* docs/config.adoc ("macro", "Output chords", the macro variants).         *)
(*                                                                         *)
(* params p:                                                               *)
(*   macros : Seq([c, rep, rc, pc, body (, tg, pk, rk)])                     *)
(*            c = physical key (0: the macro sits on a virtual key operated *)
(*            by the physical keys tg = toggle-vkey, pk = press-vkey, rk =   *)
(*            release-vkey; "held" then means the virtual key is wanted      *)
(*            pressed); rep = repeat                                         *)
(*            variant; rc = release-cancel; pc = cancel-on-press; body =    *)
(*            Seq(item) as written in the configuration text:               *)
(*              [t |-> "k", k]            a key                             *)
(*              [t |-> "d", n]            a delay of n ms                   *)
(*              [t |-> "m", mods, items]  S-a, C-S-a, S-(a b ...)            *)
(*              [t |-> "l", items]        a nested list                     *)
(*              [t |-> "u", ch]           (unicode ch)                      *)
(*              [t |-> "b", btn]          a mouse button tap (mlft ...)      *)
(*              [t |-> "v", o, y]         tap of virtual key number y whose  *)
(*                                        action is the key o               *)
(*   cap    : documented number of macros that can be active together (4)   *)
(*   b1     : check rule B1                                                 *)
(*                                                                         *)
(* Part 1  MacroExpand(body): the presses / releases / delays a body spells *)
(*   out.  key => press, release; modifier prefix => the modifiers go down  *)
(*   (in the order written) before and up after what they prefix (the docs  *)
(*   give no order among several modifiers going up: a release group);      *)
(*   lists are flattened; a number n is a delay.                            *)
(*   EvsMatch: the parser's SequenceEvent list against MacroExpand          *)
(*   (compile check).                                                       *)
(* Part 2  monitor over the observable alphabet, one record per activation. *)
(*  Sharp zone = activations none of whose keys is used by another          *)
(*  activation running at the same time (a cancelled one in its two clean-  *)
(*  up ticks excepted); everything else is summarised (dused) and only the   *)
(*  rules                                                                    *)
(*  under "Everywhere" apply to it.  A macro started as the 5th or later     *)
(*  since the last idle point may meet a full set of active macros: by the   *)
(*  documented capacity it may not play at all; if it plays, then exactly.   *)
(*  The macros started before it stay exact.                                 *)
(*   S1 the OS events on the macro's keys are exactly the next step          *)
(*   O1 (S1 where a key step overtakes a pending unicode / button item)      *)
(*   S2 no two steps of one activation in the same tick                      *)
(*   D1 a delay n => at least n ticks between the neighbouring steps         *)
(*   S3 every step is played (kanata does not go idle before)                *)
(*   C1 after a cancellation took effect no further key step is played       *)
(*   C2 ... and every key the activation holds is up one tick later          *)
(*   C3 a key press while the only cancel-on-press macro started since the   *)
(*      last idle point is in progress (first round) cancels; a press when   *)
(*      no cancel-on-press macro runs and none can still be in its (first)   *)
(*      pass leaves the running macros alone (they stay under S1..S3)        *)
(*   R1 kanata is not idle while a repeating macro's key is held             *)
(*   R2 a new round starts only if the key was still held when the round     *)
(*      before ended                                                        *)
(*   H1 a key of the macro that is also the output of a plain key (shared)   *)
(*      is down at the OS at every step at which the macro holds it          *)
(*  Everywhere:                                                             *)
(*   S0 no event on a macro's key while no macro using it runs               *)
(*   E1 when kanata is idle (two ticks, no input) no macro key / button is   *)
(*      down;  E2 a mouse button a macro pressed comes up again (a tick      *)
(*      later; ticks with other custom actions may delay it)                 *)
(*   B1 kanata does not report "can block" while a key pressed by a macro    *)
(*      is still down (a blocked loop would leave it down until next input)  *)
(*   V1 virtual-key items of a completed macro acted                         *)
(*  Soft on purpose: how long a macro takes (no upper bounds except through  *)
(*  idle), which of several modifiers goes up first, whether a macro beyond   *)
(*  the documented capacity plays (if so: exactly), whether a press cancels  *)
(*  when                                                                     *)
(*  the trigger state is ambiguous, late unicode items of cancelled macros.  *)
(*  Tick conventions (DESIGN App. A): an event arriving on an empty queue is *)
(*  processed on the next tick, queued events one per tick (ql); a release-  *)
(*  cancel takes effect on the tick its release is processed (one more step  *)
(*  may come out on that tick), cancel-on-press at the arrival of the press. *)
(***************************************************************************)
EXTENDS Obs

\* ------------------------------------------------------------------ Part 1: expansion
Raw(t, k, ks, n, ch) == [t |-> t, k |-> k, ks |-> ks, n |-> n, ch |-> ch, w |-> 0]

RECURSIVE XItems(_)
XItem(it) ==
  CASE it.t = "k" -> <<Raw("d", it.k, {}, 0, ""), Raw("ug", 0, {it.k}, 0, "")>>
    [] it.t = "d" -> <<Raw("w", 0, {}, it.n, "")>>
    [] it.t = "m" -> [i \in 1..Len(it.mods) |-> Raw("d", it.mods[i], {}, 0, "")]
                     \o XItems(it.items)
                     \o <<Raw("ug", 0, SeqToSet(it.mods), 0, "")>>
    [] it.t = "l" -> XItems(it.items)
    [] it.t = "u" -> <<Raw("U", 0, {}, 0, it.ch)>>
    \* a mouse-button item (mlft, mrgt, ...): the button goes down; it comes up again at least a tick later,
    \* which is not a step of its own (the macro goes on meanwhile)
    [] it.t = "b" -> <<Raw("bd", 0, {}, 0, it.btn)>>
    [] it.t = "v" -> <<Raw("v", it.o, {}, it.y, "")>>
XItems(items) == IF items = <<>> THEN <<>> ELSE XItem(Head(items)) \o XItems(Tail(items))

\* the step list a body spells out ("ug" = the keys of ks go up, in any order)
MacroExpand(body) == XItems(body)

\* effect on the OS key state: a press of a key the macro already holds and a release of a key it
\* does not hold change nothing
RECURSIVE NormRec(_, _, _)
NormRec(raw, held, acc) ==
  IF raw = <<>> THEN acc
  ELSE LET s == Head(raw) IN
       CASE s.t = "d" -> IF s.k \in held THEN NormRec(Tail(raw), held, acc)
                         ELSE NormRec(Tail(raw), held \cup {s.k}, Append(acc, s))
         [] s.t = "ug" -> LET ks == s.ks \cap held IN
                          NormRec(Tail(raw), held \ ks,
                                  acc \o [i \in 1..Cardinality(ks) |-> Raw("u", 0, ks, 0, "")])
         [] OTHER -> NormRec(Tail(raw), held, Append(acc, s))

\* visible steps (d / u / U) with n = least number of ticks since the previous visible step
\* (or since the activation); occ = ticks the invisible tail keeps the macro active
RECURSIVE VisRec(_, _, _, _)
VisRec(norm, w, occ, acc) ==
  IF norm = <<>> THEN [steps |-> acc, trail |-> occ]
  ELSE LET s == Head(norm) IN
       IF s.t = "w" THEN VisRec(Tail(norm), w + s.n, occ + s.n, acc)
       ELSE IF s.t = "v" THEN VisRec(Tail(norm), w, occ + 1, acc)
       ELSE VisRec(Tail(norm), 0, 0, Append(acc, [s EXCEPT !.n = OMax(1, w), !.w = w]))

RECURSIVE SumSeq(_)
SumSeq(s) == IF s = <<>> THEN 0 ELSE Head(s) + SumSeq(Tail(s))

MInfo(mac) ==
  LET raw == MacroExpand(mac.body)
      v == VisRec(NormRec(raw, {}, <<>>), 0, 0, <<>>)
  IN [steps |-> v.steps, N |-> Len(v.steps), trail |-> v.trail,
      lead |-> IF v.steps = <<>> THEN 0 ELSE v.steps[1].w,     \* delay written before the first visible step
      keys |-> {raw[i].k : i \in {j \in DOMAIN raw : raw[j].t = "d"}},
      \* unicode characters and mouse-button names of the body (distinct strings)
      chars |-> {raw[i].ch : i \in {j \in DOMAIN raw : raw[j].t \in {"U", "bd"}}},
      btns |-> {raw[i].ch : i \in {j \in DOMAIN raw : raw[j].t = "bd"}},
      vouts |-> {raw[i].k : i \in {j \in DOMAIN raw : raw[j].t = "v"}},
      nv |-> Cardinality({j \in DOMAIN raw : raw[j].t = "v"}),
      \* ticks one round keeps the macro active (each item one tick, a delay n ticks)
      dur |-> SumSeq([i \in DOMAIN raw |-> IF raw[i].t = "w" THEN raw[i].n
                                           ELSE IF raw[i].t = "ug" THEN Cardinality(raw[i].ks) ELSE 1]) + 1]

\* ---- compile check: the parser's event list (dump: [e, kc, d, cu]) against MacroExpand
RECURSIVE EvsMatchRec(_, _)
EvsMatchRec(raw, evs) ==
  IF raw = <<>> THEN Len(evs) = 1 /\ evs[1].e = "complete"
  ELSE IF evs = <<>> THEN FALSE
  ELSE LET s == Head(raw)
           e == Head(evs)
       IN CASE s.t = "d" -> e.e = "press" /\ e.kc = s.k /\ EvsMatchRec(Tail(raw), Tail(evs))
            [] s.t = "w" -> e.e = "delay" /\ e.d = s.n /\ EvsMatchRec(Tail(raw), Tail(evs))
            [] s.t = "U" -> e.e = "custom" /\ Len(e.cu) = 1 /\ e.cu[1].c = "unicode" /\ e.cu[1].ch = s.ch
                            /\ EvsMatchRec(Tail(raw), Tail(evs))
            [] s.t = "bd" -> e.e = "custom" /\ Len(e.cu) = 1 /\ e.cu[1].c = "mouse" /\ e.cu[1].btn = s.ch
                             /\ EvsMatchRec(Tail(raw), Tail(evs))
            [] s.t = "v" -> e.e = "custom" /\ Len(e.cu) = 1 /\ e.cu[1].c = "fakekey" /\ e.cu[1].op = "tap"
                            /\ e.cu[1].x = 1 /\ e.cu[1].y = s.n /\ EvsMatchRec(Tail(raw), Tail(evs))
            [] s.t = "ug" -> LET n == Cardinality(s.ks) IN
                             /\ Len(evs) >= n
                             /\ \A i \in 1..n : evs[i].e = "release"
                             /\ {evs[i].kc : i \in 1..n} = s.ks
                             /\ EvsMatchRec(Tail(raw), SubSeq(evs, n + 1, Len(evs)))
            [] OTHER -> FALSE
EvsMatch(body, evs) == EvsMatchRec(MacroExpand(body), evs)

\* ------------------------------------------------------------------ Part 2: monitor
MacIdx(p, c) == LET I == {i \in DOMAIN p.macros : p.macros[i].c = c} IN
                IF I = {} THEN 0 ELSE CHOOSE i \in I : TRUE
SetMin(S) == CHOOSE i \in S : \A j \in S : i <= j
AllKeys(m) == UNION {m.x[i].keys : i \in DOMAIN m.x}
AllChars(m) == UNION {m.x[i].chars : i \in DOMAIN m.x}
AllVouts(m) == UNION {m.x[i].vouts : i \in DOMAIN m.x}
AllBtns(m) == UNION {m.x[i].btns : i \in DOMAIN m.x}
\* virtual-key operation of the physical key c: <<macro index, op>> or <<0, "">>
OnVk(mac) == "tg" \in DOMAIN mac
VkOp(p, c) ==
  LET T == {i \in DOMAIN p.macros : OnVk(p.macros[i]) /\ p.macros[i].tg = c}
      P == {i \in DOMAIN p.macros : OnVk(p.macros[i]) /\ p.macros[i].pk = c}
      R == {i \in DOMAIN p.macros : OnVk(p.macros[i]) /\ p.macros[i].rk = c}
  IN IF T # {} THEN <<CHOOSE i \in T : TRUE, "toggle">>
     ELSE IF P # {} THEN <<CHOOSE i \in P : TRUE, "press">>
     ELSE IF R # {} THEN <<CHOOSE i \in R : TRUE, "release">>
     ELSE <<0, "">>
\* queued events are processed one per tick only if nothing else feeds the queue
SharpQ(m) == \A i \in DOMAIN m.x : m.x[i].nv = 0 /\ ~OnVk(m.p.macros[i])
MaxNeed(m) == LET S == UNION {{m.x[i].steps[j].n : j \in DOMAIN m.x[i].steps} : i \in DOMAIN m.x} IN
              IF S = {} THEN 1 ELSE CHOOSE a \in S : \A b \in S : a >= b
Overlap(m, i, j) == m.x[i].keys \cap m.x[j].keys # {} \/ m.x[i].chars \cap m.x[j].chars # {}

MonInit(p) ==
  [p |-> p, x |-> [i \in DOMAIN p.macros |-> MInfo(p.macros[i])],
   acts |-> <<>>,     \* activations in the sharp zone, oldest first
   dused |-> {},      \* macros with an activation outside the sharp zone since the last idle point
   nreg |-> 0,        \* macros started since the last idle point (capped at cap + 1)
   npc |-> 0,         \* cancel-on-press macros among them (capped at 2)
   down |-> {},       \* macro keys down at the OS
   phys |-> {},       \* plain keys with a shared output that are physically down
   bdown |-> {},      \* mouse buttons of macros down at the OS
   bnew |-> {},       \* ... that went down on this tick
   bttl |-> 0,        \* ticks within which the buttons that are down have to come up again
   want |-> [i \in DOMAIN p.macros |-> FALSE],    \* virtual key of macro i wanted pressed
   ql |-> 0,          \* inputs arrived and not yet processed (one per tick)
   gapIn |-> 0, lastIdle |-> TRUE,
   trig |-> 0,        \* ticks during which the trigger of a cancel-on-press macro that is no longer tracked may
                      \* still be armed ("enabled while the macro is in progress": one pass of the macro from the tick
                      \* its key is processed); afterwards a press must leave the other macros alone
   lastc |-> "none",  \* kind of the last cancellation
   vbal |-> 0,        \* virtual-key taps seen minus taps owed by completed macros
   err |-> ""]

\* an activation
\*  mi macro index; pos steps matched in the current round; held keys it holds; el ticks since its last
\*  step (since arrival before the first); stepped = played a step this tick; st "live" | "canc"
\*  (cancelled; may finish the step in flight) | "cleaning" (only releases) | "done"; ttlS ticks during
\*  which steps are still allowed (-1 no limit); ttlC ticks until every held key must be up (-1 no limit);
\*  proc ticks until the activating press is processed; rnd 1 | 2 (later round); key = the macro key is
\*  still held; rttl ticks during which a new round may still start after the release (-1 no limit);
\*  opt = more than cap macros were started since the last idle point, so cap macros may still be active when
\*  this one is to start: the documented capacity applies and it may not play at all (if it plays: exactly)
NewAct(m, mi) ==
  [mi |-> mi, pos |-> 0, held |-> {}, el |-> 0, stepped |-> FALSE,
   st |-> IF m.x[mi].N = 0 THEN "done" ELSE "live",
   ttlS |-> 0 - 1, ttlC |-> 0 - 1, proc |-> m.ql + 1, rnd |-> 1, key |-> TRUE, rttl |-> 0 - 1,
   opt |-> m.nreg + 1 > m.p.cap]

SharpCancelled(a) == a.st \in {"canc", "cleaning"} /\ a.ttlC >= 0

\* imm: the cancellation acts at the arrival of the input (cancel-on-press): macros whose activating press is
\* still queued are not running yet and are not affected
CancelAll(m, ttlS, ttlC, kind, imm) ==
  LET upd == [i \in DOMAIN m.acts |->
                LET a == m.acts[i] IN
                IF (a.st = "live" \/ (a.st = "canc" /\ a.ttlC < 0 /\ ttlC >= 0))
                   /\ (~imm \/ a.proc = 0 \/ ~SharpQ(m))
                THEN [a EXCEPT !.st = IF ttlS = 0 THEN "cleaning" ELSE "canc", !.ttlS = ttlS, !.ttlC = ttlC]
                ELSE a]
      \* a unicode item already taken up by a cancelled macro comes out at some later tick (it waits for a
      \* tick without another custom action): such activations leave the sharp zone
      uni(a) == m.x[a.mi].chars # {} /\ a.st # "live"
  IN [m EXCEPT !.lastc = kind,
               !.acts = SelectSeq(upd, LAMBDA a : ~uni(a)),
               !.dused = @ \cup {upd[i].mi : i \in {j \in DOMAIN upd : uni(upd[j])}}]

\* a macro is started (its key, or the press of its virtual key, arrives); late = further ticks until the
\* activating event is processed (a virtual-key operation goes through a custom action and the queue)
Register(m1, m, mi, late) ==
  LET p == m.p
      confl == {i \in DOMAIN m1.acts : ~SharpCancelled(m1.acts[i]) /\ Overlap(m, m1.acts[i].mi, mi)}
      dconfl == \E j \in m1.dused : Overlap(m, j, mi)
      keep == SelectSeq(m1.acts, LAMBDA a : SharpCancelled(a) \/ ~Overlap(m, a.mi, mi))
  IN IF confl # {} \/ dconfl
     THEN \* the projections on the macro's keys interleave: outside the sharp zone
          [m1 EXCEPT !.nreg = OMin(@ + 1, p.cap + 1), !.acts = keep,
                     !.npc = IF p.macros[mi].pc THEN OMin(@ + 1, 2) ELSE @,
                     !.dused = @ \cup {mi} \cup {m1.acts[i].mi : i \in confl}]
     ELSE [m1 EXCEPT !.nreg = OMin(@ + 1, p.cap + 1), !.trig = IF p.macros[mi].pc /\ ~SharpQ(m) THEN OMax(@, m.ql + 3 + m.x[mi].dur) ELSE @,
                     !.npc = IF p.macros[mi].pc THEN OMin(@ + 1, 2) ELSE @,
                     !.acts = Append(m1.acts, [NewAct(m, mi) EXCEPT !.proc = @ + late])]

\* the macro's key (virtual key) is released
KeyUp(m0, m, mi, late) ==
  LET p == m.p
      sharp == SharpQ(m)
      m1 == [m0 EXCEPT !.acts = [i \in DOMAIN m0.acts |->
                                   LET a == m0.acts[i] IN
                                   IF a.mi = mi /\ a.key
                                   THEN [a EXCEPT !.key = FALSE,
                                                  !.rttl = IF sharp THEN m.ql + 2 + m.x[mi].lead
                                                           ELSE IF late > 0 THEN m.ql + 2 + late + m.x[mi].lead
                                                           ELSE 0 - 1]
                                   ELSE a]]
  IN IF p.macros[mi].rc
     THEN IF sharp THEN CancelAll(m1, m.ql + 1, m.ql + 2, "rc", FALSE)
                   ELSE CancelAll(m1, 0 - 1, 0 - 1, "rc", FALSE)
     ELSE m1

\* Shared keys: outputs of plain keys (p.shared) that are also keys of a macro.  The OS sees such a key down while
\* either holder has it down, so the macro's own press / release of it may not show as an event: these steps are
\* not matched (skipped), events on the key are not attributed; instead (H1) the key must be down at the OS at
\* every later step of the macro at which the macro still holds it.
Shared(m) == IF "shared" \in DOMAIN m.p THEN {m.p.shared[i].o : i \in DOMAIN m.p.shared} ELSE {}
PhysShared(m) == IF "shared" \in DOMAIN m.p
                 THEN {m.p.shared[i].o : i \in {j \in DOMAIN m.p.shared : m.p.shared[j].c \in m.phys}} ELSE {}
IsSharedStep(m, s) == (s.t = "d" /\ s.k \in Shared(m)) \/ (s.t = "u" /\ s.ks \subseteq Shared(m))
RECURSIVE SkipFrom(_, _, _)
SkipFrom(m, mi, j) == IF j > m.x[mi].N THEN j
                      ELSE IF IsSharedStep(m, m.x[mi].steps[j]) THEN SkipFrom(m, mi, j + 1) ELSE j
Rem(m, a) == SkipFrom(m, a.mi, a.pos + 1)       \* > N: the round is complete
RECURSIVE HeldSkip(_, _, _, _, _)
HeldSkip(m, mi, held, j, to) ==
  IF j >= to THEN held
  ELSE LET s == m.x[mi].steps[j] IN
       HeldSkip(m, mi, IF s.t = "d" THEN held \cup {s.k} ELSE IF s.t = "u" THEN held \ s.ks ELSE held, j + 1, to)

\* a press may cancel the macros: a cancel-on-press macro is running (tracked, or outside the sharp zone),
\* or one pass of such a macro is not over yet
MayCancel(m) ==
  \/ m.trig > 0
  \/ \E i \in DOMAIN m.acts : m.p.macros[m.acts[i].mi].pc /\ m.acts[i].proc = 0
  \/ \E j \in m.dused : m.p.macros[j].pc

MonIn(m, r) ==
  IF m.err # "" THEN m
  ELSE IF r.e \notin {"d", "u"} THEN Fail(m, "C08: input kind outside the instance")
  ELSE
    LET p == m.p
        mi == MacIdx(p, r.c)
        \* every further input may delay a queued virtual-key release by a tick
        m0 == [m EXCEPT !.ql = @ + 1, !.gapIn = @ + 1,
                        !.phys = IF "shared" \in DOMAIN p /\ \E i \in DOMAIN p.shared : p.shared[i].c = r.c
                                 THEN (IF r.e = "d" THEN @ \cup {r.c} ELSE @ \ {r.c}) ELSE @,
                        !.bttl = IF m.bdown # {} THEN @ + 1 ELSE @,
                        !.acts = [i \in DOMAIN m.acts |->
                                    IF OnVk(p.macros[m.acts[i].mi]) /\ m.acts[i].rttl > 0
                                    THEN [m.acts[i] EXCEPT !.rttl = @ + 1] ELSE m.acts[i]]]
    IN IF r.e = "d"
       THEN LET \* C3: a cancel-on-press macro in its first round, processed and still with steps to play
                \* (the documentation describes one trigger; with several cancel-on-press macros started
                \* together which of them arms it is not specified: no claim then)
                must == SharpQ(m) /\ m.npc = 1 /\ \E i \in DOMAIN m.acts :
                          LET a == m.acts[i] IN
                          /\ a.st = "live" /\ ~a.opt /\ p.macros[a.mi].pc /\ a.proc = 0 /\ a.rnd = 1
                          /\ Rem(m, a) <= m.x[a.mi].N /\ p.macros[a.mi].c # r.c
                m1 == IF must THEN CancelAll(m0, 0, 1, "pc", TRUE)
                      ELSE IF MayCancel(m) THEN CancelAll(m0, 0 - 1, 0 - 1, "pc?", TRUE) ELSE m0
                vk == VkOp(p, r.c)
            IN IF mi # 0 THEN Register(m1, m, mi, 0)
               ELSE IF vk[1] # 0
               THEN LET vi == vk[1]
                        w == m.want[vi]
                        nw == IF vk[2] = "toggle" THEN ~w ELSE vk[2] = "press"
                        m2 == [m1 EXCEPT !.want[vi] = nw]
                    IN IF nw /\ (~w \/ vk[2] = "press") THEN Register(m2, m, vi, 2)
                       ELSE IF w /\ ~nw THEN KeyUp(m2, m, vi, 2)
                       ELSE m2
               ELSE m1
       ELSE IF mi = 0 THEN m0
       ELSE KeyUp(m0, m, mi, 0)

\* ---- matching one OS event against the activations
\* index of the step the activation would play next (0 = none); a finished round of a repeating macro wraps
NextIdx(m, a) == LET N == m.x[a.mi].N
                     r == Rem(m, a)
                     r1 == SkipFrom(m, a.mi, 1)
                 IN IF r <= N THEN r
                    ELSE IF m.p.macros[a.mi].rep /\ r1 <= N THEN r1 ELSE 0
StepMatches(a, s, kind, arg) ==
  /\ s.t = kind
  /\ (kind = "d" => s.k = arg)
  /\ (kind = "u" => arg \in s.ks /\ arg \in a.held)
  /\ (kind \in {"U", "bd"} => s.ch = arg)
WouldStep(m, a, kind, arg) ==
  LET j == NextIdx(m, a) IN j # 0 /\ a.st # "done" /\ StepMatches(a, m.x[a.mi].steps[j], kind, arg)
IsWrap(m, a) == Rem(m, a) > m.x[a.mi].N
\* why an otherwise matching step is not acceptable ("" = acceptable)
StepObjection(m, a, kind, arg) ==
  LET s == m.x[a.mi].steps[NextIdx(m, a)] IN
  \* (a unicode item already taken up when the cancellation takes effect may still come out later: it holds no key)
  IF (a.st = "cleaning" \/ a.ttlS = 0) /\ kind \notin {"U", "bd"}
  THEN "C08 C1: a cancelled macro kept playing its steps"
  ELSE IF IsWrap(m, a) /\ ~a.key /\ a.rttl = 0
  THEN "C08 R2: a repeating macro started a new round although its key had been released"
  ELSE IF a.stepped THEN "C08 S2: two steps of one macro in the same millisecond"
  ELSE IF a.el < s.n THEN "C08 D1: a step came sooner after its predecessor than the stated delay"
  ELSE ""
\* the event is the step after a unicode item that has not come out yet
Overtakes(m, a, kind, arg) ==
  LET j == NextIdx(m, a)
      st == m.x[a.mi].steps
  IN j # 0 /\ j < Len(st) /\ st[j].t \in {"U", "bd"} /\ StepMatches(a, st[j + 1], kind, arg)
CleanOk(a, kind, arg) == a.st \in {"canc", "cleaning"} /\ kind = "u" /\ arg \in a.held

ApplyStep(m, i, kind, arg) ==
  LET a == m.acts[i]
      N == m.x[a.mi].N
      wrap == IsWrap(m, a)
      pos1 == NextIdx(m, a)
      h0 == IF wrap THEN HeldSkip(m, a.mi, HeldSkip(m, a.mi, a.held, a.pos + 1, N + 1), 1, pos1)
            ELSE HeldSkip(m, a.mi, a.held, a.pos + 1, pos1)
      h1 == IF kind = "d" THEN h0 \cup {arg} ELSE IF kind = "u" THEN h0 \ {arg} ELSE h0
      a1 == [a EXCEPT !.pos = pos1, !.stepped = TRUE, !.el = 0, !.rnd = IF wrap THEN 2 ELSE @, !.held = h1]
      fin == SkipFrom(m, a.mi, pos1 + 1) > N
      \* a completed round owes its virtual-key taps
      m1 == [m EXCEPT !.vbal = IF fin THEN OMax(@ - m.x[a.mi].nv, 0 - 3) ELSE @]
  IN IF \E h \in h1 \cap Shared(m) : h \notin m.down
     THEN Fail(m, "C08 H1: a key the macro holds across this step is not down at the OS (released by another holder of the key)")
     ELSE [m1 EXCEPT !.acts[i] = IF fin /\ ~m.p.macros[a.mi].rep THEN [a1 EXCEPT !.st = "done"] ELSE a1]

MacroEvent(m, kind, arg) ==
  LET acts == m.acts
      Uses(j) == IF kind \in {"U", "bd"} THEN arg \in m.x[j].chars ELSE arg \in m.x[j].keys
      C == {i \in DOMAIN acts : Uses(acts[i].mi)}
      DoClean(i) == [m EXCEPT !.acts[i] = [acts[i] EXCEPT !.held = @ \ {arg}, !.st = "cleaning", !.ttlS = 0]]
      clAny == {i \in C : CleanOk(acts[i], kind, arg)}
  IN IF \E j \in m.dused : Uses(j)      \* outside the sharp zone: nothing can be said
     THEN IF clAny # {} THEN DoClean(SetMin(clAny)) ELSE m
     \* the OS sees a release one tick after the key left kanata's state: the tick after an idle report may
     \* still release keys of macros that were cancelled outside the sharp zone
     ELSE IF kind = "u" /\ m.lastIdle /\ \A i \in C : arg \notin acts[i].held THEN m
     ELSE IF C = {} /\ kind \in {"U", "bd"} /\ m.lastc # "none" THEN m
     ELSE IF C = {} THEN Fail(m, "C08 S0: output on a macro's key while no macro that uses the key is running")
     ELSE LET W == {i \in C : WouldStep(m, acts[i], kind, arg)}
              ok == {i \in W : StepObjection(m, acts[i], kind, arg) = ""}
              cl == {i \in C : CleanOk(acts[i], kind, arg)}
          IN IF ok # {} THEN ApplyStep(m, SetMin(ok), kind, arg)
             ELSE IF cl # {}
             THEN DoClean(SetMin(cl))
             ELSE IF W # {} THEN Fail(m, StepObjection(m, acts[SetMin(W)], kind, arg))
             ELSE IF kind \notin {"U", "bd"} /\ \E i \in C : Overtakes(m, acts[i], kind, arg)
             THEN Fail(m, "C08 O1: a key step of the macro was output before the custom item (unicode, mouse button) that precedes it")
             ELSE Fail(m, "C08 S1: output on a macro's key that is not the macro's next step (order / extra / missing step)")

RECURSIVE ScanOut(_, _)
ScanOut(m, out) ==
  IF out = <<>> \/ m.err # "" THEN m
  ELSE LET e == Head(out)
           rest == Tail(out)
       IN IF e[1] \in {"d", "u"}
          THEN IF e[2] \in Shared(m) /\ e[2] \in AllKeys(m)
               THEN ScanOut([m EXCEPT !.down = IF e[1] = "d" THEN @ \cup {e[2]} ELSE @ \ {e[2]}], rest)
               ELSE IF e[2] \in AllKeys(m)
               THEN LET m1 == [m EXCEPT !.down = IF e[1] = "d" THEN @ \cup {e[2]} ELSE @ \ {e[2]}] IN
                    \* outputs are compared by their effect on the OS key state
                    IF (e[1] = "d") = (e[2] \in m.down) THEN ScanOut(m, rest)
                    ELSE ScanOut(MacroEvent(m1, e[1], e[2]), rest)
               ELSE IF e[1] = "d" /\ e[2] \in AllVouts(m)
               THEN ScanOut([m EXCEPT !.vbal = OMin(@ + 1, 3)], rest)
               ELSE ScanOut(m, rest)
          ELSE IF e[1] = "bd" /\ e[2] \in AllBtns(m)
          THEN IF e[2] \in m.bdown THEN ScanOut(m, rest)
               ELSE ScanOut(MacroEvent([m EXCEPT !.bdown = @ \cup {e[2]}, !.bnew = @ \cup {e[2]},
                                                 !.bttl = OMax(@, 4 + m.ql)], "bd", e[2]), rest)
          ELSE IF e[1] = "bu" /\ e[2] \in AllBtns(m)
          THEN IF e[2] \notin m.bdown THEN ScanOut(m, rest)
               ELSE IF e[2] \in m.bnew
               THEN Fail(m, "C08 S2: a mouse button of a macro went down and up in the same millisecond")
               ELSE ScanOut([m EXCEPT !.bdown = @ \ {e[2]}], rest)
          ELSE IF e[1] = "U" /\ e[2] \in AllChars(m) THEN ScanOut(MacroEvent(m, "U", e[2]), rest)
          ELSE ScanOut(m, rest)

Dec(n) == IF n > 0 THEN n - 1 ELSE n      \* -1 (no limit) stays

MonTick(m, out, idle, cb) ==
  IF m.err # "" THEN m
  ELSE
    LET p == m.p
        cap == MaxNeed(m)
        \* start of the tick
        m0 == [m EXCEPT !.bnew = {}, !.bttl = IF m.bdown = {} THEN 0 ELSE Dec(@),
                        !.acts = [i \in DOMAIN m.acts |->
                                    [m.acts[i] EXCEPT !.stepped = FALSE, !.el = OMin(@ + 1, cap)]]]
        m1 == ScanOut(m0, out)
        \* end of the tick, per activation
        lateC2 == \E i \in DOMAIN m1.acts : m1.acts[i].ttlC = 1 /\ m1.acts[i].held \ Shared(m) # {}
        EndAct(a) ==
          LET a1 == [a EXCEPT !.proc = Dec(@), !.ttlS = Dec(@), !.ttlC = Dec(@), !.rttl = Dec(@)] IN
          \* a repeating macro whose round ended and which can no longer restart is done
          IF a1.st = "live" /\ p.macros[a.mi].rep /\ Rem(m, a) > m.x[a.mi].N /\ ~a1.key /\ a1.rttl = 0
          THEN [a1 EXCEPT !.st = "done"] ELSE a1
        Keep(a) == a.st # "done" /\ a.ttlC # 0
        acts2 == SelectSeq([i \in DOMAIN m1.acts |-> EndAct(m1.acts[i])], Keep)
        \* idle: nothing is queued and no macro runs
        s3 == idle /\ \E i \in DOMAIN m1.acts : LET a == m1.acts[i] IN
                        a.st = "live" /\ a.proc <= 1 /\ Rem(m, a) <= m.x[a.mi].N
                        /\ ~(a.opt /\ a.pos = 0 /\ a.rnd = 1)          \* beyond the capacity: may not have started
        r1 == idle /\ \E i \in DOMAIN m1.acts : LET a == m1.acts[i] IN
                        a.st = "live" /\ a.proc <= 1 /\ p.macros[a.mi].rep /\ a.key /\ ~a.opt
        acts3 == IF idle THEN SelectSeq(acts2, SharpCancelled) ELSE acts2
        settled == idle /\ m.lastIdle /\ m.gapIn = 0
        stuck == m1.down \ PhysShared(m) # {} \/ m1.bdown # {}
        \* (kanata is not idle while a custom item of a macro is pending, so E1 alone would never judge this)
        e2 == m1.bdown # {} /\ m1.bttl = 0 /\ m1.bnew = {}
        m2 == IF m1.err # "" THEN m1
              ELSE IF lateC2 THEN Fail(m1, "C08 C2: a cancelled macro's keys were not released on the tick after the cancellation")
              ELSE IF s3 THEN Fail(m1, "C08 S3: a macro stopped before all of its steps were played")
              ELSE IF r1 THEN Fail(m1, "C08 R1: kanata is idle although the key of a repeating macro is held")
              ELSE IF e2
              THEN Fail(m1, "C08 E2: a mouse button pressed by a macro was not released again")
              ELSE IF settled /\ stuck
              THEN Fail(m1, "C08 E1: a key pressed by a macro is still down although kanata is idle")
              ELSE IF p.b1 /\ cb /\ stuck
              THEN Fail(m1, "C08 B1: kanata can block while a key pressed by a macro is still down at the OS")
              ELSE IF settled /\ m1.vbal < 0
              THEN Fail(m1, "C08 V1: a virtual-key item of a completed macro did not act")
              ELSE m1
    IN [m2 EXCEPT !.acts = acts3,
                  !.ql = IF idle THEN 0 ELSE OMax(m.ql - 1, 0),
                  !.gapIn = 0, !.lastIdle = idle,
                  !.nreg = IF idle THEN 0 ELSE @,
                  !.npc = IF idle THEN 0 ELSE @,
                  !.dused = IF idle THEN {} ELSE @,
                  !.trig = IF idle THEN 0
                           ELSE LET P == {i \in DOMAIN m1.acts : p.macros[m1.acts[i].mi].pc /\ m1.acts[i].proc = 1}
                                    D == {m.x[m1.acts[i].mi].dur : i \in P}     \* processed on this tick
                                IN OMax(Dec(m.trig), IF D = {} THEN 0 ELSE CHOOSE d \in D : \A e \in D : d >= e),
                  !.lastc = IF settled THEN "none" ELSE @,
                  !.vbal = IF settled THEN 0 ELSE @]

RECURSIVE MonSilent(_, _, _, _)
MonSilent(m, n, idle, cb) ==
  IF n = 0 \/ m.err # "" THEN m
  ELSE IF m.acts = <<>> /\ m.ql = 0 /\ m.gapIn = 0 /\ m.lastIdle = idle /\ idle /\ m.trig = 0
          /\ m.lastc = "none" /\ m.vbal = 0 /\ m.down \ PhysShared(m) = {} /\ m.bdown = {} /\ m.dused = {} /\ m.nreg = 0 /\ m.npc = 0
  THEN m
  ELSE MonSilent(MonTick(m, <<>>, idle, cb), n - 1, idle, cb)
=============================================================================
