---------------------------------- MODULE P_C08 ----------------------------------
(***************************************************************************)
(* L2 specification for C08: macros play exactly their key list, in order, *)
(* and always end with keys released.  Written from the statement and      *)
(* docs/config.adoc ("macro", "Output chords", the macro variants).         *)
(*                                                                         *)
(* params p:                                                               *)
(*   macros : Seq([c, rep, rc, pc, body])  c = physical key; rep = repeat   *)
(*            variant; rc = release-cancel; pc = cancel-on-press; body =    *)
(*            Seq(item) as written in the configuration text:               *)
(*              [t |-> "k", k]            a key                             *)
(*              [t |-> "d", n]            a delay of n ms                   *)
(*              [t |-> "m", mods, items]  S-a, C-S-a, S-(a b ...)            *)
(*              [t |-> "l", items]        a nested list                     *)
(*              [t |-> "u", ch]           (unicode ch)                      *)
(*              [t |-> "v", o, y]         tap of virtual key number y whose  *)
(*                                        action is the key o               *)
(*   cap    : documented number of macros that can be active together (4)   *)
(*   b1     : check rule B1                                                 *)
(*                                                                         *)
(* Part 1  MacroExpand(body): the presses / releases / delays a body spells *)
(*   out.  key => press, release; modifier prefix => the modifiers go down  *)
(*   (in the order written) before and up after what they prefix (the docs  *)
(*   give no order among several modifiers going up: a release group);      *)
(*   lists are flattened; a number n is a delay.                            *)
(*   EvsMatch: the parser's SequenceEvent list against MacroExpand          *)
(*   (compile check).                                                       *)
(* Part 2  monitor over the observable alphabet, one record per activation. *)
(*  Sharp zone = an activation none of whose keys is used by another        *)
(*  activation running at the same time, with at most `cap` running:        *)
(*   S1 the OS events on the macro's keys are exactly the next step          *)
(*   S2 no two steps of one activation in the same tick                      *)
(*   D1 a delay n => at least n ticks between the neighbouring steps         *)
(*   S3 every step is played (kanata does not go idle before)                *)
(*   C1 after a cancellation took effect no further step is played           *)
(*   C2 ... and every key the activation holds is up one tick later          *)
(*   C3 a key press while a cancel-on-press macro is in progress cancels     *)
(*   R1 kanata is not idle while a repeating macro's key is held             *)
(*   R2 a new round starts only if the key was still held when the round     *)
(*      before ended                                                        *)
(*  Everywhere:                                                             *)
(*   S0 no event on a macro's key while no macro using it runs               *)
(*   E1 when kanata is idle no key of a macro is down at the OS              *)
(*   B1 kanata does not report "can block" while a key pressed by a macro    *)
(*      is still down (a blocked loop would leave it down until next input)  *)
(*   V1 virtual-key items of a completed macro acted                         *)
(*  Tick conventions (DESIGN App. A): an event arriving on an empty queue is *)
(*  processed on the next tick, queued events one per tick (ql).            *)
(***************************************************************************)
EXTENDS Obs

\* ------------------------------------------------------------------ Part 1: expansion
Raw(t, k, ks, n, ch) == [t |-> t, k |-> k, ks |-> ks, n |-> n, ch |-> ch]

RECURSIVE XItems(_)
XItem(it) ==
  CASE it.t = "k" -> <<Raw("d", it.k, {}, 0, ""), Raw("ug", 0, {it.k}, 0, "")>>
    [] it.t = "d" -> <<Raw("w", 0, {}, it.n, "")>>
    [] it.t = "m" -> [i \in 1..Len(it.mods) |-> Raw("d", it.mods[i], {}, 0, "")]
                     \o XItems(it.items)
                     \o <<Raw("ug", 0, SeqToSet(it.mods), 0, "")>>
    [] it.t = "l" -> XItems(it.items)
    [] it.t = "u" -> <<Raw("U", 0, {}, 0, it.ch)>>
    [] it.t = "v" -> <<Raw("v", it.o, {}, it.y, "")>>
XItems(items) == IF items = <<>> THEN <<>> ELSE XItem(Head(items)) \o XItems(Tail(items))

\* the step list a body spells out ("ug" = the keys of ks go up, in any order)
MacroExpand(body) == XItems(body)

\* effect on the OS key state: a press of a key the macro already holds and a release of a key it
\* does not hold change nothing
RECURSIVE NormRec(_, _, _)
NormRec(raw, held, acc) ==
  IF raw = <<>> THEN acc
  ELSE LET s == Head(raw) IN
       CASE s.t = "d" -> IF s.k \in held THEN NormRec(Tail(raw), held, acc)
                         ELSE NormRec(Tail(raw), held \cup {s.k}, Append(acc, s))
         [] s.t = "ug" -> LET ks == s.ks \cap held IN
                          NormRec(Tail(raw), held \ ks,
                                  acc \o [i \in 1..Cardinality(ks) |-> Raw("u", 0, ks, 0, "")])
         [] OTHER -> NormRec(Tail(raw), held, Append(acc, s))

\* visible steps (d / u / U) with n = least number of ticks since the previous visible step
\* (or since the activation); occ = ticks the invisible tail keeps the macro active
RECURSIVE VisRec(_, _, _, _)
VisRec(norm, w, occ, acc) ==
  IF norm = <<>> THEN [steps |-> acc, trail |-> occ]
  ELSE LET s == Head(norm) IN
       IF s.t = "w" THEN VisRec(Tail(norm), w + s.n, occ + s.n, acc)
       ELSE IF s.t = "v" THEN VisRec(Tail(norm), w, occ + 1, acc)
       ELSE VisRec(Tail(norm), 0, 0, Append(acc, [s EXCEPT !.n = OMax(1, w)]))

RECURSIVE SumSeq(_)
SumSeq(s) == IF s = <<>> THEN 0 ELSE Head(s) + SumSeq(Tail(s))

MInfo(mac) ==
  LET raw == MacroExpand(mac.body)
      v == VisRec(NormRec(raw, {}, <<>>), 0, 0, <<>>)
  IN [steps |-> v.steps, N |-> Len(v.steps), trail |-> v.trail,
      keys |-> {raw[i].k : i \in {j \in DOMAIN raw : raw[j].t = "d"}},
      chars |-> {raw[i].ch : i \in {j \in DOMAIN raw : raw[j].t = "U"}},
      vouts |-> {raw[i].k : i \in {j \in DOMAIN raw : raw[j].t = "v"}},
      nv |-> Cardinality({j \in DOMAIN raw : raw[j].t = "v"}),
      \* ticks one round keeps the macro active (each item one tick, a delay n ticks)
      dur |-> SumSeq([i \in DOMAIN raw |-> IF raw[i].t = "w" THEN raw[i].n
                                           ELSE IF raw[i].t = "ug" THEN Cardinality(raw[i].ks) ELSE 1]) + 1]

\* ---- compile check: the parser's event list (dump: [e, kc, d, cu]) against MacroExpand
RECURSIVE EvsMatchRec(_, _)
EvsMatchRec(raw, evs) ==
  IF raw = <<>> THEN Len(evs) = 1 /\ evs[1].e = "complete"
  ELSE IF evs = <<>> THEN FALSE
  ELSE LET s == Head(raw)
           e == Head(evs)
       IN CASE s.t = "d" -> e.e = "press" /\ e.kc = s.k /\ EvsMatchRec(Tail(raw), Tail(evs))
            [] s.t = "w" -> e.e = "delay" /\ e.d = s.n /\ EvsMatchRec(Tail(raw), Tail(evs))
            [] s.t = "U" -> e.e = "custom" /\ Len(e.cu) = 1 /\ e.cu[1].c = "unicode" /\ e.cu[1].ch = s.ch
                            /\ EvsMatchRec(Tail(raw), Tail(evs))
            [] s.t = "v" -> e.e = "custom" /\ Len(e.cu) = 1 /\ e.cu[1].c = "fakekey" /\ e.cu[1].op = "tap"
                            /\ e.cu[1].x = 1 /\ e.cu[1].y = s.n /\ EvsMatchRec(Tail(raw), Tail(evs))
            [] s.t = "ug" -> LET n == Cardinality(s.ks) IN
                             /\ Len(evs) >= n
                             /\ \A i \in 1..n : evs[i].e = "release"
                             /\ {evs[i].kc : i \in 1..n} = s.ks
                             /\ EvsMatchRec(Tail(raw), SubSeq(evs, n + 1, Len(evs)))
            [] OTHER -> FALSE
EvsMatch(body, evs) == EvsMatchRec(MacroExpand(body), evs)

\* ------------------------------------------------------------------ Part 2: monitor
MacIdx(p, c) == LET I == {i \in DOMAIN p.macros : p.macros[i].c = c} IN
                IF I = {} THEN 0 ELSE CHOOSE i \in I : TRUE
SetMin(S) == CHOOSE i \in S : \A j \in S : i <= j
AllKeys(m) == UNION {m.x[i].keys : i \in DOMAIN m.x}
AllChars(m) == UNION {m.x[i].chars : i \in DOMAIN m.x}
AllVouts(m) == UNION {m.x[i].vouts : i \in DOMAIN m.x}
\* queued events are processed one per tick only if nothing else feeds the queue
SharpQ(m) == \A i \in DOMAIN m.x : m.x[i].nv = 0
MaxNeed(m) == LET S == UNION {{m.x[i].steps[j].n : j \in DOMAIN m.x[i].steps} : i \in DOMAIN m.x} IN
              IF S = {} THEN 1 ELSE CHOOSE a \in S : \A b \in S : a >= b

MonInit(p) ==
  [p |-> p, x |-> [i \in DOMAIN p.macros |-> MInfo(p.macros[i])],
   acts |-> <<>>,     \* running activations, oldest first
   down |-> {},       \* macro keys down at the OS
   ql |-> 0,          \* inputs arrived and not yet processed (one per tick)
   gapIn |-> 0, lastIdle |-> TRUE,
   over |-> FALSE,    \* more than cap activations ran together since the last idle point
   trig |-> FALSE,    \* a cancel-on-press macro was started since the last idle point
   lastc |-> "none",  \* kind of the last cancellation
   dused |-> {},      \* macros with an activation outside the sharp zone that is no longer tracked
   vbal |-> 0,        \* virtual-key taps seen minus taps owed by completed macros
   err |-> ""]

\* an activation
\*  mi macro index; pos steps matched in the current round; held keys it holds; el ticks since its last
\*  step (since arrival before the first); stepped = played a step this tick; st "live" | "canc"
\*  (cancelled; may finish the step in flight) | "cleaning" (only releases) | "done"; ttlS ticks during
\*  which steps are still allowed (-1 no limit); ttlC ticks until every held key must be up (-1 no limit);
\*  clean = in the sharp zone; proc ticks until the activating press is processed; rnd 1 | 2 (later round);
\*  key = the macro key is still held; rttl ticks during which a new round may still start after the
\*  release (-1 no limit); zomb ticks the finished macro still counts as active; life = upper bound on
\*  the ticks an activation outside the sharp zone can still be active
NewAct(m, mi, clean) ==
  LET empty == m.x[mi].N = 0 IN     \* a body without visible steps only keeps the macro active for a while
  [mi |-> mi, pos |-> 0, held |-> {}, el |-> 0, stepped |-> FALSE, st |-> IF empty THEN "done" ELSE "live",
   ttlS |-> 0 - 1, ttlC |-> 0 - 1, clean |-> clean, proc |-> m.ql + 1, rnd |-> 1, key |-> TRUE, rttl |-> 0 - 1,
   zomb |-> IF empty THEN m.ql + 1 + m.x[mi].trail ELSE m.x[mi].trail, life |-> m.ql + m.x[mi].dur + 3]

SharpCancelled(a) == a.st \in {"canc", "cleaning"} /\ a.ttlC >= 0

CancelAll(m, ttlS, ttlC, kind) ==
  [m EXCEPT !.lastc = kind,
            !.acts = [i \in DOMAIN m.acts |->
                        LET a == m.acts[i] IN
                        IF a.st = "live" \/ (a.st = "canc" /\ a.ttlC < 0 /\ ttlC >= 0)
                        THEN [a EXCEPT !.st = IF ttlS = 0 THEN "cleaning" ELSE "canc", !.ttlS = ttlS, !.ttlC = ttlC]
                        ELSE a]]

MonIn(m, r) ==
  IF m.err # "" THEN m
  ELSE IF r.e \notin {"d", "u"} THEN Fail(m, "C08: input kind outside the instance")
  ELSE
    LET p == m.p
        mi == MacIdx(p, r.c)
        m0 == [m EXCEPT !.ql = @ + 1, !.gapIn = @ + 1]
    IN IF m.over THEN m0      \* beyond the documented capacity: only E1 / B1 are judged until the next idle point
       ELSE IF r.e = "d"
       THEN LET \* C3: a cancel-on-press macro in its first round, processed and still with steps to play
                must == SharpQ(m) /\ \E i \in DOMAIN m.acts :
                          LET a == m.acts[i] IN
                          /\ a.st = "live" /\ a.clean /\ p.macros[a.mi].pc /\ a.proc = 0 /\ a.rnd = 1
                          /\ a.pos < m.x[a.mi].N /\ p.macros[a.mi].c # r.c
                m1 == IF must THEN CancelAll(m0, 0, 1, "pc")
                      ELSE IF m.trig THEN CancelAll(m0, 0 - 1, 0 - 1, "pc?") ELSE m0
            IN IF mi = 0 THEN m1
               ELSE LET occ == Len(m1.acts) + 1
                        confl == {i \in DOMAIN m1.acts :
                                    ~SharpCancelled(m1.acts[i])
                                    /\ (m.x[m1.acts[i].mi].keys \cap m.x[mi].keys # {}
                                        \/ m.x[m1.acts[i].mi].chars \cap m.x[mi].chars # {})}
                        dconfl == \E j \in m.dused : m.x[j].keys \cap m.x[mi].keys # {}
                                                      \/ m.x[j].chars \cap m.x[mi].chars # {}
                    IN IF occ > p.cap
                       THEN [m1 EXCEPT !.over = TRUE, !.acts = <<>>]
                       ELSE [m1 EXCEPT !.trig = @ \/ p.macros[mi].pc,
                                       !.acts = Append([i \in DOMAIN m1.acts |->
                                                          IF i \in confl THEN [m1.acts[i] EXCEPT !.clean = FALSE]
                                                          ELSE m1.acts[i]],
                                                       NewAct(m, mi, confl = {} /\ ~dconfl))]
       ELSE IF mi = 0 THEN m0
       ELSE LET sharp == SharpQ(m)
                m1 == [m0 EXCEPT !.acts = [i \in DOMAIN m.acts |->
                                             LET a == m.acts[i] IN
                                             IF a.mi = mi /\ a.key
                                             THEN [a EXCEPT !.key = FALSE,
                                                            !.rttl = IF sharp THEN m.ql + 2 ELSE 0 - 1,
                                                            !.life = m.ql + 2 * m.x[mi].dur + 3]
                                             ELSE a]]
            IN IF p.macros[mi].rc
               THEN IF sharp THEN CancelAll(m1, m.ql + 1, m.ql + 2, "rc") ELSE CancelAll(m1, 0 - 1, 0 - 1, "rc")
               ELSE m1

\* ---- matching one OS event against the activations
\* index of the step the activation would play next (0 = none); a finished round of a repeating macro wraps
NextIdx(m, a) == LET N == m.x[a.mi].N IN
                 IF a.pos < N THEN a.pos + 1
                 ELSE IF m.p.macros[a.mi].rep /\ N > 0 THEN 1 ELSE 0
StepMatches(a, s, kind, arg) ==
  /\ s.t = kind
  /\ (kind = "d" => s.k = arg)
  /\ (kind = "u" => arg \in s.ks /\ arg \in a.held)
  /\ (kind = "U" => s.ch = arg)
WouldStep(m, a, kind, arg) ==
  LET j == NextIdx(m, a) IN j # 0 /\ a.st # "done" /\ StepMatches(a, m.x[a.mi].steps[j], kind, arg)
IsWrap(m, a) == a.pos >= m.x[a.mi].N
\* why an otherwise matching step is not acceptable ("" = acceptable)
StepObjection(m, a, kind, arg) ==
  LET s == m.x[a.mi].steps[NextIdx(m, a)] IN
  IF a.st = "cleaning" \/ a.ttlS = 0
  THEN "C08 C1: a cancelled macro kept playing its steps"
  ELSE IF IsWrap(m, a) /\ ~a.key /\ a.rttl = 0
  THEN "C08 R2: a repeating macro started a new round although its key had been released"
  ELSE IF a.stepped THEN "C08 S2: two steps of one macro in the same millisecond"
  ELSE IF a.el < s.n THEN "C08 D1: a step came sooner after its predecessor than the stated delay"
  ELSE ""
CleanOk(a, kind, arg) == a.st \in {"canc", "cleaning"} /\ kind = "u" /\ arg \in a.held

ApplyStep(m, i, kind, arg) ==
  LET a == m.acts[i]
      N == m.x[a.mi].N
      wrap == IsWrap(m, a)
      pos1 == IF wrap THEN 1 ELSE a.pos + 1
      a1 == [a EXCEPT !.pos = pos1, !.stepped = TRUE, !.el = 0, !.rnd = IF wrap THEN 2 ELSE @,
                      !.held = IF kind = "d" THEN @ \cup {arg} ELSE IF kind = "u" THEN @ \ {arg} ELSE @]
      fin == pos1 = N
      \* a completed round owes its virtual-key taps
      m1 == [m EXCEPT !.vbal = IF fin THEN OMax(@ - m.x[a.mi].nv, 0 - 3) ELSE @]
  IN [m1 EXCEPT !.acts[i] = IF fin /\ ~m.p.macros[a.mi].rep THEN [a1 EXCEPT !.st = "done"] ELSE a1]

MacroEvent(m, kind, arg) ==
  LET acts == m.acts
      C == {i \in DOMAIN acts : IF kind = "U" THEN arg \in m.x[acts[i].mi].chars ELSE arg \in m.x[acts[i].mi].keys}
      D == {j \in m.dused : IF kind = "U" THEN arg \in m.x[j].chars ELSE arg \in m.x[j].keys}
  IN IF m.over THEN m
     ELSE IF D # {}     \* may stem from an activation outside the sharp zone: nothing can be said
     THEN [m EXCEPT !.acts = [i \in DOMAIN acts |-> IF i \in C THEN [acts[i] EXCEPT !.clean = FALSE] ELSE acts[i]]]
     ELSE IF C = {} THEN Fail(m, "C08 S0: output on a macro's key while no macro that uses the key is running")
     ELSE IF \E i \in C : ~acts[i].clean
     THEN [m EXCEPT !.acts = [i \in DOMAIN acts |-> IF i \in C THEN [acts[i] EXCEPT !.clean = FALSE] ELSE acts[i]]]
     ELSE LET W == {i \in C : WouldStep(m, acts[i], kind, arg)}
              ok == {i \in W : StepObjection(m, acts[i], kind, arg) = ""}
              cl == {i \in C : CleanOk(acts[i], kind, arg)}
          IN IF ok # {} THEN ApplyStep(m, SetMin(ok), kind, arg)
             ELSE IF cl # {}
             THEN LET i == SetMin(cl) IN
                  [m EXCEPT !.acts[i] = [acts[i] EXCEPT !.held = @ \ {arg}, !.st = "cleaning", !.ttlS = 0]]
             ELSE IF W # {} THEN Fail(m, StepObjection(m, acts[SetMin(W)], kind, arg))
             ELSE Fail(m, "C08 S1: output on a macro's key that is not the macro's next step (order / extra / missing step)")

RECURSIVE ScanOut(_, _)
ScanOut(m, out) ==
  IF out = <<>> \/ m.err # "" THEN m
  ELSE LET e == Head(out)
           rest == Tail(out)
       IN IF e[1] \in {"d", "u"}
          THEN IF e[2] \in AllKeys(m)
               THEN LET m1 == [m EXCEPT !.down = IF e[1] = "d" THEN @ \cup {e[2]} ELSE @ \ {e[2]}] IN
                    \* outputs are compared by their effect on the OS key state
                    IF (e[1] = "d") = (e[2] \in m.down) THEN ScanOut(m, rest)
                    ELSE ScanOut(MacroEvent(m1, e[1], e[2]), rest)
               ELSE IF e[1] = "d" /\ e[2] \in AllVouts(m)
               THEN ScanOut([m EXCEPT !.vbal = OMin(@ + 1, 3)], rest)
               ELSE ScanOut(m, rest)
          ELSE IF e[1] = "U" /\ e[2] \in AllChars(m) THEN ScanOut(MacroEvent(m, "U", e[2]), rest)
          ELSE ScanOut(m, rest)

Dec(n) == IF n > 0 THEN n - 1 ELSE n      \* -1 (no limit) stays

MonTick(m, out, idle, cb) ==
  IF m.err # "" THEN m
  ELSE
    LET p == m.p
        cap == MaxNeed(m) + 1
        \* start of the tick
        m0 == [m EXCEPT !.acts = [i \in DOMAIN m.acts |->
                                    [m.acts[i] EXCEPT !.stepped = FALSE, !.el = OMin(@ + 1, cap)]]]
        m1 == ScanOut(m0, out)
        \* end of the tick, per activation
        lateC2 == \E i \in DOMAIN m1.acts : LET a == m1.acts[i] IN a.clean /\ a.ttlC = 1 /\ a.held # {}
        EndAct(a) ==
          LET rep == p.macros[a.mi].rep
              finished == a.pos >= m.x[a.mi].N
              a1 == [a EXCEPT !.proc = Dec(@), !.ttlS = Dec(@), !.ttlC = Dec(@), !.rttl = Dec(@)]
              \* a repeating macro whose round ended and which can no longer restart is done
              a2 == IF a1.st = "live" /\ rep /\ finished /\ ~a1.key /\ a1.rttl = 0 THEN [a1 EXCEPT !.st = "done"] ELSE a1
          IN IF a2.st = "done" THEN [a2 EXCEPT !.zomb = @ - 1]
             ELSE IF ~a2.clean /\ ~(rep /\ a2.key) THEN [a2 EXCEPT !.life = @ - 1]
             ELSE a2
        Keep(a) == /\ ~(a.st = "done" /\ a.zomb < 0)
                   /\ ~(a.ttlC = 0)
                   /\ ~(~a.clean /\ a.life <= 0 /\ ~(p.macros[a.mi].rep /\ a.key))
        ended == [i \in DOMAIN m1.acts |-> EndAct(m1.acts[i])]
        acts2 == SelectSeq(ended, Keep)
        dused2 == m1.dused \cup {ended[i].mi : i \in {j \in DOMAIN ended : ~ended[j].clean /\ ~Keep(ended[j])}}
        \* idle: nothing is queued and no macro runs
        judged(a) == a.clean /\ a.st = "live" /\ a.proc <= 1
        s3 == idle /\ \E i \in DOMAIN m1.acts : LET a == m1.acts[i] IN judged(a) /\ a.pos < m.x[a.mi].N
        r1 == idle /\ \E i \in DOMAIN m1.acts : LET a == m1.acts[i] IN
                        a.st = "live" /\ a.proc <= 1 /\ p.macros[a.mi].rep /\ a.key
        acts3 == IF idle THEN SelectSeq(acts2, LAMBDA a : SharpCancelled(a) /\ a.clean) ELSE acts2
        settled == idle /\ m.lastIdle /\ m.gapIn = 0
        stuck == m1.down # {}
        m2 == IF m1.err # "" THEN m1
              ELSE IF lateC2 THEN Fail(m1, "C08 C2: a cancelled macro's keys were not released on the tick after the cancellation")
              ELSE IF s3 THEN Fail(m1, "C08 S3: a macro stopped before all of its steps were played")
              ELSE IF r1 THEN Fail(m1, "C08 R1: kanata is idle although the key of a repeating macro is held")
              ELSE IF settled /\ stuck
              THEN Fail(m1, IF m1.over
                            THEN "C08 E1: a key pressed by a macro is still down although kanata is idle [more than 4 macros were active together]"
                            ELSE "C08 E1: a key pressed by a macro is still down although kanata is idle")
              ELSE IF p.b1 /\ cb /\ stuck
              THEN Fail(m1, IF m1.lastc = "rc"
                            THEN "C08 B1: kanata can block while a key pressed by a macro is still down at the OS [after macro-release-cancel]"
                            ELSE "C08 B1: kanata can block while a key pressed by a macro is still down at the OS")
              ELSE IF settled /\ m1.vbal < 0
              THEN Fail(m1, "C08 V1: a virtual-key item of a completed macro did not act")
              ELSE m1
    IN [m2 EXCEPT !.acts = acts3,
                  !.ql = IF idle THEN 0 ELSE OMax(m.ql - 1, 0),
                  !.gapIn = 0, !.lastIdle = idle,
                  !.over = IF settled THEN FALSE ELSE @,
                  !.trig = IF idle THEN FALSE ELSE @,
                  !.dused = IF idle THEN {} ELSE dused2,
                  !.lastc = IF settled THEN "none" ELSE @,
                  !.vbal = IF settled THEN 0 ELSE @]

RECURSIVE MonSilent(_, _, _, _)
MonSilent(m, n, idle, cb) ==
  IF n = 0 \/ m.err # "" THEN m
  ELSE IF m.acts = <<>> /\ m.ql = 0 /\ m.gapIn = 0 /\ m.lastIdle = idle /\ idle /\ ~m.over /\ ~m.trig
          /\ m.lastc = "none" /\ m.vbal = 0 /\ m.down = {} /\ m.dused = {}
  THEN m
  ELSE MonSilent(MonTick(m, <<>>, idle, cb), n - 1, idle, cb)
=============================================================================
