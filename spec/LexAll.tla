------------------------------- MODULE LexAll -------------------------------
(* C03 lexer sub-claim, pure part: Parse(t) of Lexer.tla evaluated on EVERY string of up to MaxSyms
   symbols of the 12-symbol alphabet, and its result checked against the text itself (not against
   the machine): spans inside the text and properly nested, spans on character boundaries,
   balanced-or-error (independent parenthesis count), termination (the fold is evaluated).
   Strings whose spans are not character-aligned are printed (tag UNALIGNED): they are run on the
   real code by the check. *)
EXTENDS Lexer, Json
CONSTANT MaxSyms
VARIABLE s                                \* the text as a sequence of symbol indices

RECURSIVE Flat(_)
Flat(x) == IF x = <<>> THEN <<>> ELSE Alphabet[Head(x)] \o Flat(Tail(x))

Init == s = <<>>
Next == Len(s) < MaxSyms /\ \E k \in 1..Len(Alphabet) : s' = Append(s, k)

ResultOK ==
  LET t == Flat(s)
      run == Run(t, 1, Q0, << <<>> >>)
      r == IF run.q.st = "ok" THEN [ok |-> TRUE, top |-> run.stack[1]]
           ELSE [ok |-> FALSE, err |-> run.q.err, span |-> Span6(t, run.q.es[1], run.q.es[2])]
      aligned == ResultAligned(t, r) IN
  /\ run.q.st \in {"ok", "err"}
  /\ ResultWithin(t, r)
  /\ BalancedOrError(t, r)
  /\ r.ok => (aligned /\ run.q.al)                      \* every token and list of an accepted text
  /\ (~r.ok /\ run.q.al) => aligned                     \* the ghost flag of the machine is sound
  /\ aligned \/ PrintT(<<"UNALIGNED", ToJson([b |-> t, err |-> r.err, span |-> <<r.span[1], r.span[2]>>])>>)
=============================================================================
