---------------------------- MODULE LexMachine ----------------------------
(* C03 lexer sub-claim, exhaustive part: the step function of Lexer.tla run as a state machine over
   ALL inputs up to MaxLen bytes (the input is chosen byte by byte; valid UTF-8: E1 is followed by
   E2).  The state is mode x offsets x open-paren stack - no text, no tree - so the reachable graph
   is small and TLC covers every lexer state for inputs far longer than the strings that can be
   enumerated one by one. *)
EXTENDS Lexer

CONSTANTS MaxLen, MaxDepth
VARIABLES q, ev, steps
vars == <<q, ev, steps>>
Bytes == {LP, RP, DQ, SEMI, HASH, BAR, RR, AA, DOLLAR, SP, NL, E1, E2}

MInit == q = Q0 /\ ev = <<>> /\ steps = 0
Feed(b) == /\ q.st = "run" /\ q.pos < MaxLen
           /\ IF q.mid THEN b = E2 ELSE b # E2
           /\ (b = E1 => q.pos + 2 <= MaxLen)
           /\ (b = LP => Len(q.opens) < MaxDepth)
           /\ LET r == LexStep(q, b) IN q' = r.q /\ ev' = r.ev
           /\ steps' = steps + 1
End == /\ q.st = "run" /\ ~q.mid
       /\ LET r == LexEof(q) IN q' = r.q /\ ev' = r.ev
       /\ steps' = steps + 1
MNext == (\E b \in Bytes : Feed(b)) \/ End
MSpec == MInit /\ [][MNext]_vars

\* one byte per step: a text of n bytes is decided after at most n + 1 steps (n bytes and the end
\* of the input; earlier when a byte raises an error), and no step leaves the position where it was
MTermination == /\ q.st = "run" => steps = q.pos
                /\ q.st # "run" => steps \in {q.pos, q.pos + 1}
                /\ q.pos <= MaxLen /\ steps <= MaxLen + 1
EvSpans == {<<ev[i][2], ev[i][3]>> : i \in {j \in 1..Len(ev) : ev[j][1] # "open"}}
MSpanWithin == /\ \A sp \in EvSpans : 0 <= sp[1] /\ sp[1] < sp[2] /\ sp[2] <= q.pos
               /\ q.st = "err" => (0 <= q.es[1] /\ q.es[1] <= q.es[2] /\ q.es[2] <= q.pos)
               /\ \A i \in 1..Len(q.opens) : q.opens[i] < q.pos /\ (i > 1 => q.opens[i - 1] < q.opens[i])
MBalancedOrError == /\ q.st = "ok" => (q.opens = <<>> /\ q.ftop = <<>>)
                    /\ q.st = "err" => q.err \in {"ustr", "umstr", "ucomment", "uclose", "uopen", "topatom"}
                    /\ (q.st = "err" /\ q.err = "uopen") => q.opens # <<>>
MAligned == q.al
\* weaker: what the reader needs for slicing the text (s[span]) - the successful tokens
MTokensAligned == (q.st = "err" /\ q.err = "umstr") \/ q.al
=============================================================================
