------------------------------- MODULE Lexer -------------------------------
(* C03, model-checked sub-claim: the byte-level lexer and the explicit-stack list builder of
   parser/src/cfg/sexpr.rs (Lexer::next_token, parse_with, parse_).

   The real lexer pulls bytes from an iterator and looks ahead by cloning it; here it is a
   deterministic machine that consumes exactly ONE byte per step (LexStep) and then the end of the
   input (LexEof), so look-ahead becomes modes ("semi" = one `;` seen, "r1"/"r2" = `r` / `r#` seen,
   "hash" = `#` seen) and every scanning loop of the code (next_while, read_until_multiline_*_end)
   becomes a mode that stays put.  The machine emits reader events (atom / open / close with byte
   spans) instead of accumulating a tree, so that its state is mode x offsets x open-paren stack
   and the reachable graph over ALL inputs up to MaxLen bytes stays small (section "machine").
   Parse(bytes) folds the same step function over a concrete text and builds the token tree with
   spans exactly as parse_with does (section "pure function"); the conformance check compares it
   with the result of the real `sexpr::parse` for every string up to length 5 over the alphabet. *)
EXTENDS Naturals, Sequences, FiniteSets, TLC

LP == 40  RP == 41  DQ == 34  SEMI == 59  HASH == 35  BAR == 124
RR == 114  AA == 97  DOLLAR == 36  SP == 32  NL == 10
E1 == 195  E2 == 169                      \* the two bytes of U+00E9

\* the 12 symbols: one byte each, except the last
Alphabet == << <<LP>>, <<RP>>, <<DQ>>, <<SEMI>>, <<HASH>>, <<BAR>>, <<RR>>, <<AA>>, <<DOLLAR>>,
               <<SP>>, <<NL>>, <<E1, E2>> >>

IsWs(b) == b \in {32, 10, 9, 12, 13}      \* u8::is_ascii_whitespace
IsStart(b) == b \in {LP, RP, DQ} \/ IsWs(b)
IsLead(b) == b >= 192                     \* first byte of a multi-byte character
IsCont(b) == b >= 128 /\ b < 192

Last(s) == s[Len(s)]
Front(s) == SubSeq(s, 1, Len(s) - 1)

(* ------------------------------------------------------------------ the step function
   q.mode  lexer mode              q.ts    start offset of the token being read
   q.pv    previous byte was `"` (in "ms") / `|` (in "bc")
   q.pos   bytes consumed          q.opens offsets of the unclosed `(` (the builder's stack)
   q.ftop  span of the first atom outside any list (reported only at the end of the input)
   q.st    "run" | "ok" | "err";   q.err / q.es  error class and span
   ghost fields, not in the code: q.mid / q.pmid = offset pos / pos-1 is inside a character,
   q.tsal = the token start was on a character boundary, q.al = every span boundary produced so
   far was on a character boundary. *)
Q0 == [mode |-> "top", ts |-> 0, pv |-> FALSE, pos |-> 0, opens |-> <<>>, ftop |-> <<>>,
       st |-> "run", err |-> "", es |-> <<>>, mid |-> FALSE, pmid |-> FALSE, tsal |-> TRUE, al |-> TRUE]

R(q, ev) == [q |-> q, ev |-> ev]

Fail(q, kind, s, e, eal) ==
  R([q EXCEPT !.st = "err", !.err = kind, !.es = <<s, e>>, !.al = q.al /\ eal], <<>>)

\* an atom [s, e) is complete; sal / eal: its boundaries are on character boundaries
EmitAtom(q, s, e, sal, eal) ==
  R([q EXCEPT !.mode = "top",
              !.ftop = IF q.opens = <<>> /\ q.ftop = <<>> THEN <<s, e>> ELSE q.ftop,
              !.al = q.al /\ sal /\ eal],
    << <<"atom", s, e>> >>)

\* byte b at offset q.pos, read at the start of a token (the big match in next_token)
TopByte(q, b) ==
  LET p == q.pos
      bal == ~q.mid                       \* offset p is a character boundary
      tok(m) == R([q EXCEPT !.mode = m, !.ts = p, !.tsal = bal, !.pv = FALSE], <<>>) IN
  CASE b = LP -> R([q EXCEPT !.mode = "top", !.opens = Append(q.opens, p), !.al = q.al /\ bal],
                   << <<"open", p>> >>)
    [] b = RP -> IF q.opens = <<>> THEN Fail(q, "uclose", p, p + 1, bal)
                 ELSE R([q EXCEPT !.mode = "top", !.opens = Front(q.opens), !.al = q.al /\ bal],
                        << <<"close", Last(q.opens), p + 1>> >>)
    [] b = DQ -> tok("str")
    [] b = SEMI -> tok("semi")
    [] b = RR -> tok("r1")
    [] b = HASH -> tok("hash")
    [] IsWs(b) -> R([q EXCEPT !.mode = "top"], <<>>)      \* next_whitespace, token dropped
    [] OTHER -> tok("atom")

\* next_string: the atom goes on until a delimiter, which is then read as the start of a token
AtomByte(q, b) ==
  IF IsStart(b)
  THEN LET a == EmitAtom(q, q.ts, q.pos, q.tsal, ~q.mid)
           t == TopByte(a.q, b) IN
       R(t.q, a.ev \o t.ev)
  ELSE R([q EXCEPT !.mode = "atom"], <<>>)

Step1(q, b) ==
  LET p == q.pos IN
  CASE q.mode = "top" -> TopByte(q, b)
    [] q.mode = "atom" -> AtomByte(q, b)
    [] q.mode = "str" ->                  \* next_while(b # '"' /\ b # '\n'), then one more byte
         IF b = DQ THEN EmitAtom(q, q.ts, p + 1, q.tsal, TRUE)
         ELSE IF b = NL THEN Fail(q, "ustr", q.ts, p + 1, q.tsal)
         ELSE R(q, <<>>)
    [] q.mode = "semi" -> IF b = SEMI THEN R([q EXCEPT !.mode = "lc"], <<>>) ELSE AtomByte(q, b)
    [] q.mode = "lc" -> R([q EXCEPT !.mode = IF b = NL THEN "top" ELSE "lc"], <<>>)
    [] q.mode = "r1" -> IF b = HASH THEN R([q EXCEPT !.mode = "r2"], <<>>) ELSE AtomByte(q, b)
    [] q.mode = "r2" -> IF b = DQ THEN R([q EXCEPT !.mode = "ms", !.pv = FALSE], <<>>) ELSE AtomByte(q, b)
    [] q.mode = "ms" ->                   \* read_until_multiline_string_end
         IF q.pv /\ b = HASH THEN EmitAtom(q, q.ts, p + 1, q.tsal, TRUE)
         ELSE R([q EXCEPT !.pv = (b = DQ)], <<>>)
    [] q.mode = "hash" -> IF b = BAR THEN R([q EXCEPT !.mode = "bc", !.pv = FALSE], <<>>) ELSE AtomByte(q, b)
    [] q.mode = "bc" ->                   \* read_until_multiline_comment_end
         IF q.pv /\ b = HASH THEN R([q EXCEPT !.mode = "top"], <<>>)
         ELSE R([q EXCEPT !.pv = (b = BAR)], <<>>)

\* one byte: exactly one position forward
LexStep(q, b) ==
  LET r == Step1(q, b) IN
  R([r.q EXCEPT !.pos = q.pos + 1, !.pmid = q.mid, !.mid = IsLead(b)], r.ev)

\* end of the input: the pending token, then the end of parse_with
LexEof(q) ==
  LET p == q.pos
      pend == CASE q.mode \in {"atom", "semi", "r1", "r2", "hash"} -> EmitAtom(q, q.ts, p, q.tsal, ~q.mid)
                [] q.mode = "str" -> Fail(q, "ustr", q.ts, p, q.tsal /\ ~q.mid)
                \* the scanning loop leaves the last byte unread: the span ends one byte early
                [] q.mode = "ms" -> IF p > q.ts + 3 THEN Fail(q, "umstr", q.ts, p - 1, q.tsal /\ ~q.pmid)
                                    ELSE Fail(q, "umstr", q.ts, p, q.tsal /\ ~q.mid)
                \* parse_ rewrites the span of this error to the two bytes of `#|`
                [] q.mode = "bc" -> Fail(q, "ucomment", q.ts, q.ts + 2, q.tsal)
                [] OTHER -> R(q, <<>>)
      q1 == pend.q IN
  IF q1.st = "err" THEN pend
  ELSE IF q1.opens # <<>> THEN R(Fail(q1, "uopen", Last(q1.opens), Last(q1.opens) + 1, TRUE).q, pend.ev)
  ELSE IF q1.ftop # <<>> THEN R(Fail(q1, "topatom", q1.ftop[1], q1.ftop[2], TRUE).q, pend.ev)
  ELSE R([q1 EXCEPT !.st = "ok"], pend.ev)

(* ------------------------------------------------------------------ pure function *)
RECURSIVE LineOf(_, _), LineBegOf(_, _)
\* Position.line / Position.line_beginning at byte offset k of text t
LineOf(t, k) == IF k = 0 THEN 0 ELSE LineOf(t, k - 1) + (IF t[k] = NL THEN 1 ELSE 0)
LineBegOf(t, k) == IF k = 0 THEN 0 ELSE IF t[k] = NL THEN k ELSE LineBegOf(t, k - 1)
Span6(t, s, e) == <<s, e, LineOf(t, s), LineBegOf(t, s), LineOf(t, e), LineBegOf(t, e)>>

\* the builder: a stack of child sequences, as in parse_with
RECURSIVE Build(_, _, _)
Build(t, stack, evs) ==
  IF evs = <<>> THEN stack
  ELSE LET e == Head(evs)
           n == Len(stack) IN
       CASE e[1] = "atom" -> Build(t, [stack EXCEPT ![n] = Append(@, [a |-> Span6(t, e[2], e[3])])], Tail(evs))
         [] e[1] = "open" -> Build(t, Append(stack, <<>>), Tail(evs))
         [] e[1] = "close" ->
              Build(t, [Front(stack) EXCEPT ![n - 1] = Append(@, [l |-> Span6(t, e[2], e[3]), c |-> stack[n]])], Tail(evs))

RECURSIVE Run(_, _, _, _)
Run(t, i, q, stack) ==
  IF q.st # "run" THEN [q |-> q, stack |-> stack]
  ELSE LET r == IF i <= Len(t) THEN LexStep(q, t[i]) ELSE LexEof(q) IN
       Run(t, i + 1, r.q, Build(t, stack, r.ev))

\* the result of sexpr::parse(t): the top-level lists with all spans, or the error with its span
Parse(t) ==
  LET r == Run(t, 1, Q0, << <<>> >>) IN
  IF r.q.st = "ok" THEN [ok |-> TRUE, top |-> r.stack[1]]
  ELSE [ok |-> FALSE, err |-> r.q.err, span |-> Span6(t, r.q.es[1], r.q.es[2])]

\* ghost: every span boundary of the run was on a character boundary
ParseAligned(t) == Run(t, 1, Q0, << <<>> >>).q.al

(* ------------------------------------------------------------------ properties of a parse result,
   stated against the text and not against the machine *)
Boundary(t, k) == k = Len(t) \/ (k < Len(t) /\ ~IsCont(t[k + 1]))
SpanOK(t, sp) == /\ 0 <= sp[1] /\ sp[1] <= sp[2] /\ sp[2] <= Len(t)
SpanAligned(t, sp) == Boundary(t, sp[1]) /\ Boundary(t, sp[2])

RECURSIVE NodesOK(_, _, _, _)
\* children lie inside [lo, hi), in order, without overlap, and are well-formed themselves
NodesOK(t, ns, lo, hi) ==
  IF ns = <<>> THEN TRUE
  ELSE LET n == Head(ns)
           sp == IF "a" \in DOMAIN n THEN n.a ELSE n.l IN
       /\ SpanOK(t, sp) /\ lo <= sp[1] /\ sp[2] <= hi /\ sp[1] < sp[2]
       /\ ("l" \in DOMAIN n) => /\ t[sp[1] + 1] = LP /\ t[sp[2]] = RP
                                /\ NodesOK(t, n.c, sp[1] + 1, sp[2] - 1)
       /\ NodesOK(t, Tail(ns), sp[2], hi)

RECURSIVE AllSpans(_)
AllSpans(ns) == IF ns = <<>> THEN {}
                ELSE LET n == Head(ns) IN
                     (IF "a" \in DOMAIN n THEN {n.a} ELSE {n.l} \cup AllSpans(n.c)) \cup AllSpans(Tail(ns))

ResultWithin(t, r) == IF r.ok THEN NodesOK(t, r.top, 0, Len(t)) ELSE SpanOK(t, r.span)
ResultAligned(t, r) == IF r.ok THEN \A sp \in AllSpans(r.top) : SpanAligned(t, sp) ELSE SpanAligned(t, r.span)

\* independent oracle for "balanced or error": on texts without quotes, comments and raw strings
\* the reader accepts exactly the texts whose parentheses balance and that have no atom outside a list
Plain(t) == \A i \in 1..Len(t) : t[i] \notin {DQ, SEMI, HASH, BAR, RR}
RECURSIVE Bal(_, _, _)
\* depth never negative, zero at the end, no atom byte at depth 0
Bal(t, i, d) == IF i > Len(t) THEN d = 0
                ELSE IF t[i] = LP THEN Bal(t, i + 1, d + 1)
                ELSE IF t[i] = RP THEN d > 0 /\ Bal(t, i + 1, d - 1)
                ELSE (d > 0 \/ IsWs(t[i])) /\ Bal(t, i + 1, d)
BalancedOrError(t, r) == Plain(t) => (r.ok <=> Bal(t, 1, 0))
=============================================================================
