---------------------------------- MODULE P_C07 ----------------------------------
(***************************************************************************)
(* C07 - idle blocking is unobservable.                                     *)
(*                                                                          *)
(* Statement: whenever kanata decides it is idle and may stop its 1 ms loop *)
(* until the next input event (the decision `can_block` = TRUE taken after  *)
(* a tick), nothing is pending: advancing time instead produces no output,  *)
(* and whatever input arrives later is handled exactly as if the loop had   *)
(* kept ticking through the gap.                                            *)
(*                                                                          *)
(* Written from the statement, not from the code.  Four judgements:         *)
(*                                                                          *)
(*  (1) a monitor over ONE behaviour of the ticking stepper (folded over    *)
(*      recorded whole-history lanes; usable with the generic trace         *)
(*      validation): after a tick whose decision was "may block", every     *)
(*      further tick without an input in between is silent and the          *)
(*      decision stays "may block"; "may block" implies "idle".             *)
(*      At model level the stronger state invariant IdleTickIsStutter       *)
(*      (Kanata.tla) is what TLC checks on the L1 instances.                *)
(*                                                                          *)
(*  (2) a relation between TWO behaviours recorded from the code from the   *)
(*      same prefix ending in "may block":                                  *)
(*          lane A = prefix ; K ticks ; continuation    (kept ticking)      *)
(*          lane B = prefix ;           continuation    (blocked: no tick   *)
(*                                       is executed before the next input) *)
(*      the K ticks of lane A are silent and keep the decision, and the     *)
(*      two continuations produce the same OS events at the same offsets    *)
(*      (counted in executed ticks) from the same input events.             *)
(*      The same relation judges a whole history run by the ticking stepper *)
(*      against the blocking stepper (every tick after a "may block"        *)
(*      decision skipped until the next input), which is what the real      *)
(*      processing loop executes.                                            *)
(*                                                                          *)
(*  (3) the real processing thread against the stepper on a                 *)
(*      time-insensitive configuration: the same OS events in the same      *)
(*      order (LoopErr).                                                    *)
(*                                                                          *)
(*  (4) the tick clock of the loop never counts an interval twice           *)
(*      (TickClockErr; the design-level counterpart is Loop!TickBudget).    *)
(*                                                                          *)
(* Outputs are compared by their effect on the OS key state (Obs!Eff).      *)
(***************************************************************************)
EXTENDS Obs

\* ------------------------------------------------------------------ (1) one behaviour
\* blocked: the decision after the last tick was "may block" and no input arrived since
MonInit(p) == [err |-> "", blocked |-> FALSE]

\* any input event wakes the loop
MonIn(m, r) == [m EXCEPT !.blocked = FALSE]

MsgGapOutput == "C07 gap-output: a tick taken where the loop may block produced output"
MsgGapWakes == "C07 gap-wakes: the may-block decision was withdrawn by the passage of time alone"
MsgNotIdle == "C07 block-not-idle: may-block although not idle"
JudgeTick(m, silent, idle, cb) ==
  IF m.blocked /\ ~silent THEN Fail(m, MsgGapOutput)
  ELSE IF m.blocked /\ ~cb THEN Fail(m, MsgGapWakes)
  ELSE IF cb /\ ~idle THEN Fail(m, MsgNotIdle)
  ELSE [m EXCEPT !.blocked = cb]

MonTick(m, out, idle, cb) == JudgeTick(m, out = <<>>, idle, cb)
\* n >= 1 silent ticks that all reported the same flags
MonSilent(m, n, idle, cb) == JudgeTick(m, TRUE, idle, cb)

\* ------------------------------------------------------------------ (2) two behaviours
\* A lane is a sequence of records
\*   [e |-> "t", n, out, idle, cb]        n executed ticks (n > 1 only when out = <<>>)
\*   [e |-> "skip", n]                    n ticks NOT executed (blocking stepper)
\*   [e |-> "d"|"u"|"r"|"p"|"w"|"fk", out]  an input event
\*   [e |-> "panic", loc, msg] | [e |-> "error", msg]   the code under test died here
\* Canonical form: the non-silent steps as <<index of the last input, executed ticks since that input,
\* kind, OS events>>.  `norm`: events without effect on the OS key state are dropped (down = keys the OS sees
\* pressed at the start of the lane).
IsInputRec(r) == r.e \in {"d", "u", "r", "p", "w", "fk"}

RECURSIVE CanonRec(_, _, _, _, _, _, _)
CanonRec(lane, i, idx, off, down, norm, acc) ==
  IF i > Len(lane) THEN acc
  ELSE LET r == lane[i] IN
    CASE r.e = "t" ->
           IF r.out = <<>> THEN CanonRec(lane, i + 1, idx, off + r.n, down, norm, acc)
           ELSE LET e == IF norm THEN Eff(r.out, down) ELSE [eff |-> r.out, down |-> down] IN
                CanonRec(lane, i + 1, idx, off + 1, e.down, norm,
                         IF e.eff = <<>> THEN acc ELSE Append(acc, <<idx, off + 1, "t", e.eff>>))
      [] r.e = "skip" -> CanonRec(lane, i + 1, idx, off, down, norm, acc)
      [] r.e = "panic" -> Append(acc, <<idx, off, "panic", << <<"panic", r.loc>> >> >>)
      [] r.e = "error" -> Append(acc, <<idx, off, "error", << <<"error", r.msg>> >> >>)
      [] IsInputRec(r) ->
           LET e == IF norm THEN Eff(r.out, down) ELSE [eff |-> r.out, down |-> down] IN
           CanonRec(lane, i + 1, idx + 1, 0, e.down, norm,
                    IF e.eff = <<>> THEN acc ELSE Append(acc, <<idx + 1, 0, "in", e.eff>>))
      [] OTHER -> CanonRec(lane, i + 1, idx, off, down, norm, acc)

Canon(lane, down, norm) == CanonRec(lane, 1, 0, 0, down, norm, <<>>)

\* the one-behaviour monitor (1) folded over a recorded lane
RECURSIVE LaneMon(_, _, _)
LaneMon(lane, i, m) ==
  IF i > Len(lane) \/ m.err # "" THEN m
  ELSE LET r == lane[i] IN
       LaneMon(lane, i + 1,
               CASE r.e = "t" -> IF r.n = 1 THEN MonTick(m, r.out, r.idle, r.cb) ELSE MonSilent(m, r.n, r.idle, r.cb)
                 [] IsInputRec(r) -> MonIn(m, r)
                 [] OTHER -> m)

\* the K ticks of lane A
GapNoisy(gap) == \E i \in DOMAIN gap : gap[i].e # "t" \/ gap[i].out # <<>>
GapWakes(gap) == \E i \in DOMAIN gap : gap[i].e = "t" /\ (~gap[i].cb \/ ~gap[i].idle)
RECURSIVE GapLen(_)
GapLen(gap) == IF gap = <<>> THEN 0 ELSE (IF Head(gap).e = "t" THEN Head(gap).n ELSE 0) + GapLen(Tail(gap))

FirstDiff(a, b) ==
  LET n == OMin(Len(a), Len(b)) IN
  IF \E i \in 1..n : a[i] # b[i] THEN CHOOSE i \in 1..n : a[i] # b[i] /\ \A j \in 1..(i - 1) : a[j] = b[j]
  ELSE n + 1
At(a, i) == IF i <= Len(a) THEN ToString(a[i]) ELSE "nothing"

\* (3) the real processing thread against the stepper on a time-insensitive configuration: the same OS events in the
\* same order (lane B holds everything the thread wrote; timing is not compared)
RECURSIVE FlatOut(_, _)
FlatOut(lane, i) ==
  IF i > Len(lane) THEN <<>>
  ELSE (IF lane[i].e = "t" \/ IsInputRec(lane[i]) THEN lane[i].out ELSE <<>>) \o FlatOut(lane, i + 1)
LoopErr(r) ==
  LET a == Eff(FlatOut(r.A, 1), {}).eff
      b == Eff(FlatOut(r.B, 1), {}).eff
  IN IF a = b THEN ""
     ELSE LET i == FirstDiff(a, b) IN
          "C07 loop-diverges: OS event #" \o ToString(i) \o " is " \o At(a, i) \o " from the stepper and " \o At(b, i)
          \o " from the processing thread (" \o ToString(Len(a)) \o " / " \o ToString(Len(b)) \o " events)"

\* (4) the tick clock of the processing loop (handle_time_ticks called twice back to back on the real code,
\* r.elapsed_us of wall clock in total since "0 ms elapsed"): time is never counted twice - the executed ticks fit
\* into the elapsed time (no blocked wake-up is involved, which would add one tick by design)
RECURSIVE SumSeq(_)
SumSeq(s) == IF s = <<>> THEN 0 ELSE Head(s) + SumSeq(Tail(s))
TickClockErr(r) ==
  IF SumSeq(r.ticks) * 1000 <= r.elapsed_us THEN ""
  ELSE "C07 tick-clock: " \o ToString(SumSeq(r.ticks)) \o " tick(s) executed by calls " \o ToString(r.ticks)
       \o " although only " \o ToString(r.elapsed_us) \o " us had elapsed (an interval counted twice)"

\* "" = the pair satisfies the property; otherwise the rule that is broken
PairErr(r) ==
  IF r.mode = "loop" THEN LoopErr(r) ELSE IF r.mode = "tickclock" THEN TickClockErr(r) ELSE
  LET down == SeqToSet(r.down)
      ca == Canon(r.A, down, TRUE)
      cb == Canon(r.B, down, TRUE)
      \* whole-history pairs: lane A is a complete behaviour of the ticking stepper, judged by (1) as well (an output
      \* in a may-block gap also shows as a divergence from the blocking stepper and is reported as such)
      ma == IF r.mode = "gap" THEN MonInit(0) ELSE LaneMon(r.A, 1, MonInit(0))
  IN IF GapNoisy(r.gap)
     THEN MsgGapOutput \o " (or the code died): " \o ToString(Canon(r.gap, down, FALSE))
     ELSE IF GapWakes(r.gap) THEN MsgGapWakes
     ELSE IF ma.err \in {MsgGapWakes, MsgNotIdle} THEN ma.err
     ELSE IF GapLen(r.gap) # r.K
     THEN "C07 gap-short: lane A executed " \o ToString(GapLen(r.gap)) \o " of " \o ToString(r.K) \o " ticks"
     ELSE IF ca # cb
     THEN LET i == FirstDiff(ca, cb) IN
          "C07 pair-diverges: after the same prefix and continuation, <<input, offset, kind, events>> #" \o ToString(i)
          \o " is " \o At(ca, i) \o " when the loop kept ticking and " \o At(cb, i) \o " when it blocked"
     ELSE ""

\* not an error: the raw event lists differ although their effect on the OS key state is the same
PairRawDiffers(r) ==
  LET down == SeqToSet(r.down) IN
  Canon(r.A, down, FALSE) # Canon(r.B, down, FALSE) /\ Canon(r.A, down, TRUE) = Canon(r.B, down, TRUE)
=============================================================================
