---------------------------------- MODULE P_C14 ----------------------------------
(***************************************************************************)
(* L2 monitor for C14: OS key-repeat is forwarded for, and only for, keys  *)
(* kanata is holding down.  Written from the property statement; the       *)
(* configuration is known to the monitor only through its *text*:          *)
(*                                                                         *)
(* params p:                                                                *)
(*   keys   : Seq(code)              the physical keys (defsrc)             *)
(*   layers : Seq(Seq([c, a]))       per layer (first = base), per key, the *)
(*                                   action as written:                     *)
(*      [t:"key",k] [t:"chord",mods,k] [t:"multi",acs] [t:"th",tap,hold,to] *)
(*      [t:"td",acs] [t:"os",a] [t:"fork",left,right] [t:"switch",acs]      *)
(*      [t:"chordv1",acs,kss] (the outputs of the input chords the key takes*)
(*      part in, their key sets, and [others] the outputs of the group's    *)
(*      other chords) [t:"unmod",ks] [t:"src"] [t:"trans"] [t:"none"]            *)
(*   lkeys  : Seq([c, l])   keys that are (layer-while-held l) wherever they *)
(*                          resolve;  swkeys : Seq([c, l]) same for          *)
(*                          layer-switch                                    *)
(*   ovr    : Seq([ik, ok, im]) defoverrides: input key -> output key, input *)
(*            modifiers;  roa : override-release-on-activation               *)
(*   dl0    : 0, or -1 when the base layer cannot be followed from the text *)
(*   seq    : [leaders : Seq(code), T, hidden, first]  sequence leader keys, *)
(*            (first = first keys of the sequences longer than one key)      *)
(*            sequence-timeout, whether the input mode is a hidden one      *)
(*                                                                         *)
(* A repeat written to the OS shows in the trace as ["d", code] in the out  *)
(* list of an "r" input (the simulated output has no third key value).      *)
(*                                                                         *)
(* Rules on in_repeat(k):                                                    *)
(*  R1 at most one repeat is emitted;                                        *)
(*  R2 it is for a key that is down at the OS (osDown, tracked from every    *)
(*     d/u event) - never for a key that is up;                              *)
(*  R3 completeness: if k is what put an output key down, a repeat is        *)
(*     emitted (R3a), for a key k can output (R3b), and not for a modifier   *)
(*     of an output chord whose last-listed key k holds down (R3c).          *)
(* Attribution ("k is what put o down") is decided from the observable       *)
(* history only, and only where it is unambiguous: o went down while k was   *)
(* held (same press), no other key that can output o was held or had been    *)
(* pressed since kanata was last idle, and o is an output of k on a layer    *)
(* that is certainly active (the base layer; a layer whose layer-while-held  *)
(* key is held and whose press kanata has certainly processed: an idle tick  *)
(* has been seen since).  Everywhere else the statement is silent and so is  *)
(* the monitor: key released by release-key or a finished one-shot (o is no  *)
(* longer down), output produced on a layer that is no longer held, k's      *)
(* tap-hold undecided (nothing is down yet), hidden sequence mode (waived    *)
(* from the leader press until the sequence has certainly ended).           *)
(***************************************************************************)
EXTENDS Obs

ModKeys == {29, 42, 56, 125, 97, 54, 100, 126}   \* lctl lsft lalt lmet rctl rsft ralt rmet
SeqSlack == 6     \* ticks a queued key may wait before it restarts the sequence timeout (soft zone)

\* ----- the configuration text --------------------------------------------------------
RECURSIVE CandSet(_, _)
RECURSIVE CandSetAll(_, _)
\* the keys action a (written on physical key k) can put down
CandSet(a, k) ==
  CASE a.t = "key" -> {a.k}
    [] a.t = "chord" -> SeqToSet(a.mods) \cup {a.k}
    [] a.t \in {"multi", "td", "switch", "chordv1"} -> CandSetAll(a.acs, k)
    [] a.t = "th" -> CandSet(a.tap, k) \cup CandSet(a.hold, k) \cup CandSet(a.to, k)
    [] a.t = "os" -> CandSet(a.a, k)
    [] a.t = "fork" -> CandSet(a.left, k) \cup CandSet(a.right, k)
    [] a.t = "unmod" -> SeqToSet(a.ks)
    [] a.t = "src" -> {k}
    [] OTHER -> {}
CandSetAll(acs, k) == IF acs = <<>> THEN {} ELSE CandSet(Head(acs), k) \cup CandSetAll(Tail(acs), k)

RECURSIVE ChordSet(_)
RECURSIVE ChordSetAll(_)
\* the output chords (modifiers + last-listed key) written inside action a
ChordSet(a) ==
  CASE a.t = "chord" -> {[m |-> SeqToSet(a.mods), k |-> a.k]}
    [] a.t \in {"multi", "td", "switch", "chordv1"} -> ChordSetAll(a.acs)
    [] a.t = "th" -> ChordSet(a.tap) \cup ChordSet(a.hold) \cup ChordSet(a.to)
    [] a.t = "os" -> ChordSet(a.a)
    [] a.t = "fork" -> ChordSet(a.left) \cup ChordSet(a.right)
    [] OTHER -> {}
ChordSetAll(acs) == IF acs = <<>> THEN {} ELSE ChordSet(Head(acs)) \cup ChordSetAll(Tail(acs))

RECURSIVE Occ(_, _, _)
RECURSIVE OccAll(_, _, _)
\* how many times key x is written as an output inside action a
Occ(a, k, x) ==
  CASE a.t = "key" -> IF a.k = x THEN 1 ELSE 0
    [] a.t = "chord" -> Cardinality({i \in DOMAIN a.mods : a.mods[i] = x}) + (IF a.k = x THEN 1 ELSE 0)
    [] a.t \in {"multi", "td", "switch", "chordv1"} -> OccAll(a.acs, k, x)
    [] a.t = "th" -> Occ(a.tap, k, x) + Occ(a.hold, k, x) + (IF a.to = a.hold THEN 0 ELSE Occ(a.to, k, x))
    [] a.t = "os" -> Occ(a.a, k, x)
    [] a.t = "fork" -> Occ(a.left, k, x) + Occ(a.right, k, x)
    [] a.t = "unmod" -> Cardinality({i \in DOMAIN a.ks : a.ks[i] = x})
    [] a.t = "src" -> IF k = x THEN 1 ELSE 0
    [] OTHER -> 0
OccAll(acs, k, x) == IF acs = <<>> THEN 0 ELSE Occ(Head(acs), k, x) + OccAll(Tail(acs), k, x)

RECURSIVE PartSets(_, _, _, _)
RECURSIVE PartSetsAll(_, _, _, _)
\* for every place where action a (on key k) writes output key x: the set of physical keys that take part in
\* producing it there ({k}, or the key set of the input chord the output belongs to)
PartSets(a, k, x, ctx) ==
  CASE a.t = "key" -> IF a.k = x THEN {ctx} ELSE {}
    [] a.t = "chord" -> IF x \in SeqToSet(a.mods) \cup {a.k} THEN {ctx} ELSE {}
    [] a.t \in {"multi", "td", "switch"} -> PartSetsAll(a.acs, k, x, ctx)
    [] a.t = "chordv1" -> UNION {PartSets(a.acs[i], k, x, SeqToSet(a.kss[i])) : i \in DOMAIN a.acs}
    [] a.t = "th" -> PartSets(a.tap, k, x, ctx) \cup PartSets(a.hold, k, x, ctx) \cup PartSets(a.to, k, x, ctx)
    [] a.t = "os" -> PartSets(a.a, k, x, ctx)
    [] a.t = "fork" -> PartSets(a.left, k, x, ctx) \cup PartSets(a.right, k, x, ctx)
    [] a.t = "unmod" -> IF x \in SeqToSet(a.ks) THEN {ctx} ELSE {}
    [] a.t = "src" -> IF k = x THEN {ctx} ELSE {}
    [] OTHER -> {}
PartSetsAll(acs, k, x, ctx) ==
  IF acs = <<>> THEN {} ELSE PartSets(Head(acs), k, x, ctx) \cup PartSetsAll(Tail(acs), k, x, ctx)

RECURSIVE Collect(_, _, _)
RECURSIVE CollectAll(_, _, _)
\* what = "unmod": the keys written in unmod / unshift forms inside a;
\* what = "others": the outputs of the input chords of a's chord group that key k takes no part in
Collect(a, k, what) ==
  CASE a.t = "unmod" -> IF what = "unmod" THEN SeqToSet(a.ks) ELSE {}
    [] a.t = "chordv1" -> IF what = "others" THEN CandSetAll(a.others, k) ELSE CollectAll(a.acs, k, what)
    [] a.t \in {"multi", "td", "switch"} -> CollectAll(a.acs, k, what)
    [] a.t = "th" -> Collect(a.tap, k, what) \cup Collect(a.hold, k, what) \cup Collect(a.to, k, what)
    [] a.t = "os" -> Collect(a.a, k, what)
    [] a.t = "fork" -> Collect(a.left, k, what) \cup Collect(a.right, k, what)
    [] OTHER -> {}
CollectAll(acs, k, what) == IF acs = <<>> THEN {} ELSE Collect(Head(acs), k, what) \cup CollectAll(Tail(acs), k, what)

RECURSIVE FallsThrough(_)
RECURSIVE FallsThroughAny(_)
\* a transparent / use-defsrc somewhere in a: the key can come out as itself or as a lower layer's action
FallsThrough(a) ==
  CASE a.t \in {"trans", "src"} -> TRUE
    [] a.t \in {"multi", "td", "switch", "chordv1"} -> FallsThroughAny(a.acs)
    [] a.t = "th" -> FallsThrough(a.tap) \/ FallsThrough(a.hold) \/ FallsThrough(a.to)
    [] a.t = "os" -> FallsThrough(a.a)
    [] a.t = "fork" -> FallsThrough(a.left) \/ FallsThrough(a.right)
    [] OTHER -> FALSE
FallsThroughAny(acs) == IF acs = <<>> THEN FALSE ELSE FallsThrough(Head(acs)) \/ FallsThroughAny(Tail(acs))

ActionAt(p, l, k) ==     \* l = 1-based layer index
  LET I == {i \in DOMAIN p.layers[l] : p.layers[l][i].c = k} IN
  IF I = {} THEN [t |-> "trans"] ELSE p.layers[l][CHOOSE i \in I : TRUE].a
WithOvr(p, S) == S \cup {p.ovr[i].ok : i \in {j \in DOMAIN p.ovr : p.ovr[j].ik \in S}}
KeySet(p) == SeqToSet(p.keys)
NL(p) == Len(p.layers)

\* the physical keys that are certainly involved whenever k puts x down
Needs(p, k, x) ==
  LET ps == UNION {PartSets(ActionAt(p, l, k), k, x, {k}) : l \in 1..Len(p.layers)} IN
  IF ps = {} THEN {k} ELSE {q \in SeqToSet(p.keys) : \A s \in ps : q \in s}

Derived(p) ==
  [ nl |-> NL(p),
    lay |-> [l \in 1..NL(p) |-> [k \in KeySet(p) |-> WithOvr(p, CandSet(ActionAt(p, l, k), k))]],
    \* the output chords of the action, each with: is its last-listed key written more than once in the action?
    ch |-> [l \in 1..NL(p) |-> [k \in KeySet(p) |->
              {[m |-> ch.m, k |-> ch.k, dup |-> Occ(ActionAt(p, l, k), k, ch.k) > 1] : ch \in ChordSet(ActionAt(p, l, k))}]],
    fall |-> [l \in 1..NL(p) |-> [k \in KeySet(p) |-> FallsThrough(ActionAt(p, l, k))]],
    \* everything k could ever output, on any layer, plus k itself (over-approximation used to
    \* decide that *no other* key can be the origin of an output)
    broad |-> [k \in KeySet(p) |->
                 WithOvr(p, {k} \cup UNION {CandSet(ActionAt(p, l, k), k) : l \in 1..NL(p)})],
    grpo |-> [k \in KeySet(p) |-> UNION {Collect(ActionAt(p, l, k), k, "others") : l \in 1..NL(p)}],
    unmod |-> UNION {Collect(ActionAt(p, l, k), k, "unmod") : l \in 1..NL(p), k \in KeySet(p)},
    needs |-> [k \in KeySet(p) |->
                 [x \in WithOvr(p, {k} \cup UNION {CandSet(ActionAt(p, l, k), k) : l \in 1..NL(p)}) |-> Needs(p, k, x)]] ]

LayerOfKey(tab, c) == LET I == {i \in DOMAIN tab : tab[i].c = c} IN
                      IF I = {} THEN 0 - 1 ELSE tab[CHOOSE i \in I : TRUE].l

MonInit(p) ==
  [\* the parts of the text needed while running (the action trees are folded into c once)
   p |-> [keys |-> p.keys, lkeys |-> p.lkeys, swkeys |-> p.swkeys, seq |-> p.seq, dl0 |-> p.dl0,
          ovr |-> p.ovr, roa |-> p.roa],
   c |-> Derived(p),
   osDown |-> {},       \* keys the OS sees pressed
   who |-> <<>>,        \* o \in osDown -> the physical keys that may have put it down (0 = a key no longer held)
   phys |-> {},         \* physical keys held
   recent |-> {},       \* physical keys pressed since kanata was last seen idle
   lpress |-> {},       \* layer-while-held keys whose last input is a press ...
   lseen |-> {},        \* ... and an idle tick has been seen since (the press has been processed)
   dl |-> p.dl0,        \* the default layer when certain, else -1 (p.dl0 = -1: the text has a layer-switch the
                        \* monitor cannot follow);   dlp = layer-switch not yet certainly processed
   dlp |-> 0 - 1,
   seqq |-> 0,          \* > 0: a sequence may be active (completeness waived)
   lead |-> 0,          \* sharp tracking of a sequence: 0 none, 1 leader pressed while idle and quiet, 2 + n: leader certainly
                        \* processed n ticks ago (the sequence it started times out T ticks after its last key)
   sact |-> 0,          \* > 0: a sequence is certainly still active for that many more ticks (first key of a longer sequence typed)
   sarm |-> FALSE,      \* the first key has been pressed (not yet certainly processed)
   hid |-> {},          \* keys pressed while a hidden sequence mode may have been active, whose (swallowed) press kanata may still hold
   hidgone |-> {},      \* ... of these, the ones released since: forgotten once kanata has certainly processed the release (idle tick)
   err |-> ""]

Known(m, c) == c \in KeySet(m.p)
Origins(m, o) == {k \in m.phys : Known(m, k) /\ o \in m.c.broad[k]}
                 \cup (IF \E k \in m.recent \ m.phys : Known(m, k) /\ o \in m.c.broad[k] THEN {0} ELSE {})

RECURSIVE ScanOut(_, _)
\* key-state tracking over the events of one step
ScanOut(m, out) ==
  IF out = <<>> THEN m
  ELSE LET e == Head(out) IN
       IF e[1] = "d"
       THEN LET w == IF e[2] \in m.osDown THEN m.who[e[2]] \cup Origins(m, e[2]) ELSE Origins(m, e[2])
                nd == m.osDown \cup {e[2]}
            IN ScanOut([m EXCEPT !.osDown = nd,
                                 !.who = [o \in nd |-> IF o = e[2] THEN w ELSE m.who[o]]], Tail(out))
       ELSE IF e[1] = "u"
       THEN LET nd == m.osDown \ {e[2]} IN
            ScanOut([m EXCEPT !.osDown = nd, !.who = [o \in nd |-> m.who[o]]], Tail(out))
       ELSE ScanOut(m, Tail(out))

SureLayers(m) ==      \* 1-based indices of the layers that are certainly active
  (IF m.dl >= 0 THEN {m.dl + 1} ELSE {})
  \cup {LayerOfKey(m.p.lkeys, c) + 1 : c \in m.lseen}

\* the output keys that k certainly put down and still holds down
Attributed(m, k) ==
  IF ~Known(m, k) \/ k \notin m.phys THEN {}
  ELSE LET sure == SureLayers(m) \cap (1..m.c.nl)
           narrow == UNION {m.c.lay[l][k] : l \in sure}
                     \cup (IF \E l \in sure : m.c.fall[l][k] THEN {k} ELSE {})
       IN {o \in m.osDown : /\ o \in narrow /\ k \in m.who[o] /\ 0 \notin m.who[o]
                            \* every possible origin of o involves k (k alone, or input chords k takes part in)
                            /\ \A q \in m.who[o] : k \in m.c.needs[q][o]}

JudgeRepeat(m, k, out) ==
  LET reps == SelectSeq(out, LAMBDA e : e[1] = "d")
      rest == SelectSeq(out, LAMBDA e : e[1] # "d")
      att == Attributed(m, k)
      sure == SureLayers(m) \cap (1..m.c.nl)
      r == reps[1][2]
  IN IF Len(reps) > 1 THEN Fail(m, "C14 R1: more than one repeat emitted for one repeat event")
     ELSE IF Len(reps) = 1 /\ r \notin m.osDown
     THEN IF m.p.seq.hidden /\ m.sact > 0
          THEN Fail(m, "C14 R2: repeat emitted for a key that is up at the OS (swallowed by a hidden sequence that is still active: repeats are suppressed there)")
          ELSE IF m.p.seq.hidden /\ k \in m.hid
          THEN Fail(m, "C14 R2: repeat emitted for a key that is up at the OS (its press was swallowed by a hidden sequence mode)")
          ELSE IF m.p.roa /\ \E i \in DOMAIN m.p.ovr : r \in SeqToSet(m.p.ovr[i].im) /\ m.p.ovr[i].ok \in m.osDown
          THEN Fail(m, "C14 R2: repeat emitted for a key that is up at the OS (a modifier released by an override with override-release-on-activation and not yet pressed again)")
          ELSE IF r \in ModKeys /\ m.c.unmod \cap m.osDown # {}
          THEN Fail(m, "C14 R2: repeat emitted for a key that is up at the OS (a modifier lifted by unmod / unshift)")
          ELSE Fail(m, "C14 R2: repeat emitted for a key that is up at the OS")
     \* a possibly active sequence waives completeness (hidden modes swallow the keys; when a visible sequence ends its
     \* keys are erased) - except in visible-backspaced mode while the sequence is certainly still running after its
     \* first key: there keys are output, and repeated, as normal
     ELSE IF att = {} \/ (m.seqq > 0 /\ (m.p.seq.hidden \/ m.sact = 0)) THEN ScanOut(m, rest)
     ELSE IF reps = <<>>
     THEN IF m.p.roa /\ \E i \in DOMAIN m.p.ovr : m.p.ovr[i].ok \in att
          THEN Fail(m, "C14 R3a: no repeat emitted although the held key is what put an output key down (the output of an override with override-release-on-activation, while it is down)")
          ELSE Fail(m, "C14 R3a: no repeat emitted although the held key is what put an output key down")
     ELSE IF r \notin m.c.broad[k]
     THEN IF r \in m.c.grpo[k]
          THEN Fail(m, "C14 R3b: the repeat is for the output of an input chord (same group) the held key takes no part in")
          ELSE Fail(m, "C14 R3b: the repeat is not for one of the keys the held key outputs")
     ELSE IF \E l \in sure : \E ch \in m.c.ch[l][k] : r \in ch.m /\ r # ch.k /\ ch.k \in att /\ ~ch.dup
     THEN Fail(m, "C14 R3c: a modifier of an output chord was repeated instead of its last-listed key")
     ELSE IF \E l \in sure : \E ch \in m.c.ch[l][k] : r \in ch.m /\ r # ch.k /\ ch.k \in att
     THEN Fail(m, "C14 R3c: a modifier of an output chord was repeated instead of its last-listed key (the key is also written by another alternative of the same action)")
     ELSE ScanOut(m, rest)

MonIn(m, r) ==
  IF m.err # "" THEN m
  ELSE IF r.e = "d"
  THEN LET sq == m.p.seq
           isLeader == InSeq(sq.leaders, r.c)
           m1 == [m EXCEPT !.phys = @ \cup {r.c}, !.recent = @ \cup {r.c},
                           !.lpress = IF LayerOfKey(m.p.lkeys, r.c) >= 0 THEN @ \cup {r.c} ELSE @,
                           !.lseen = @ \ {r.c},
                           !.dlp = IF LayerOfKey(m.p.swkeys, r.c) >= 0 THEN LayerOfKey(m.p.swkeys, r.c) ELSE @,
                           !.dl = IF LayerOfKey(m.p.swkeys, r.c) >= 0 THEN 0 - 1 ELSE @,
                           !.seqq = IF isLeader \/ m.seqq > 0 THEN sq.T + SeqSlack ELSE @,
                           \* sharp window: leader pressed while kanata is idle and nothing else is pending, processed by
                           \* the next tick; then, as the very next press, the first key of a longer sequence
                           !.lead = IF isLeader /\ m.recent = {} /\ m.seqq = 0 THEN 1 ELSE 0,
                           !.sarm = ~isLeader /\ m.lead >= 2 /\ (m.lead - 2) + 3 <= sq.T /\ InSeq(sq.first, r.c),
                           !.sact = 0,
                           !.hid = IF isLeader \/ m.seqq > 0 THEN @ \cup {r.c} ELSE @,
                           !.hidgone = IF isLeader \/ m.seqq > 0 THEN @ \ {r.c} ELSE @]
       IN ScanOut(m1, r.out)
  ELSE IF r.e = "u"
  THEN LET m1 == [m EXCEPT !.phys = @ \ {r.c}, !.lpress = @ \ {r.c}, !.lseen = @ \ {r.c}, !.hidgone = @ \cup ({r.c} \cap m.hid),
                           !.who = [o \in DOMAIN m.who |-> IF r.c \in m.who[o] THEN (m.who[o] \ {r.c}) \cup {0}
                                                           ELSE m.who[o]]]
       IN ScanOut(m1, r.out)
  ELSE IF r.e = "r" THEN JudgeRepeat(m, r.c, r.out)
  ELSE Fail(m, "C14: input kind outside the instance")

MonTick(m, out, idle, cb) ==
  IF m.err # "" THEN m
  ELSE LET m1 == ScanOut(m, out)
           m2 == [m1 EXCEPT !.seqq = IF @ > 0 THEN @ - 1 ELSE 0]
           m2b == [m2 EXCEPT !.lead = IF @ = 1 THEN 2 ELSE IF @ >= 2 THEN OMin(@ + 1, m2.p.seq.T + 3) ELSE @,
                            !.sact = IF m2.sarm THEN (IF m2.p.seq.T > 3 THEN m2.p.seq.T - 3 ELSE 0) ELSE IF @ > 0 THEN @ - 1 ELSE 0,
                            !.sarm = FALSE]
       IN IF idle
          THEN [m2b EXCEPT !.recent = {}, !.lseen = m2.lpress, !.hid = @ \ m2.hidgone, !.hidgone = {},
                          !.dl = IF m2.dlp >= 0 /\ m2.p.dl0 >= 0 THEN m2.dlp ELSE @, !.dlp = 0 - 1]
          ELSE m2b

MonSilent(m, n, idle, cb) ==
  IF n = 0 \/ m.err # "" THEN m
  ELSE LET m1 == MonTick(m, <<>>, idle, cb) IN
       [m1 EXCEPT !.seqq = IF @ > n - 1 THEN @ - (n - 1) ELSE 0, !.sact = IF @ > n - 1 THEN @ - (n - 1) ELSE 0,
                  !.lead = IF @ >= 2 THEN OMin(@ + (n - 1), m1.p.seq.T + 3) ELSE @]
=============================================================================
