---------------------------------- MODULE P_C18 ----------------------------------
(***************************************************************************)
(* L2 property specification for C18: virtual keys obey press / release /   *)
(* tap / toggle and their timed forms (hold-for-duration, on-idle), with    *)
(* the same effect whatever the trigger (key, macro item, direct call of    *)
(* handle_fakekey_action = what a TCP client reaches).                      *)
(* Written from the statement and docs/config.adoc ("Virtual keys"; "one    *)
(* virtual key press or release will take 1ms to process"); tick            *)
(* calibration: DESIGN Appendix A (vkeys, macro, on-idle rows).             *)
(*                                                                         *)
(* A virtual key is "a physical key that only kanata can operate": every    *)
(* operation, whatever issued it, becomes press / release events of that    *)
(* key at the back of the one event queue that physical keys also go        *)
(* through (one event per tick).  The specification keeps                   *)
(*   want[v]  the logical state of v after all operations *issued* so far   *)
(*            (press => down, release => up, tap => down then up,           *)
(*             toggle => the other one, also when an earlier event of the   *)
(*             key is still queued) - in the order they were issued,        *)
(*   down[v]  the state after the events *processed* so far,                *)
(* and the only thing that depends on the trigger is WHEN its operations    *)
(* are issued (the trigger's own latency):                                  *)
(*   direct call      at once                                               *)
(*   on-press/release when the key's press / release is processed           *)
(*   macro item       one item-step per tick after the macro key was        *)
(*                    processed; an item is issued on the tick it is        *)
(*                    reached (on-press part) and on the next tick          *)
(*                    (on-release part); one custom event per tick          *)
(*   hold-for-duration D: press when activated, release issued D-1 tick-    *)
(*                    ends later (processed D ticks after the most recent   *)
(*                    activation on an empty queue); re-activation while    *)
(*                    the release is outstanding only restarts the time     *)
(*   on-idle D        issued on the first tick that starts with D           *)
(*                    consecutive idle tick-ends behind it (counted from    *)
(*                    arming / the last physical input); once per arming.   *)
(*                                                                         *)
(* Observation: per recognisable output code the effective OS transitions   *)
(* (Obs!Eff) must be exactly the expected ones, in order.  Sharp: content   *)
(* and order always; the tick for the timed forms (src "hfd"/"idle": on the *)
(* predicted tick, not before, not after).  Soft: plain operations may show *)
(* up to p.slack ticks late; order between different codes inside a tick;   *)
(* re-triggered macro virtual keys (muted until quiet); anything after the  *)
(* reference queue exceeded p.qcap (sync = FALSE).                          *)
(*                                                                         *)
(* params p: [vk    : Seq([kind, o, l, outs])  kind "key" (OS key o) |       *)
(*                     "lwh" (layer l while held) | "macro" (taps outs),    *)
(*            keys  : Seq([c, t, onp, onr, steps, o]) physical keys:        *)
(*                     t "cust"  onp : Seq(item) on press, onr on release   *)
(*                     t "macro" steps : Seq([k "cu"|"delay", n, onp, onr]) *)
(*                     t "probe" o : Seq(code), o[l+1] = output on layer l  *)
(*                     item = [k "op"|"idle"|"hfd", v, op, d]               *)
(*                     t "sldr"  sequence leader;  t "sk" a plain key that  *)
(*                     can be part of a sequence (its own output is not     *)
(*                     judged)                                              *)
(*            seqs  : Seq([ks : Seq(code), v]) defseq: typing ks after the   *)
(*                     leader taps v when the last press is processed       *)
(*                     (sequence trigger; timeouts are not judged: the      *)
(*                     monitor goes soft when the mode is left idle for     *)
(*                     seqT-2 ticks),  seqT,                                *)
(*            slack, qcap, maxd]                                            *)
(***************************************************************************)
EXTENDS Obs

VFirstIdx(s, P(_)) == LET I == {i \in DOMAIN s : P(s[i])} IN
                      IF I = {} THEN 0 ELSE CHOOSE i \in I : \A j \in I : i <= j
VRemoveAt(s, i) == SubSeq(s, 1, i - 1) \o SubSeq(s, i + 1, Len(s))
VKeyIdx(p, c) == VFirstIdx(p.keys, LAMBDA k : k.c = c)
VCodesOfVk(vk) == IF vk.kind = "key" THEN {vk.o} ELSE IF vk.kind = "macro" THEN SeqToSet(vk.outs) ELSE {}
VRecCodes(p) == UNION ({VCodesOfVk(p.vk[v]) : v \in DOMAIN p.vk}
                       \cup {IF p.keys[k].t = "probe" THEN SeqToSet(p.keys[k].o) ELSE {} : k \in DOMAIN p.keys})
\* the virtual key a code belongs to (0 = a probe output)
VOwner(p, c) == VFirstIdx(p.vk, LAMBDA vk : c \in VCodesOfVk(vk))
VMaxD(p) == p.maxd   \* the largest on-idle time of the configuration (cap of the idle counter)

MonInit(p) ==
  [p |-> p,
   rec |-> VRecCodes(p),
   q |-> <<>>,                              \* the event queue: [t "kd"|"ku"|"vd"|"vu", i, src]
   want |-> [v \in DOMAIN p.vk |-> FALSE],  \* logical state after the operations issued so far
   down |-> [v \in DOMAIN p.vk |-> FALSE],  \* state after the events processed so far
   hf |-> [v \in DOMAIN p.vk |-> 0],        \* hold-for-duration: tick-ends until the release is issued
   idl |-> <<>>,                            \* armed on-idle entries [v, op, d]
   ic |-> 0,                                \* consecutive idle tick-ends (capped)
   seqs |-> <<>>,                           \* running trigger macros [k, pos, delay]
   cq |-> <<>>,                             \* macro items reached: [k, s, ph "p"|"a"]
   plays |-> <<>>,                          \* running macro virtual keys [v, pos]
   lst |-> <<>>,                            \* held layer virtual keys in press order
   ph |-> [k \in DOMAIN p.keys |-> 0],      \* the output a probe key is holding
   osd |-> {},                              \* recognisable codes down at the OS (observed)
   pend |-> <<>>,                           \* expected transitions not yet observed [c, d, age, src]
   mute |-> {},                             \* macro virtual keys re-triggered while playing
   sqa |-> FALSE, sqb |-> <<>>, sqt |-> 0,  \* sequence mode: active, keys typed so far, ticks since the last one
   sync |-> TRUE, err |-> ""]

VIt(t, i, src) == [t |-> t, i |-> i, src |-> src]
VPush(m, it) == IF Len(m.q) >= m.p.qcap THEN [m EXCEPT !.sync = FALSE] ELSE [m EXCEPT !.q = Append(@, it)]
VExpect(m, c, d, src) == [m EXCEPT !.pend = Append(@, [c |-> c, d |-> d, age |-> 0, src |-> src])]

\* ----- the four operations (docs: Virtual keys) -----------------------------------------
\* A macro virtual key holds nothing: every press plays it (toggle = press), want stays up.
VExecOp(m, v, op, src) ==
  LET mac == m.p.vk[v].kind = "macro"
      w == m.want[v]
  IN CASE op = "press" -> VPush([m EXCEPT !.want[v] = ~mac], VIt("vd", v, src))
       [] op = "release" -> VPush([m EXCEPT !.want[v] = FALSE], VIt("vu", v, src))
       [] op = "tap" -> VPush(VPush([m EXCEPT !.want[v] = FALSE], VIt("vd", v, src)), VIt("vu", v, src))
       [] op = "toggle" ->
            \* soft zone: a macro virtual key has no held state to toggle (the code presses it, or - since
            \* cc71619 - releases it when a press of it is still queued): a possible play, not judged
            IF mac THEN VPush(m, VIt("vd", v, "soft"))
            ELSE VPush([m EXCEPT !.want[v] = ~w],
                       VIt(IF w THEN "vu" ELSE "vd", v, src))
       [] OTHER -> Fail(m, "C18: unknown virtual key operation")

\* hold-for-duration: "if retriggered before release, the time will be reset with no additional
\* press/release events"
VHfdAct(m, v, d) ==
  IF m.hf[v] > 0 THEN [m EXCEPT !.hf[v] = d]
  ELSE VPush([m EXCEPT !.hf[v] = d, !.want[v] = TRUE], VIt("vd", v, "hfd"))

VArm(m, k, it) ==
  \* an armed entry is (operation, virtual key, idle time): arming the same one again, from whichever key, only
  \* restarts the count (soft zone of the statement; the code keeps a set)
  LET e == [v |-> it.v, op |-> it.op, d |-> it.d] IN
  [m EXCEPT !.ic = 0, !.idl = IF InSeq(@, e) THEN @ ELSE Append(@, e)]

RECURSIVE VExecItems(_, _, _)
VExecItems(m, k, items) ==
  IF items = <<>> THEN m
  ELSE LET it == Head(items)
           m1 == CASE it.k = "op" -> VExecOp(m, it.v, it.op, "op")
                   [] it.k = "idle" -> VArm(m, k, it)
                   [] it.k = "hfd" -> VHfdAct(m, it.v, it.d)
                   [] OTHER -> m
       IN VExecItems(m1, k, Tail(items))

\* ----- one tick of the reference ---------------------------------------------------------
\* 1. running macros advance by one step (those that existed when the tick began)
RECURSIVE VAdvSeqs(_, _, _)
VAdvSeqs(m, ss, acc) ==
  IF ss = <<>> THEN [m EXCEPT !.seqs = acc]
  ELSE LET sq == Head(ss)
           steps == m.p.keys[sq.k].steps IN
       IF sq.delay > 0 THEN VAdvSeqs(m, Tail(ss), Append(acc, [sq EXCEPT !.delay = @ - 1]))
       ELSE IF sq.pos >= Len(steps) THEN VAdvSeqs(m, Tail(ss), acc)
       ELSE LET st == steps[sq.pos + 1]
                sq1 == [sq EXCEPT !.pos = @ + 1, !.delay = IF st.k = "delay" /\ st.n > 0 THEN st.n - 1 ELSE 0]
                m1 == IF st.k = "cu" THEN [m EXCEPT !.cq = Append(@, [k |-> sq.k, s |-> sq.pos + 1, ph |-> "p"])] ELSE m
            IN VAdvSeqs(m1, Tail(ss), IF sq1.pos >= Len(steps) /\ sq1.delay = 0 THEN acc ELSE Append(acc, sq1))

RECURSIVE VAdvPlays(_, _, _)
VAdvPlays(m, ps, acc) ==
  IF ps = <<>> THEN [m EXCEPT !.plays = acc]
  ELSE LET pl == Head(ps)
           outs == m.p.vk[pl.v].outs
           pos == pl.pos + 1
           c == outs[(pos + 1) \div 2]
           m1 == IF pl.v \in m.mute THEN m ELSE VExpect(m, c, IF pos % 2 = 1 THEN "d" ELSE "u", "macro")
       IN VAdvPlays(m1, Tail(ps), IF pos >= 2 * Len(outs) THEN acc ELSE Append(acc, [pl EXCEPT !.pos = pos]))

VCurLayer(m) == IF m.lst = <<>> THEN 0 ELSE m.p.vk[m.lst[Len(m.lst)]].l

\* 2. one queued event is processed; returns [m, ce] (ce = the custom event of this tick)
VDequeue(m) ==
  IF m.q = <<>> THEN [m |-> m, ce |-> <<>>]
  ELSE
    LET it == Head(m.q)
        m0 == [m EXCEPT !.q = Tail(@)]
        p == m.p
    IN CASE it.t = "vd" ->
              LET vk == p.vk[it.i]
                  m1 == [m0 EXCEPT !.down[it.i] = vk.kind # "macro"] IN
              [ce |-> <<>>,
               m |-> CASE vk.kind = "key" -> IF m.down[it.i] THEN m1 ELSE VExpect(m1, vk.o, "d", it.src)
                       [] vk.kind = "lwh" -> [m1 EXCEPT !.lst = Append(@, it.i)]
                       [] vk.kind = "macro" ->
                            IF it.src = "soft" \/ \E j \in DOMAIN m.plays : m.plays[j].v = it.i
                            THEN [m1 EXCEPT !.mute = @ \cup {it.i}, !.plays = Append(@, [v |-> it.i, pos |-> 0]),
                                            !.pend = SelectSeq(@, LAMBDA x : x.c \notin SeqToSet(vk.outs))]
                            ELSE [m1 EXCEPT !.plays = Append(@, [v |-> it.i, pos |-> 0])]
                       [] OTHER -> m1]
         [] it.t = "vu" ->
              LET vk == p.vk[it.i]
                  m1 == [m0 EXCEPT !.down[it.i] = FALSE] IN
              [ce |-> <<>>,
               m |-> CASE vk.kind = "key" -> IF m.down[it.i] THEN VExpect(m1, vk.o, "u", it.src) ELSE m1
                       [] vk.kind = "lwh" -> [m1 EXCEPT !.lst = SelectSeq(@, LAMBDA v : v # it.i)]
                       [] OTHER -> m1]
         [] it.t = "kd" ->
              LET ky == p.keys[it.i] IN
              CASE ky.t = "cust" -> [m |-> m0, ce |-> <<"press", it.i>>]
                [] ky.t = "macro" -> [m |-> [m0 EXCEPT !.seqs = Append(@, [k |-> it.i, pos |-> 0, delay |-> 0])],
                                      ce |-> <<>>]
                [] ky.t = "probe" -> LET c == ky.o[VCurLayer(m) + 1] IN
                                     [m |-> VExpect([m0 EXCEPT !.ph[it.i] = c], c, "d", "probe"), ce |-> <<>>]
                [] ky.t = "sldr" -> [m |-> [m0 EXCEPT !.sqa = TRUE, !.sqb = <<>>, !.sqt = 0], ce |-> <<>>]
                [] ky.t = "sk" /\ m.sqa ->
                     LET b == Append(m.sqb, ky.c)
                         hit == VFirstIdx(p.seqs, LAMBDA sq : sq.ks = b)
                         pre == \E i \in DOMAIN p.seqs : Len(p.seqs[i].ks) > Len(b) /\ SubSeq(p.seqs[i].ks, 1, Len(b)) = b
                     IN IF hit # 0 THEN [m |-> [m0 EXCEPT !.sqa = FALSE, !.sqb = <<>>], ce |-> <<"seq", p.seqs[hit].v>>]
                        ELSE IF pre THEN [m |-> [m0 EXCEPT !.sqb = b, !.sqt = 0], ce |-> <<>>]
                        ELSE [m |-> [m0 EXCEPT !.sqa = FALSE, !.sqb = <<>>], ce |-> <<>>]
                [] OTHER -> [m |-> m0, ce |-> <<>>]
         [] it.t = "ku" ->
              LET ky == p.keys[it.i] IN
              CASE ky.t = "cust" -> [m |-> m0, ce |-> <<"release", it.i>>]
                [] ky.t = "probe" -> [m |-> IF m.ph[it.i] # 0
                                            THEN VExpect([m0 EXCEPT !.ph[it.i] = 0], m.ph[it.i], "u", "probe") ELSE m0,
                                      ce |-> <<>>]
                [] OTHER -> [m |-> m0, ce |-> <<>>]

RECURSIVE VExecRel(_, _)
VExecRel(m, ops) == IF ops = <<>> THEN m ELSE VExecRel(VExecOp(m, Head(ops).v, Head(ops).op, "op"), Tail(ops))

\* 3. the one custom event of the tick: the processed key's, else the first macro item
VCustom(m, ce) ==
  IF ce # <<>>
  THEN IF ce[1] = "press" THEN VExecItems(m, ce[2], m.p.keys[ce[2]].onp)
       ELSE IF ce[1] = "seq" THEN VExecOp(m, ce[2], "tap", "op")      \* a completed sequence taps its virtual key
       ELSE VExecRel(m, m.p.keys[ce[2]].onr)
  ELSE IF m.cq = <<>> THEN m
  ELSE LET h == Head(m.cq)
           st == m.p.keys[h.k].steps[h.s] IN
       IF h.ph = "p" THEN VExecItems([m EXCEPT !.cq[1].ph = "a"], h.k, st.onp)
       ELSE VExecRel([m EXCEPT !.cq = Tail(@)], st.onr)

\* 4. on-idle: fires on the first tick that begins with D idle tick-ends behind it; once
RECURSIVE VIdleFire(_, _, _)
VIdleFire(m, es, keep) ==
  IF es = <<>> THEN [m EXCEPT !.idl = keep]
  ELSE LET e == Head(es) IN
       IF m.ic >= e.d THEN VIdleFire(VExecOp(m, e.v, e.op, "idle"), Tail(es), keep)
       ELSE VIdleFire(m, Tail(es), Append(keep, e))

\* 5. hold-for-duration countdown at the end of the tick
RECURSIVE VHfdTick(_, _)
VHfdTick(m, v) ==
  IF v > Len(m.p.vk) THEN m
  ELSE IF m.hf[v] = 0 THEN VHfdTick(m, v + 1)
  ELSE IF m.hf[v] = 1
  THEN VHfdTick(VPush([m EXCEPT !.hf[v] = 0, !.want[v] = FALSE], VIt("vu", v, "hfd")), v + 1)
  ELSE VHfdTick([m EXCEPT !.hf[v] = @ - 1], v + 1)

VRefTick(m) ==
  LET ms == VAdvSeqs(m, m.seqs, <<>>)
      m1 == VAdvPlays(ms, ms.plays, <<>>)
      dq == VDequeue(m1)
      m2 == VCustom(dq.m, dq.ce)
      m3f == VIdleFire(m2, m2.idl, <<>>)
      \* several entries (same idle time) firing on one tick: their order is unspecified - not judged from here on
      m3 == IF Len(m2.idl) - Len(m3f.idl) >= 2 THEN [m3f EXCEPT !.sync = FALSE] ELSE m3f
  IN VHfdTick(m3, 1)

\* ----- observation -------------------------------------------------------------------------
VMuted(m, c) == LET v == VOwner(m.p, c) IN v # 0 /\ v \in m.mute

VUnexpectedMsg(m, e) ==
  LET v == VOwner(m.p, e[2]) IN
  IF v # 0 /\ m.hf[v] > 0 /\ e[1] = "u" THEN "C18: hold-for-duration: the key was released before the stated time had passed since its most recent activation"
  ELSE IF v # 0 /\ m.hf[v] > 0 /\ e[1] = "d" THEN "C18: hold-for-duration: a second press while the key is being held (re-arming must only extend)"
  ELSE IF v # 0 /\ \E i \in DOMAIN m.idl : m.idl[i].v = v
  THEN "C18: on-idle fired before kanata had been idle for the stated time (or an output no operation accounts for)"
  ELSE IF v = 0 THEN "C18: probe key output does not match the layer held by the virtual keys"
  ELSE IF e[1] = "d" THEN "C18: the virtual key's action went down with no operation accounting for it (wrong operation, order or tick)"
  ELSE "C18: the virtual key's action went up with no operation accounting for it (wrong operation, order or tick)"

VOverdueMsg(m, x) ==
  IF x.src = "hfd" /\ x.d = "u" THEN "C18: hold-for-duration: the key was not released when the stated time had passed"
  ELSE IF x.src = "hfd" THEN "C18: hold-for-duration: the key was not pressed on activation"
  ELSE IF x.src = "idle" THEN "C18: on-idle did not fire when kanata had been idle for the stated time"
  ELSE IF x.src = "probe" THEN "C18: probe key output missing"
  ELSE IF x.src = "macro" THEN "C18: the macro virtual key did not play its keys"
  ELSE IF x.d = "d" THEN "C18: a press operation had no effect within the slack"
  ELSE "C18: a release operation had no effect within the slack"

RECURSIVE VMatch(_, _)
VMatch(m, evs) ==
  IF evs = <<>> \/ m.err # "" THEN m
  ELSE LET e == Head(evs) IN
       IF VMuted(m, e[2]) THEN VMatch(m, Tail(evs))
       ELSE LET i == VFirstIdx(m.pend, LAMBDA x : x.c = e[2]) IN
            IF i = 0 \/ m.pend[i].d # e[1] THEN Fail(m, VUnexpectedMsg(m, e))
            ELSE VMatch([m EXCEPT !.pend = VRemoveAt(@, i)], Tail(evs))

VSharp(x) == x.src \in {"hfd", "idle"}
VAgePend(m) ==
  LET bad == VFirstIdx(m.pend, LAMBDA x : VSharp(x) \/ x.age >= m.p.slack) IN
  IF bad # 0 THEN Fail(m, VOverdueMsg(m, m.pend[bad]))
  ELSE [m EXCEPT !.pend = [i \in DOMAIN @ |-> [@[i] EXCEPT !.age = @ + 1]]]

VBusy(m) == m.q # <<>> \/ m.cq # <<>> \/ m.seqs # <<>> \/ (\E j \in DOMAIN m.plays : m.plays[j].v \notin m.mute)
            \/ \E v \in DOMAIN m.hf : m.hf[v] > 0
VQuiet(m) == ~VBusy(m) /\ m.pend = <<>>

MonIn(m, r) ==
  IF m.err # "" \/ ~m.sync THEN m
  ELSE IF r.e = "fk"
  THEN IF r.y + 1 \in DOMAIN m.p.vk THEN VExecOp(m, r.y + 1, r.op, "op")
       ELSE Fail(m, "C18: operation on a virtual key outside the instance")
  ELSE IF r.e \in {"d", "u"}
  THEN LET k == VKeyIdx(m.p, r.c) IN
       IF k = 0 THEN Fail(m, "C18: input key outside the instance")
       ELSE VPush([m EXCEPT !.ic = 0], VIt(IF r.e = "d" THEN "kd" ELSE "ku", k, "in"))
  ELSE Fail(m, "C18: input kind outside the instance")

MonTick(m, out, idle, cb) ==
  IF m.err # "" \/ ~m.sync THEN m
  ELSE
    LET m1 == VRefTick(m)
        r == Eff(SelectSeq(out, LAMBDA e : e[1] \in {"d", "u"} /\ e[2] \in m.rec), m.osd)
        m2 == VMatch([m1 EXCEPT !.osd = r.down], r.eff)
        m3 == IF m2.err # "" THEN m2 ELSE VAgePend(m2)
        \* "kanata may not yet be idle": pending events, running macros and outstanding timed releases
        \* are not idle time (lower bound; kanata may have further reasons not to be idle)
        m4 == IF m3.err = "" /\ idle /\ m3.idl # <<>> /\ VBusy(m3)
              THEN Fail(m3, "C18: on-idle counts idle time while virtual key work is still pending")
              ELSE m3
        \* a re-triggered macro virtual key is judged again once it is quiet
        unm == {v \in m4.mute : (~\E j \in DOMAIN m4.plays : m4.plays[j].v = v)
                                /\ VCodesOfVk(m4.p.vk[v]) \cap m4.osd = {}}
        m5 == [m4 EXCEPT !.mute = @ \ unm,
                         !.ic = IF idle THEN OMin(@ + 1, VMaxD(m4.p)) ELSE 0]
    IN IF ~m5.sqa THEN m5
       ELSE IF m5.sqt + 2 >= m5.p.seqT THEN [m5 EXCEPT !.sync = FALSE]    \* sequence timeouts are C12's, not judged here
       ELSE [m5 EXCEPT !.sqt = @ + 1]

RECURSIVE MonSilent(_, _, _, _)
MonSilent(m, n, idle, cb) ==
  IF n = 0 \/ m.err # "" \/ ~m.sync THEN m
  ELSE IF VQuiet(m) /\ m.idl = <<>> /\ m.mute = {} /\ ~m.sqa THEN m
  ELSE MonSilent(MonTick(m, <<>>, idle, cb), n - 1, idle, cb)
=============================================================================
