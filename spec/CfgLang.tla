------------------------------ MODULE CfgLang ------------------------------
(***************************************************************************)
(* C16 - configuration abstractions are transparent.                       *)
(*                                                                         *)
(* The configuration language as data: an s-expression is an atom          *)
(* <<"A", text>> (text is the token as lexed, quotes included) or a list   *)
(* <<"L", <<kids>>>>.  A configuration is                                  *)
(*    [main |-> <<top-level lists>>, files |-> << <<name, <<lists>>>> >>]  *)
(*                                                                         *)
(* Norm(cfg) is the normal form given by the DOCUMENTED semantics of the   *)
(* indirection layers (docs/config.adoc: include, platform, environment,   *)
(* templates, variables, aliases, deflayermap): a sequence of plain items  *)
(* without include/platform/environment/deftemplate/template-expand/defvar *)
(* /defalias, every layer as one row per defsrc key - or REJECT when the   *)
(* indirection layer itself is ill-formed (unknown alias/template/file,    *)
(* alias used before its definition, duplicate names, arity, ...).         *)
(*                                                                         *)
(* The abstraction steps of the property are the actions Step*.  TLC       *)
(* checks Norm(Step(c)) = Norm(c) for all sites/kinds/compositions over a  *)
(* family of base configurations and prints every pair for the binding     *)
(* (the real parser must treat both texts alike).                          *)
(***************************************************************************)
EXTENDS Naturals, Sequences, FiniteSets, TLC

CONSTANTS ActTable,     \* action name :> kind of argument layout (see ActIdx)
          Platform,     \* the active platform, "linux" here
          EnvSupported, \* FALSE: `environment` items are an error (kanata_parser::cfg::new_from_str)
          EnvVars       \* << <<name, value>> >> when EnvSupported

At(s) == <<"A", s>>
Li(xs) == <<"L", xs>>
Err(why) == <<"E", why>>
IsA(t) == t[1] = "A"
IsL(t) == t[1] = "L"
IsE(t) == t[1] = "E"
Txt(t) == t[2]
Kids(t) == t[2]
HeadTxt(t) == IF IsL(t) /\ Len(Kids(t)) >= 1 /\ IsA(Kids(t)[1]) THEN Txt(Kids(t)[1]) ELSE ""
HeadIs(t, s) == HeadTxt(t) = s

\* ------------------------------------------------------------------ strings
Starts(s, c) == Len(s) >= 1 /\ SubSeq(s, 1, 1) = c
Rest(s) == SubSeq(s, 2, Len(s))
TrimQ(s) == LET a == IF Starts(s, "\"") THEN Rest(s) ELSE s
            IN IF Len(a) >= 1 /\ SubSeq(a, Len(a), Len(a)) = "\"" THEN SubSeq(a, 1, Len(a) - 1) ELSE a
IsVarRef(s) == Starts(s, "$")
IsAliasRef(s) == Starts(s, "@")

\* ------------------------------------------------------------------ generic tree operations
RECURSIVE Cat(_)
Cat(ss) == IF ss = <<>> THEN <<>> ELSE Head(ss) \o Cat(Tail(ss))

RECURSIVE GetP(_, _)
GetP(t, p) == IF p = <<>> THEN t ELSE GetP(Kids(t)[Head(p)], Tail(p))

RECURSIVE PutP(_, _, _)
PutP(t, p, v) == IF p = <<>> THEN v
                 ELSE Li([Kids(t) EXCEPT ![Head(p)] = PutP(Kids(t)[Head(p)], Tail(p), v)])

RECURSIVE AllPaths(_)
AllPaths(t) == {<<>>} \cup
   (IF IsL(t) THEN UNION {{<<k>> \o q : q \in AllPaths(Kids(t)[k])} : k \in 1..Len(Kids(t))} ELSE {})

RECURSIVE AtomTexts(_)
AtomTexts(t) == IF IsA(t) THEN {Txt(t)}
                ELSE IF IsL(t) THEN UNION {AtomTexts(Kids(t)[k]) : k \in 1..Len(Kids(t))} ELSE {}

RECURSIVE HasErr(_)
HasErr(t) == IF IsE(t) THEN TRUE
             ELSE IF IsL(t) THEN \E k \in 1..Len(Kids(t)) : HasErr(Kids(t)[k]) ELSE FALSE

RECURSIVE FlatAtoms(_)          \* texts of all atoms of a sequence of trees, in order
FlatAtoms(xs) == IF xs = <<>> THEN <<>>
                 ELSE (IF IsA(Head(xs)) THEN <<Txt(Head(xs))>>
                       ELSE IF IsL(Head(xs)) THEN FlatAtoms(Kids(Head(xs))) ELSE <<>>) \o FlatAtoms(Tail(xs))

RECURSIVE JoinTrim(_)
JoinTrim(ss) == IF ss = <<>> THEN "" ELSE TrimQ(Head(ss)) \o JoinTrim(Tail(ss))

IsPrefix(p, q) == Len(p) <= Len(q) /\ SubSeq(q, 1, Len(p)) = p

\* ------------------------------------------------------------------ action grammar (argument positions)
ExpandNames == {"template-expand", "t!"}
Kind(h) == IF h \in DOMAIN ActTable THEN ActTable[h] ELSE "none"
\* child indexes (1 = the action name) that are themselves actions
ActIdx(kind, n) ==
   CASE kind = "all"    -> 2..n
     [] kind = "p45"    -> {4, 5} \cap (1..n)
     [] kind = "p456"   -> {4, 5, 6} \cap (1..n)
     [] kind = "p3"     -> {3} \cap (1..n)
     [] kind = "p23"    -> {2, 3} \cap (1..n)
     [] kind = "switch" -> {k \in 2..n : k % 3 = 0}
     [] OTHER           -> {}
\* child indexes that are lists of actions (tap-dance)
ActListIdx(kind, n) == IF kind = "td" THEN {3} \cap (1..n) ELSE {}

\* top-level positions of a configuration item that hold actions
\* (items whose positions pair up are skipped when a template expansion at their top level may splice)
TopActIdx(item) ==
   LET h == HeadTxt(item)  n == Len(Kids(item)) IN
   CASE h = "deflayer" -> 3..n
     [] \E k \in 1..n : HeadTxt(Kids(item)[k]) \in ExpandNames -> {}
     [] h = "deflayermap" -> {k \in 4..n : k % 2 = 0}
     [] h \in {"defalias", "defvirtualkeys", "deffakekeys"} -> {k \in 3..n : k % 2 = 1}
     [] h = "defchords" -> {k \in 5..n : k % 2 = 1}
     [] h \in {"defchordsv2", "defchordsv2-experimental"} -> {k \in 3..n : k % 5 = 3}
     [] OTHER -> {}

\* paths, relative to an action `t`, of all actions in it (itself included)
RECURSIVE SubActPaths(_)
SubActPaths(t) == {<<>>} \cup
   (IF IsL(t) /\ Len(Kids(t)) >= 1 /\ IsA(Kids(t)[1]) THEN
      LET ks == Kids(t)  n == Len(ks)  kind == Kind(Txt(ks[1])) IN
      UNION {{<<k>> \o q : q \in SubActPaths(ks[k])} : k \in ActIdx(kind, n)}
      \cup UNION {IF IsL(ks[k]) THEN UNION {{<<k, j>> \o q : q \in SubActPaths(Kids(ks[k])[j])} : j \in 1..Len(Kids(ks[k]))}
                  ELSE {} : k \in ActListIdx(kind, n)}
    ELSE {})

\* child indexes that are plain lists of keys: every element, the first included, is a value
DataIdx(kind, n) == CASE kind = "p23" -> {4} \cap (1..n)
                      [] kind = "p45" -> {6} \cap (1..n)
                      [] OTHER -> {}

\* paths, relative to `t`, of the values in it that may be named by a variable.  The first element of a list
\* is skipped unless the list is known to be data: it may be an action name (documented exception).
\* mode: "act" (t is an action) | "actlist" (a list of actions) | "data" (a list of keys) | "val" (anything else)
RECURSIVE ValSub(_, _)
ValSub(t, mode) ==
   IF ~IsL(t) \/ HeadTxt(t) \in ExpandNames THEN {}     \* defvar is not substituted inside template-expand (documented)
   ELSE LET ks == Kids(t)  n == Len(ks)
            kind == IF mode = "act" /\ n >= 1 /\ IsA(ks[1]) THEN Kind(Txt(ks[1])) ELSE "none"
            M(k) == IF mode = "actlist" THEN "act"
                    ELSE IF mode = "data" THEN "data"
                    ELSE IF mode = "act" /\ k \in ActIdx(kind, n) THEN "act"
                    ELSE IF mode = "act" /\ k \in ActListIdx(kind, n) THEN "actlist"
                    ELSE IF mode = "act" /\ k \in DataIdx(kind, n) THEN "data"
                    ELSE "val"
        IN UNION {{<<k>>} \cup {<<k>> \o q : q \in ValSub(ks[k], M(k))} : k \in (IF mode \in {"act", "val"} THEN 2..n ELSE 1..n)}

\* ------------------------------------------------------------------ Norm, stage 1-3: include, platform, environment
FileIdx(files, nm) == IF \E k \in 1..Len(files) : files[k][1] = nm
                      THEN CHOOSE k \in 1..Len(files) : files[k][1] = nm ELSE 0

IncludeOne(it, files) ==
   IF ~HeadIs(it, "include") THEN <<it>>
   ELSE IF Len(Kids(it)) # 2 \/ ~IsA(Kids(it)[2]) THEN <<Err("include takes exactly one file path")>>
   ELSE LET k == FileIdx(files, TrimQ(Txt(Kids(it)[2]))) IN
        IF k = 0 THEN <<Err("included file is not known")>> ELSE files[k][2]
ExpandIncludes(main, files) == Cat([i \in 1..Len(main) |-> IncludeOne(main[i], files)])

ValidPlatforms == {"win", "winiov2", "wintercept", "linux", "macos"}
PlatformOne(it) ==
   IF ~HeadIs(it, "platform") THEN <<it>>
   ELSE LET ks == Kids(it) IN
        IF Len(ks) # 3 THEN <<Err("platform requires exactly two parameters")>>
        ELSE IF ~IsL(ks[3]) THEN <<Err("configuration-item must be a list")>>
        ELSE IF ~IsL(ks[2]) THEN <<Err("applicable-platforms must be a list")>>
        ELSE IF \E k \in 1..Len(Kids(ks[2])) : ~IsA(Kids(ks[2])[k]) \/ Txt(Kids(ks[2])[k]) \notin ValidPlatforms
             THEN <<Err("unknown platform")>>
        ELSE IF \E k \in 1..Len(Kids(ks[2])) : Txt(Kids(ks[2])[k]) = Platform THEN <<ks[3]>> ELSE <<>>
FilterPlatform(items) == Cat([i \in 1..Len(items) |-> PlatformOne(items[i])])

EnvVal(nm) == IF \E k \in 1..Len(EnvVars) : EnvVars[k][1] = nm
              THEN <<EnvVars[CHOOSE k \in 1..Len(EnvVars) : EnvVars[k][1] = nm][2]>> ELSE <<>>
EnvOne(it) ==
   IF ~HeadIs(it, "environment") THEN <<it>>
   ELSE IF ~EnvSupported THEN <<Err("environment variables are not supported")>>
   ELSE LET ks == Kids(it) IN
        IF Len(ks) # 3 THEN <<Err("environment requires exactly two parameters")>>
        ELSE IF ~IsL(ks[3]) THEN <<Err("configuration-item must be a list")>>
        ELSE IF ~IsL(ks[2]) \/ Len(Kids(ks[2])) # 2 \/ ~IsA(Kids(ks[2])[1]) \/ ~IsA(Kids(ks[2])[2])
             THEN <<Err("varname-varvalue must be a list of two strings")>>
        ELSE LET want == TrimQ(Txt(Kids(ks[2])[2]))  have == EnvVal(Txt(Kids(ks[2])[1])) IN
             IF have = <<>> THEN (IF want = "" THEN <<ks[3]>> ELSE <<>>)
             ELSE IF have[1] = want THEN <<ks[3]>> ELSE <<>>
FilterEnv(items) == Cat([i \in 1..Len(items) |-> EnvOne(items[i])])

\* ------------------------------------------------------------------ Norm, stage 4: templates
TplIdx(T, nm) == IF \E k \in 1..Len(T) : T[k].n = nm THEN CHOOSE k \in 1..Len(T) : T[k].n = nm ELSE 0

\* validation of a template body at its definition: no deftemplate inside, expansions only of earlier templates
RECURSIVE BodyOk(_, _)
BodyOk(xs, T) ==
   \A k \in 1..Len(xs) :
      IF IsA(xs[k]) THEN
          /\ Txt(xs[k]) # "deftemplate"
          /\ (Txt(xs[k]) \in ExpandNames /\ k < Len(xs) /\ IsA(xs[k + 1])) => TplIdx(T, Txt(xs[k + 1])) # 0
      ELSE IF IsL(xs[k]) THEN BodyOk(Kids(xs[k]), T) ELSE TRUE

RECURSIVE CollectT(_, _, _)     \* -> [ok, T, why]
CollectT(items, i, T) ==
   IF i > Len(items) THEN [ok |-> TRUE, T |-> T, why |-> ""]
   ELSE IF ~HeadIs(items[i], "deftemplate") THEN CollectT(items, i + 1, T)
   ELSE LET ks == Kids(items[i]) IN
        IF Len(ks) < 2 \/ ~IsA(ks[2]) THEN [ok |-> FALSE, T |-> T, why |-> "deftemplate needs a name"]
        ELSE IF TplIdx(T, Txt(ks[2])) # 0 THEN [ok |-> FALSE, T |-> T, why |-> "template name was already defined"]
        ELSE IF Len(ks) < 3 \/ ~IsL(ks[3]) \/ (\E k \in 1..Len(Kids(ks[3])) : ~IsA(Kids(ks[3])[k]))
             THEN [ok |-> FALSE, T |-> T, why |-> "deftemplate needs a list of variable names"]
        ELSE LET body == SubSeq(ks, 4, Len(ks)) IN
             IF ~BodyOk(body, T) THEN [ok |-> FALSE, T |-> T, why |-> "deftemplate body refers to deftemplate or an unknown template"]
             ELSE CollectT(items, i + 1,
                           Append(T, [n |-> Txt(ks[2]),
                                      vs |-> [k \in 1..Len(Kids(ks[3])) |-> "$" \o Txt(Kids(ks[3])[k])],
                                      body |-> body]))

\* textual substitution of the template variables (arguments are not re-visited)
RECURSIVE Subst(_, _, _)
Subst(t, vs, args) ==
   IF IsA(t) THEN (IF \E k \in 1..Len(vs) : vs[k] = Txt(t)
                   THEN args[CHOOSE k \in 1..Len(vs) : vs[k] = Txt(t) /\ \A j \in 1..(k - 1) : vs[j] # Txt(t)]
                   ELSE t)
   ELSE IF IsL(t) THEN Li([k \in 1..Len(Kids(t)) |-> Subst(Kids(t)[k], vs, args)]) ELSE t

\* (concat ...) inside an expanded template becomes one string
RECURSIVE ConcatPass(_)
ConcatPass(t) ==
   IF ~IsL(t) THEN t
   ELSE IF HeadIs(t, "concat") THEN At(JoinTrim(FlatAtoms(Tail(Kids(t)))))
   ELSE Li([k \in 1..Len(Kids(t)) |-> ConcatPass(Kids(t)[k])])

CondNames == {"if-equal", "if-not-equal", "if-in-list", "if-not-in-list"}
RECURSIVE EvalCondSeq(_)
EvalCondOne(t) ==
   IF ~IsL(t) THEN <<t>>
   ELSE IF HeadTxt(t) \in {"if-equal", "if-not-equal"} THEN
        LET ks == Kids(t) IN
        IF Len(ks) < 3 \/ ~IsA(ks[2]) \/ ~IsA(ks[3]) THEN <<Err("comparands must be strings")>>
        ELSE IF (Txt(ks[2]) = Txt(ks[3])) = (HeadTxt(t) = "if-equal")
             THEN EvalCondSeq(SubSeq(ks, 4, Len(ks))) ELSE <<>>
   ELSE IF HeadTxt(t) \in {"if-in-list", "if-not-in-list"} THEN
        LET ks == Kids(t) IN
        IF Len(ks) < 3 \/ ~IsA(ks[2]) \/ ~IsL(ks[3]) THEN <<Err("if-in-list needs a string and a list")>>
        ELSE IF (Txt(ks[2]) \in AtomTexts(ks[3])) = (HeadTxt(t) = "if-in-list")
             THEN EvalCondSeq(SubSeq(ks, 4, Len(ks))) ELSE <<>>
   ELSE <<Li(EvalCondSeq(Kids(t)))>>
EvalCondSeq(xs) == IF xs = <<>> THEN <<>> ELSE EvalCondOne(Head(xs)) \o EvalCondSeq(Tail(xs))

Instantiate(tp, args) ==
   EvalCondSeq([k \in 1..Len(tp.body) |-> ConcatPass(Subst(tp.body[k], tp.vs, args))])

RECURSIVE ExpSeq(_, _)
ExpOne(x, T) ==
   IF ~IsL(x) THEN <<x>>
   ELSE IF HeadTxt(x) \in ExpandNames THEN
        LET ks == Kids(x) IN
        IF Len(ks) < 2 \/ ~IsA(ks[2]) THEN <<Err("template-expand needs a template name")>>
        ELSE LET k == TplIdx(T, Txt(ks[2])) IN
             IF k = 0 THEN <<Err("template name was not defined in any deftemplate")>>
             ELSE IF Len(ks) - 2 # Len(T[k].vs) THEN <<Err("template-expand: wrong number of parameters")>>
             ELSE ExpSeq(Instantiate(T[k], SubSeq(ks, 3, Len(ks))), T)
   ELSE <<Li(ExpSeq(Kids(x), T))>>
ExpSeq(xs, T) == IF xs = <<>> THEN <<>> ELSE ExpOne(Head(xs), T) \o ExpSeq(Tail(xs), T)

ExpandTemplates(items) ==
   LET c == CollectT(items, 1, <<>>) IN
   IF ~c.ok THEN <<Err(c.why)>>
   ELSE LET xs == ExpSeq(items, c.T) IN
        [k \in 1..Len(xs) |-> IF IsA(xs[k]) THEN Err("expansion created a string outside any list") ELSE xs[k]]

\* ------------------------------------------------------------------ Norm, stage 5: what may be at the top level
KnownItems == {"defcfg", "defalias", "defaliasenvcond", "defsrc", "deflayer", "deflayermap", "defoverrides",
               "deflocalkeys-macos", "deflocalkeys-linux", "deflocalkeys-win", "deflocalkeys-winiov2",
               "deflocalkeys-wintercept", "deffakekeys", "defvirtualkeys", "defchords", "defvar", "deftemplate",
               "defchordsv2", "defchordsv2-experimental", "defzippy", "defzippy-experimental", "defseq"}
TopOne(it) ==
   IF IsE(it) THEN it
   ELSE IF HeadIs(it, "include") THEN Err("nested includes are not allowed")
   ELSE IF HeadTxt(it) \notin KnownItems THEN Err("unknown configuration item")
   ELSE it
Pre(cfg) == LET xs == ExpandTemplates(FilterEnv(FilterPlatform(ExpandIncludes(cfg.main, cfg.files))))
            IN [k \in 1..Len(xs) |-> TopOne(xs[k])]

\* ------------------------------------------------------------------ Norm, stage 6: variables
HasVar(V, nm) == \E k \in 1..Len(V) : V[k][1] = nm
VarVal(V, nm) == V[CHOOSE k \in 1..Len(V) : V[k][1] = nm][2]

\* an atom, resolved through chains of atom-valued variables ("resolved at use")
RECURSIVE ResAtom(_, _)
ResAtom(a, V) ==
   IF IsVarRef(Txt(a)) /\ HasVar(V, Rest(Txt(a)))
   THEN LET v == VarVal(V, Rest(Txt(a))) IN IF IsA(v) THEN ResAtom(v, V) ELSE v
   ELSE a

RECURSIVE NVal(_, _)            \* a value that is not an action
NVal(t, V) ==
   IF IsA(t) THEN LET r == ResAtom(t, V) IN IF IsA(r) THEN r ELSE NVal(r, V)
   ELSE IF IsL(t) THEN Li([k \in 1..Len(Kids(t)) |-> NVal(Kids(t)[k], V)]) ELSE t

\* texts of the atoms below xs with variables resolved (concat in defvar)
RECURSIVE FlatRes(_, _)
FlatRes(xs, V) ==
   IF xs = <<>> THEN <<>>
   ELSE LET r == IF IsA(Head(xs)) THEN ResAtom(Head(xs), V) ELSE Head(xs) IN
        (IF IsA(r) THEN <<Txt(r)>> ELSE IF IsL(r) THEN FlatRes(Kids(r), V) ELSE <<>>) \o FlatRes(Tail(xs), V)

RECURSIVE VarPairs(_, _, _)     \* -> [ok, V, why]
VarPairs(ks, k, V) ==
   IF k > Len(ks) THEN [ok |-> TRUE, V |-> V, why |-> ""]
   ELSE IF ~IsA(ks[k]) THEN [ok |-> FALSE, V |-> V, why |-> "variable name must not be a list"]
   ELSE IF k + 1 > Len(ks) THEN [ok |-> FALSE, V |-> V, why |-> "variable name must have a subsequent value"]
   ELSE IF HasVar(V, Txt(ks[k])) THEN [ok |-> FALSE, V |-> V, why |-> "duplicate variable name"]
   ELSE LET v == ks[k + 1]
            val == IF HeadIs(v, "concat") THEN At(JoinTrim(FlatRes(Tail(Kids(v)), V))) ELSE v
        IN VarPairs(ks, k + 2, Append(V, <<Txt(ks[k]), val>>))
RECURSIVE CollectV(_, _, _)
CollectV(items, i, V) ==
   IF i > Len(items) THEN [ok |-> TRUE, V |-> V, why |-> ""]
   ELSE IF ~HeadIs(items[i], "defvar") THEN CollectV(items, i + 1, V)
   ELSE LET r == VarPairs(Kids(items[i]), 2, V) IN IF ~r.ok THEN r ELSE CollectV(items, i + 1, r.V)

\* ------------------------------------------------------------------ Norm, stage 7: aliases, actions
HasAl(A, nm) == \E k \in 1..Len(A) : A[k][1] = nm
AlVal(A, nm) == A[CHOOSE k \in 1..Len(A) : A[k][1] = nm][2]

RECURSIVE NAct(_, _, _)
NActList(t, V, A) ==
   LET r == IF IsA(t) THEN ResAtom(t, V) ELSE t IN
   IF IsL(r) THEN Li([k \in 1..Len(Kids(r)) |-> NAct(Kids(r)[k], V, A)]) ELSE r
NAct(t, V, A) ==
   LET r == IF IsA(t) THEN ResAtom(t, V) ELSE t IN
   IF IsA(r) THEN
       (IF IsAliasRef(Txt(r))
        THEN (IF HasAl(A, Rest(Txt(r))) THEN AlVal(A, Rest(Txt(r))) ELSE Err("referenced unknown alias (order of declarations matters)"))
        ELSE r)
   ELSE IF IsL(r) /\ Len(Kids(r)) >= 1 THEN
       LET ks == Kids(r)  n == Len(ks)
           kind == IF IsA(ks[1]) THEN Kind(Txt(ks[1])) ELSE "none" IN
       Li([k \in 1..n |-> IF k = 1 THEN ks[1]          \* the action name is never a variable
                          ELSE IF k \in ActIdx(kind, n) THEN NAct(ks[k], V, A)
                          ELSE IF k \in ActListIdx(kind, n) THEN NActList(ks[k], V, A)
                          ELSE NVal(ks[k], V)])
   ELSE r

RECURSIVE AliasPairs(_, _, _, _)   \* -> [ok, A, why]
AliasPairs(ks, k, V, A) ==
   IF k > Len(ks) THEN [ok |-> TRUE, A |-> A, why |-> ""]
   ELSE IF ~IsA(ks[k]) THEN [ok |-> FALSE, A |-> A, why |-> "alias names cannot be lists"]
   ELSE IF k + 1 > Len(ks) THEN [ok |-> FALSE, A |-> A, why |-> "found alias without an action"]
   ELSE LET a == NAct(ks[k + 1], V, A) IN
        IF HasErr(a) THEN [ok |-> FALSE, A |-> A, why |-> "alias body refers to an alias that is not defined yet"]
        ELSE IF HasAl(A, Txt(ks[k])) THEN [ok |-> FALSE, A |-> A, why |-> "duplicate alias"]
        ELSE AliasPairs(ks, k + 2, V, Append(A, <<Txt(ks[k]), a>>))
RECURSIVE CollectA(_, _, _, _)
CollectA(items, i, V, A) ==
   IF i > Len(items) THEN [ok |-> TRUE, A |-> A, why |-> ""]
   ELSE IF ~HeadIs(items[i], "defalias") THEN CollectA(items, i + 1, V, A)
   ELSE LET r == AliasPairs(Kids(items[i]), 2, V, A) IN IF ~r.ok THEN r ELSE CollectA(items, i + 1, V, r.A)

\* one top-level item with variables resolved and aliases inlined
NItem(it, V, A) ==
   LET h == HeadTxt(it)  ks == Kids(it)  n == Len(ks)  acts == TopActIdx(it) IN
   IF h \in {"defcfg", "defsrc"} \/ Starts(h, "deflocalkeys") THEN it   \* no variables here (documented)
   ELSE Li([k \in 1..n |-> IF k = 1 THEN ks[1]
                          ELSE IF k \in acts
                               THEN NAct(ks[k], V, IF h \in {"defvirtualkeys", "deffakekeys"} THEN <<>> ELSE A)
                               ELSE NVal(ks[k], V)])

\* ------------------------------------------------------------------ Norm, stage 8: layers as rows over defsrc
SrcKeys(items) == LET S == {i \in 1..Len(items) : HeadIs(items[i], "defsrc")} IN
                  IF S = {} THEN <<>> ELSE Tail(Kids(items[CHOOSE i \in S : \A j \in S : i <= j]))
KeyIdx(src, k) == IF \E j \in 1..Len(src) : src[j] = k THEN CHOOSE j \in 1..Len(src) : src[j] = k ELSE 0
Unmapped == At("<unmapped>")
LayerName(x) == IF IsL(x) /\ Len(Kids(x)) >= 1 THEN Kids(x)[1] ELSE x
LayerOpts(x) == IF IsL(x) /\ Len(Kids(x)) >= 1 THEN Li(Tail(Kids(x))) ELSE Li(<<>>)

\* (deflayermap (name) k1 a1 ...).  docs/config.adoc, deflayermap: the special inputs map "all the keys that are
\* not explicitly mapped in the layer" - `_` those defined in defsrc, `__` those not defined in defsrc, `___` both.
\* The pair list is a map: the position of a wildcard pair among the explicit pairs has no meaning (an explicit
\* pair wins over a wildcard wherever it stands).  `__`/`___` need process-unmapped-keys yes.
\* `other` = the action of the keys outside defsrc that no explicit pair names.
Wild == {"_", "__", "___"}
RECURSIVE MapPairs(_, _, _, _, _, _, _)
MapPairs(ks, k, src, row, extra, used, other) ==
   IF k > Len(ks) THEN <<"ok", row, extra, other>>
   ELSE IF k + 1 > Len(ks) THEN <<"input must be followed by an action">>
   ELSE LET key == ks[k]  a == ks[k + 1]
            Fill == [j \in 1..Len(row) |-> IF row[j] = Unmapped THEN a ELSE row[j]] IN
        IF IsA(key) /\ Txt(key) = "_" THEN
            (IF "_" \in used THEN <<"must have only one use of _ within a layer">>
             ELSE IF "___" \in used THEN <<"must either use _ or ___ within a layer, not both">>
             ELSE MapPairs(ks, k + 2, src, Fill, extra, used \cup {"_"}, other))
        ELSE IF IsA(key) /\ Txt(key) = "__" THEN
            (IF "__" \in used THEN <<"must have only one use of __ within a layer">>
             ELSE IF "___" \in used THEN <<"must either use __ or ___ within a layer, not both">>
             ELSE MapPairs(ks, k + 2, src, row, extra, used \cup {"__"}, a))
        ELSE IF IsA(key) /\ Txt(key) = "___" THEN
            (IF used # {} THEN <<"must have only one of _ / __ with ___, and ___ once, within a layer">>
             ELSE MapPairs(ks, k + 2, src, Fill, extra, used \cup {"___"}, a))
        ELSE LET j == KeyIdx(src, key) IN
             IF j # 0 THEN MapPairs(ks, k + 2, src, [row EXCEPT ![j] = a], extra, used, other)
             ELSE MapPairs(ks, k + 2, src, row, extra \o <<key, a>>, used, other)
NoRepeat(ks) == \A i, j \in {k \in 3..Len(ks) : k % 2 = 1} : (i # j /\ ~(IsA(ks[i]) /\ Txt(ks[i]) \in Wild)) => ks[i] # ks[j]
UsesOuterWild(ks) == \E i \in {k \in 3..Len(ks) : k % 2 = 1} : IsA(ks[i]) /\ Txt(ks[i]) \in {"__", "___"}

\* (defcfg ... process-unmapped-keys yes ...), read from the text
CfgYes(items, opt) == \E i \in 1..Len(items) : HeadIs(items[i], "defcfg") /\
                 \E k \in 2..(Len(Kids(items[i])) - 1) :
                    Kids(items[i])[k] = At(opt) /\ Kids(items[i])[k + 1] = At("yes")
Pum(items) == CfgYes(items, "process-unmapped-keys")

\* a layer: <<"layer", name, options, row over defsrc, explicit pairs outside defsrc, action of all other keys>>.
\* On a key outside defsrc the transparent action `_` is the same as no mapping at all (no block-unmapped-keys here).
NLayer(it, src, pum) ==
   LET ks == Kids(it) IN
   IF Len(ks) < 2 THEN Err("layer needs a name")
   ELSE IF HeadIs(it, "deflayer") THEN
        (IF Len(ks) - 2 # Len(src) THEN Err("layer length does not match defsrc")
         ELSE Li(<<At("layer"), LayerName(ks[2]), LayerOpts(ks[2]), Li(SubSeq(ks, 3, Len(ks))), Li(<<>>), Unmapped>>))
   ELSE IF ~NoRepeat(ks) THEN Err("input key must not be repeated within a layer")
   ELSE IF UsesOuterWild(ks) /\ ~pum THEN Err("must set process-unmapped-keys to yes to use __ / ___")
   ELSE LET r == MapPairs(ks, 3, src, [j \in 1..Len(src) |-> Unmapped], <<>>, {}, Unmapped) IN
        IF r[1] # "ok" THEN Err(r[1])
        ELSE Li(<<At("layer"), LayerName(ks[2]), LayerOpts(ks[2]), Li(r[2]), Li(r[3]),
                  IF r[4] = At("_") THEN Unmapped ELSE r[4]>>)

\* ------------------------------------------------------------------ Norm
REJECT == <<"REJECT">>
Dropped == {"defvar", "defalias", "deftemplate"}
SelectItems(xs) == Cat([k \in 1..Len(xs) |-> IF HeadTxt(xs[k]) \in Dropped THEN <<>> ELSE <<xs[k]>>])

NormWhy(cfg) ==      \* <<"ok", items>> or <<"reject", why>>
   LET pre == Pre(cfg) IN
   IF \E k \in 1..Len(pre) : HasErr(pre[k])
   THEN <<"reject", "pre: " \o (LET k == CHOOSE k \in 1..Len(pre) : HasErr(pre[k]) IN IF IsE(pre[k]) THEN pre[k][2] ELSE "nested error")>>
   ELSE LET cv == CollectV(pre, 1, <<>>) IN
   IF ~cv.ok THEN <<"reject", cv.why>>
   ELSE LET ca == CollectA(pre, 1, cv.V, <<>>) IN
   IF ~ca.ok THEN <<"reject", ca.why>>
   ELSE LET src == SrcKeys(pre)
            plain == SelectItems(pre)
            items == [k \in 1..Len(plain) |->
                        LET it == NItem(plain[k], cv.V, ca.A) IN
                        IF HeadTxt(it) \in {"deflayer", "deflayermap"} /\ ~HasErr(it) THEN NLayer(it, src, Pum(pre)) ELSE it]
        IN IF \E k \in 1..Len(items) : HasErr(items[k]) THEN <<"reject", "unknown alias or ill-formed layer">>
           ELSE <<"ok", items>>

Norm(cfg) == LET r == NormWhy(cfg) IN IF r[1] = "ok" THEN r[2] ELSE REJECT

\* ====================================================================== the abstraction steps
\* A location is <<d, i>>: document d (0 = main text, k = k-th included file), top-level item i.
Doc(cfg, d) == IF d = 0 THEN cfg.main ELSE cfg.files[d][2]
SetDoc(cfg, d, items) == IF d = 0 THEN [cfg EXCEPT !.main = items]
                         ELSE [cfg EXCEPT !.files[d] = <<cfg.files[d][1], items>>]
Docs(cfg) == 0..Len(cfg.files)
Locs(cfg) == UNION {{<<d, i>> : i \in 1..Len(Doc(cfg, d))} : d \in Docs(cfg)}
ItemAt(cfg, loc) == Doc(cfg, loc[1])[loc[2]]
SetItem(cfg, loc, it) == SetDoc(cfg, loc[1], [Doc(cfg, loc[1]) EXCEPT ![loc[2]] = it])
AppendMain(cfg, it) == [cfg EXCEPT !.main = Append(@, it)]

\* an item seen through (platform (.. active ..) item) wrappers: <<path prefix, inner item>>
RECURSIVE Unwrap(_)
Unwrap(it) ==
   IF HeadIs(it, "platform") /\ Len(Kids(it)) = 3 /\ IsL(Kids(it)[3]) /\ IsL(Kids(it)[2])
      /\ At(Platform) \in {Kids(Kids(it)[2])[k] : k \in 1..Len(Kids(Kids(it)[2]))}
   THEN LET u == Unwrap(Kids(it)[3]) IN <<<<3>> \o u[1], u[2]>>
   ELSE <<<<>>, it>>
Inner(it) == Unwrap(it)[2]
Pfx(it) == Unwrap(it)[1]

\* action sites of an item (paths from the item)
ActPaths(it) ==
   LET in == Inner(it) IN
   UNION {{Pfx(it) \o <<k>> \o q : q \in SubActPaths(Kids(in)[k])} : k \in TopActIdx(in)}
\* value sites of an item: the actions, and every argument below them that is not an action name
ValPaths(it) ==
   LET in == Inner(it)  h == HeadTxt(in) IN
   IF h \in {"defseq", "defoverrides"}
   THEN UNION {{Pfx(it) \o <<k>>} \cup {Pfx(it) \o <<k>> \o q : q \in ValSub(Kids(in)[k], "data")} : k \in 2..Len(Kids(in))}
   ELSE UNION {{Pfx(it) \o <<k>>} \cup {Pfx(it) \o <<k>> \o q : q \in ValSub(Kids(in)[k], "act")} : k \in TopActIdx(in)}

AliasHosts == {"deflayer", "deflayermap", "defalias", "defchords", "defchordsv2"}
VarHosts == {"deflayer", "deflayermap", "defalias", "defchords", "defchordsv2", "defvirtualkeys", "deffakekeys", "defseq", "defoverrides"}
TplHosts == VarHosts \cup {"defcfg", "defsrc", "defvar"}
NotStandalone == {At("reverse-release-order")}     \* only valid inside multi (documented)

Num(n) == ToString(n)

\* --- name the action at site p with a fresh alias (docs: Aliases)
\* In a defalias the new pair goes right before the pair that contains the site (aliases may refer
\* to aliases defined earlier); elsewhere a new (defalias n a) is appended to the main text.
CanAlias(cfg, loc, p) ==
   /\ HeadTxt(Inner(ItemAt(cfg, loc))) \in AliasHosts
   /\ p \in ActPaths(ItemAt(cfg, loc))
   /\ GetP(ItemAt(cfg, loc), p) \notin NotStandalone
   /\ HeadTxt(GetP(ItemAt(cfg, loc), p)) \notin ExpandNames      \* an expansion may splice several items
StepAlias(cfg, loc, p, n) ==
   LET it == ItemAt(cfg, loc)
       a == GetP(it, p)
       nm == "zA" \o Num(n)
       it2 == PutP(it, p, At("@" \o nm)) IN
   IF HeadIs(Inner(it), "defalias")
   THEN LET pf == Pfx(it)
            k == p[Len(pf) + 1]                  \* index of the action of the pair inside the defalias
            in2 == GetP(it2, pf)
            ks == Kids(in2)
            in3 == Li(SubSeq(ks, 1, k - 2) \o <<At(nm), a>> \o SubSeq(ks, k - 1, Len(ks)))
        IN SetItem(cfg, loc, PutP(it2, pf, in3))
   ELSE AppendMain(SetItem(cfg, loc, it2), Li(<<At("defalias"), At(nm), a>>))

\* --- name a value (string or list) with a fresh variable (docs: Variables)
CanVar(cfg, loc, p) ==
   /\ HeadTxt(Inner(ItemAt(cfg, loc))) \in VarHosts
   /\ p \in ValPaths(ItemAt(cfg, loc))
   /\ HeadTxt(GetP(ItemAt(cfg, loc), p)) \notin ExpandNames \cup {"concat"}
StepVar(cfg, loc, p, n) ==
   LET it == ItemAt(cfg, loc)
       v == GetP(it, p)
       nm == "zV" \o Num(n) IN
   AppendMain(SetItem(cfg, loc, PutP(it, p, At("$" \o nm))), Li(<<At("defvar"), At(nm), v>>))

\* --- wrap the shape at site p in a template; q = <<>>: no parameter, otherwise the subtree at q
\* (an atom or a LIST) becomes the argument (docs: Templates).  p = <<>> wraps the whole item.
TplSites(it) == IF HeadTxt(Inner(it)) \in TplHosts
                THEN {Pfx(it)} \cup (IF HeadTxt(Inner(it)) \in VarHosts THEN ActPaths(it) ELSE {}) ELSE {}
CanTpl(cfg, loc, p, q) ==
   /\ p \in TplSites(ItemAt(cfg, loc))
   /\ q \in AllPaths(GetP(ItemAt(cfg, loc), p))
   \* the name of a template expansion inside the shape is checked when the template is defined
   /\ ~(Len(q) >= 1 /\ q[Len(q)] = 2
        /\ HeadTxt(GetP(GetP(ItemAt(cfg, loc), p), SubSeq(q, 1, Len(q) - 1))) \in ExpandNames)
StepTpl(cfg, loc, p, q, n) ==
   LET it == ItemAt(cfg, loc)
       shape == GetP(it, p)
       nm == "zT" \o Num(n)
       body == IF q = <<>> THEN shape ELSE PutP(shape, q, At("$zp"))
       params == IF q = <<>> THEN <<>> ELSE <<At("zp")>>
       args == IF q = <<>> THEN <<>> ELSE <<GetP(shape, q)>>
       call == Li(<<At(IF n % 2 = 0 THEN "t!" ELSE "template-expand"), At(nm)>> \o args) IN
   AppendMain(SetItem(cfg, loc, PutP(it, p, call)), Li(<<At("deftemplate"), At(nm), Li(params), body>>))

\* --- two different actions of one item as one template with conditional content (docs: if-equal ...)
CanCond(cfg, loc, p1, p2) ==
   /\ HeadTxt(Inner(ItemAt(cfg, loc))) \in VarHosts
   /\ p1 \in ActPaths(ItemAt(cfg, loc)) /\ p2 \in ActPaths(ItemAt(cfg, loc))
   /\ ~IsPrefix(p1, p2) /\ ~IsPrefix(p2, p1)
StepCond(cfg, loc, p1, p2, inlist, n) ==
   LET it == ItemAt(cfg, loc)
       s1 == GetP(it, p1)  s2 == GetP(it, p2)
       nm == "zT" \o Num(n)
       body == IF inlist
               THEN <<Li(<<At("if-in-list"), At("$zp"), Li(<<At("k1"), At("k3")>>), s1>>),
                      Li(<<At("if-not-in-list"), At("$zp"), Li(<<At("k1"), Li(<<At("k3")>>)>>), s2>>)>>
               ELSE <<Li(<<At("if-equal"), At("$zp"), At("k1"), s1>>),
                      Li(<<At("if-not-equal"), At("k1"), At("$zp"), s2>>)>>
       it2 == PutP(PutP(it, p1, Li(<<At("t!"), At(nm), At("k1")>>)), p2, Li(<<At("template-expand"), At(nm), At("k2")>>)) IN
   AppendMain(SetItem(cfg, loc, it2), Li(<<At("deftemplate"), At(nm), Li(<<At("zp")>>)>> \o body))

\* --- nested conditional content (docs: deftemplate, if-equal / if-not-equal / if-in-list / if-not-in-list):
\* the shape at site p becomes a template in which the sub-list e at q1 stands inside an OUTER conditional and the
\* element at q2 of e stands inside an INNER conditional, i.e. a conditional in the body of a conditional.
\*   q1 = <<>>            the outer conditional is a direct child of the template body ("top")
\*   q1 # <<>>            it sits inside a list of the body (p = whole item: the body is a (deflayer ...) / (defalias ...)
\*                        item; p = an action: inside (multi ...) / (tap-hold ...) ...)
\*   k1, k2 \in 1..4      which of the four forms the outer / inner conditional is
\*   t1, t2               truth of the outer / inner condition for the arguments of the call; a true one wraps
\*                        the content, a false one is put in front of the content as a copy that must vanish
CondT(k, v, xs) ==
   CASE k = 1 -> Li(<<At("if-equal"), At(v), At("k1")>> \o xs)
     [] k = 2 -> Li(<<At("if-not-equal"), At("k2"), At(v)>> \o xs)
     [] k = 3 -> Li(<<At("if-in-list"), At(v), Li(<<At("k1"), At("k3")>>)>> \o xs)
     [] OTHER -> Li(<<At("if-not-in-list"), At(v), Li(<<At("k2"), Li(<<At("k3")>>)>>)>> \o xs)
CondF(k, v, xs) ==
   CASE k = 1 -> Li(<<At("if-equal"), At(v), At("k2")>> \o xs)
     [] k = 2 -> Li(<<At("if-not-equal"), At(v), At("k1")>> \o xs)
     [] k = 3 -> Li(<<At("if-in-list"), At(v), Li(<<At("k2"), At("k3")>>)>> \o xs)
     [] OTHER -> Li(<<At("if-not-in-list"), At(v), Li(<<At("k3"), Li(<<At("k1")>>)>>)>> \o xs)
\* the element at the non-empty path p of t replaced by the sequence xs (spliced into its parent list)
RECURSIVE SpliceP(_, _, _)
SpliceP(t, p, xs) ==
   IF Len(p) = 1 THEN Li(SubSeq(Kids(t), 1, p[1] - 1) \o xs \o SubSeq(Kids(t), p[1] + 1, Len(Kids(t))))
   ELSE Li([Kids(t) EXCEPT ![p[1]] = SpliceP(Kids(t)[p[1]], Tail(p), xs)])
NoSpliceParents == ExpandNames \cup CondNames \cup {"concat"}   \* lists whose elements are not plain content
CanNest(cfg, loc, p, q1, q2) ==
   /\ p \in TplSites(ItemAt(cfg, loc))
   /\ LET shape == GetP(ItemAt(cfg, loc), p) IN
      /\ q1 \in AllPaths(shape) /\ IsL(GetP(shape, q1))
      /\ q2 # <<>> /\ q2 \in AllPaths(GetP(shape, q1))
      /\ \A m \in 0..(Len(q1) + Len(q2) - 1) : HeadTxt(GetP(shape, SubSeq(q1 \o q2, 1, m))) \notin NoSpliceParents
StepNest(cfg, loc, p, q1, q2, k1, k2, t1, t2, n) ==
   LET it == ItemAt(cfg, loc)
       shape == GetP(it, p)
       e == GetP(shape, q1)
       e2 == GetP(e, q2)
       nm == "zT" \o Num(n)
       inner == IF t2 THEN <<CondT(k2, "$zd", <<e2>>)>> ELSE <<CondF(k2, "$zd", <<e2>>), e2>>
       eN == SpliceP(e, q2, inner)
       outer == IF t1 THEN <<CondT(k1, "$zc", <<eN>>)>> ELSE <<CondF(k1, "$zc", <<eN>>), e>>
       body == Kids(SpliceP(Li(<<shape>>), <<1>> \o q1, outer))
       call == Li(<<At(IF n % 2 = 0 THEN "t!" ELSE "template-expand"), At(nm), At("k1"), At("k1")>>) IN
   AppendMain(SetItem(cfg, loc, PutP(it, p, call)), Li(<<At("deftemplate"), At(nm), Li(<<At("zc"), At("zd")>>)>> \o body))

\* --- move a top-level item of the main text into a new included file (docs: Include other files)
CanInclude(cfg, i) ==
   /\ i \in 1..Len(cfg.main)
   /\ ~HeadIs(cfg.main[i], "include")          \* included files cannot contain includes themselves
StepInclude(cfg, i, n) ==
   LET nm == "zf" \o Num(n) \o ".kbd" IN
   [main |-> [cfg.main EXCEPT ![i] = Li(<<At("include"), At(nm)>>)],
    files |-> Append(cfg.files, <<nm, <<cfg.main[i]>>>>)]

\* --- wrap an item in (platform (<active> ...) item) (docs: Platform-specific configuration)
CanPlatform(cfg, loc) ==
   /\ HeadTxt(ItemAt(cfg, loc)) \notin {"include", "platform", "environment"}
StepPlatform(cfg, loc, variant) ==
   LET pf == CASE variant = 1 -> <<At(Platform)>>
               [] variant = 2 -> <<At("macos"), At(Platform)>>
               [] OTHER -> <<At(Platform), At("win")>> IN
   SetItem(cfg, loc, Li(<<At("platform"), Li(pf), ItemAt(cfg, loc)>>))

\* --- a deflayer as the equivalent deflayermap (docs: deflayermap)
\* defsrc is looked up textually (possibly under an active platform wrapper); the step applies
\* when the layer has exactly one item per defsrc key and none of them is a template expansion.
AllItems(cfg) == Cat([d \in 1..(Len(cfg.files) + 1) |-> Doc(cfg, d - 1)])
RawSrc(cfg) == LET xs == AllItems(cfg)  S == {i \in 1..Len(xs) : HeadIs(Inner(xs[i]), "defsrc")} IN
               IF Cardinality(S) # 1 THEN <<Err("no unique defsrc")>>
               ELSE Tail(Kids(Inner(xs[CHOOSE i \in S : TRUE])))
CanLayerMap(cfg, loc) ==
   LET in == Inner(ItemAt(cfg, loc))  src == RawSrc(cfg) IN
   /\ HeadIs(in, "deflayer")
   /\ \A k \in 1..Len(src) : IsA(src[k])
   /\ Len(Kids(in)) - 2 = Len(src)
   /\ \A k \in 3..Len(Kids(in)) : HeadTxt(Kids(in)[k]) \notin ExpandNames
StepLayerMap(cfg, loc) ==
   LET it == ItemAt(cfg, loc)  in == Inner(it)  src == RawSrc(cfg)  ks == Kids(in)
       nm == IF IsL(ks[2]) THEN ks[2] ELSE Li(<<ks[2]>>)
       in2 == Li(<<At("deflayermap"), nm>> \o Cat([k \in 1..Len(src) |-> <<src[k], ks[k + 2]>>])) IN
   SetItem(cfg, loc, PutP(it, Pfx(it), in2))
\* --- a deflayer as a deflayermap with a wildcard pair (docs: deflayermap, special input names)
\*   w = "_"   : the defsrc keys of the set G, which all carry one action v, are not listed; `_ v` stands for them
\*   w = "__"  : every defsrc key is listed; `__ _` (transparent, as in the deflayer) stands for the keys outside defsrc
\*   w = "___" : the keys of G carry `_` and are not listed; `___ _` stands for them and for the keys outside defsrc
\* pos \in 0..(number of listed keys): the wildcard pair stands after `pos` explicit pairs - first, middle or last;
\* the documentation gives the position no meaning.  `__`/`___` need (defcfg process-unmapped-keys yes).
RawPum(cfg) == LET xs == AllItems(cfg) IN Pum([i \in 1..Len(xs) |-> Inner(xs[i])])
\* with (defcfg block-unmapped-keys yes) an unlisted key outside defsrc is blocked, not transparent: `__ _` would
\* change the layer, so the `__` / `___` variants are offered only without it
RawBlk(cfg) == LET xs == AllItems(cfg) IN CfgYes([i \in 1..Len(xs) |-> Inner(xs[i])], "block-unmapped-keys")
CanLayerMapW(cfg, loc, w, G, pos) ==
   /\ CanLayerMap(cfg, loc)
   /\ LET ks == Kids(Inner(ItemAt(cfg, loc)))  src == RawSrc(cfg) IN
      /\ G \subseteq 1..Len(src)
      /\ \A i, j \in 1..Len(src) : i # j => src[i] # src[j]
      /\ pos \in 0..(Len(src) - Cardinality(G))
      /\ CASE w = "_"   -> G # {} /\ \A i, j \in G : ks[i + 2] = ks[j + 2]
           [] w = "__"  -> G = {} /\ RawPum(cfg) /\ ~RawBlk(cfg)
           [] w = "___" -> RawPum(cfg) /\ ~RawBlk(cfg) /\ \A i \in G : ks[i + 2] = At("_")
           [] OTHER -> FALSE
RECURSIVE ListedPairs(_, _, _, _)
ListedPairs(src, ks, G, k) == IF k > Len(src) THEN <<>>
                              ELSE (IF k \in G THEN <<>> ELSE <<<<src[k], ks[k + 2]>>>>) \o ListedPairs(src, ks, G, k + 1)
StepLayerMapW(cfg, loc, w, G, pos) ==
   LET it == ItemAt(cfg, loc)  in == Inner(it)  src == RawSrc(cfg)  ks == Kids(in)
       nm == IF IsL(ks[2]) THEN ks[2] ELSE Li(<<ks[2]>>)
       v == IF w = "_" THEN ks[(CHOOSE i \in G : \A j \in G : i <= j) + 2] ELSE At("_")
       ps == ListedPairs(src, ks, G, 1)
       all == SubSeq(ps, 1, pos) \o << <<At(w), v>> >> \o SubSeq(ps, pos + 1, Len(ps))
       in2 == Li(<<At("deflayermap"), nm>> \o Cat(all)) IN
   SetItem(cfg, loc, PutP(it, Pfx(it), in2))
=============================================================================
