---------------------------------- MODULE SeqTab ----------------------------------
(***************************************************************************)
(* C12 part 1: what a `defseq` table means and when it may be accepted.    *)
(* (The design calls this module "Sequences.tla"; that name is taken by    *)
(* the TLA+ standard module, hence SeqTab.)                                  *)
(*                                                                         *)
(* Written from the statement and docs/config.adoc "Sequences" /            *)
(* "Overlapping keys in any order"; the u16 token values are those of        *)
(* parser/src/sequences.rs so that the key set can be compared with the      *)
(* trie the real parser builds.                                              *)
(*                                                                         *)
(* A definition is a sequence of items:                                      *)
(*   [t |-> "k", c |-> code]                         a plain key             *)
(*   [t |-> "m", mods |-> Seq(code), ks |-> Seq(code)]  S-a, C-S-a, S-(a b): *)
(*        the modifiers are pressed in order and stay held while the keys    *)
(*        are pressed in order                                               *)
(*   [t |-> "o", ks |-> Seq(code)]                   O-(a b ..): all keys    *)
(*        pressed before any is released, in any order                      *)
(* A table is a sequence of definitions; definition i activates virtual      *)
(* key number i-1.                                                           *)
(***************************************************************************)
EXTENDS Naturals, Sequences, FiniteSets, TLC

StMarker == 1024          \* src: parser/src/sequences.rs:6 KEY_OVERLAP_MARKER 0x0400
\* src: parser/src/sequences.rs:8-27 mod_mask_for_keycode
StModMask(kc) == CASE kc \in {42, 54} -> 32768       \* LShift | RShift  0x8000
                   [] kc \in {29, 97} -> 16384       \* LCtrl | RCtrl    0x4000
                   [] kc = 56 -> 8192                \* LAlt             0x2000
                   [] kc = 100 -> 4096               \* RAlt             0x1000
                   [] kc \in {125, 126} -> 2048      \* LGui | RGui      0x0800
                   [] OTHER -> 0

\* src: parser/src/cfg/mod.rs parse_sequence_keys (fix efb3afa) and src/kanata/sequences.rs:112-117: the right-hand
\* shift, meta and ctrl keys count as their left-hand counterparts, in the table and in what is typed
StFold(c) == CASE c = 54 -> 42 [] c = 126 -> 125 [] c = 97 -> 29 [] OTHER -> c

StSetOf(s) == {s[i] : i \in DOMAIN s}
StIsPrefix(s, t) == Len(s) <= Len(t) /\ SubSeq(t, 1, Len(s)) = s

RECURSIVE StPerms(_)
StPerms(S) == IF S = {} THEN {<<>>} ELSE UNION {{<<x>> \o p : p \in StPerms(S \ {x})} : x \in S}

RECURSIVE StMaskSum(_, _)
\* the mask of the first n modifiers of the list (each modifier kind counted once)
StMaskSum(mods, n) ==
  IF n = 0 THEN 0
  ELSE LET m == StModMask(mods[n])
           seen == \E j \in 1..(n - 1) : StModMask(mods[j]) = m
       IN StMaskSum(mods, n - 1) + (IF seen THEN 0 ELSE m)

\* the ways one item can be typed, as token strings
StItemEnc(it) ==
  CASE it.t = "k" -> {<<StFold(it.c)>>}
    [] it.t = "m" ->
         LET nm == Len(it.mods)
             all == StMaskSum(it.mods, nm)
         IN {[i \in 1..(nm + Len(it.ks)) |->
                IF i <= nm THEN StFold(it.mods[i]) + StMaskSum(it.mods, i) ELSE StFold(it.ks[i - nm]) + all]}
    [] it.t = "o" ->
         LET n == Len(it.ks) IN
         {[i \in 1..(n + 1) |-> IF i <= n THEN StFold(p[i]) + StMarker ELSE StMarker] : p \in StPerms(StSetOf(it.ks))}

RECURSIVE StEncode(_)
\* every permitted way of typing the definition
StEncode(def) ==
  IF def = <<>> THEN {<<>>}
  ELSE {h \o r : h \in StItemEnc(Head(def)), r \in StEncode(Tail(def))}

\* documented arity rules: a non-empty key list; O-(...) lists of 2..6 distinct keys
StArityOk(def) ==
  /\ def # <<>>
  /\ \A i \in DOMAIN def : def[i].t = "o" =>
        /\ Len(def[i].ks) >= 2 /\ Len(def[i].ks) <= 6
        /\ Cardinality(StSetOf(def[i].ks)) = Len(def[i].ks)

\* no way of typing one definition is a prefix of (or equal to) a way of typing another
StPrefixFree(table) ==
  LET enc == [i \in DOMAIN table |-> StEncode(table[i])] IN
  \A i, j \in DOMAIN table : i # j =>
     \A s \in enc[i] : \A t \in enc[j] : ~StIsPrefix(s, t)

StAccepts(table) == (\A i \in DOMAIN table : StArityOk(table[i])) /\ StPrefixFree(table)

\* the keys an accepting parser must know: [k |-> token string, v |-> virtual key number]
StKeys(table) == UNION {{[k |-> s, v |-> i - 1] : s \in StEncode(table[i])} : i \in DOMAIN table}

\* prefix-freedom of a key set as such (used on the trie dumped from the real parser)
StPrefixFreeSet(K) == \A s, t \in K : s # t => ~StIsPrefix(s, t)

(***************************************************************************)
(* L1: the insertion procedure of parse_sequences (parser/src/cfg/mod.rs    *)
(* 3523-3628) over a trie modelled as a set of entries.  The order in which *)
(* the permutations of one definition are inserted (Heap's algorithm) does   *)
(* not influence the outcome: they have equal length and are distinct.       *)
(***************************************************************************)
\* src: parser/src/trie.rs ancestor_exists (a stored key is a prefix of p, or equal)
StAncestorExists(trie, p) == \E e \in trie : StIsPrefix(e.k, p)
\* src: parser/src/trie.rs descendant_exists (p is a prefix of a stored key, or equal)
StDescendantExists(trie, p) == \E e \in trie : StIsPrefix(p, e.k)

RECURSIVE StInsertPerms(_, _, _)
\* returns [ok, trie]
StInsertPerms(trie, ps, v) ==
  IF ps = {} THEN [ok |-> TRUE, trie |-> trie]
  ELSE LET p == CHOOSE x \in ps : TRUE IN
       IF StAncestorExists(trie, p) \/ StDescendantExists(trie, p) THEN [ok |-> FALSE, trie |-> trie]
       ELSE StInsertPerms(trie \cup {[k |-> p, v |-> v]}, ps \ {p}, v)

RECURSIVE StInsertDefs(_, _, _)
StInsertDefs(trie, table, i) ==
  IF i > Len(table) THEN [ok |-> TRUE, trie |-> trie]
  ELSE IF ~StArityOk(table[i]) THEN [ok |-> FALSE, trie |-> trie]
  ELSE LET r == StInsertPerms(trie, StEncode(table[i]), i - 1) IN
       IF ~r.ok THEN r ELSE StInsertDefs(r.trie, table, i + 1)

StParse(table) == StInsertDefs({}, table, 1)

\* design-level theorem checked by TLC on every enumerated table
StParseCorrect(table) ==
  LET r == StParse(table) IN
  /\ r.ok <=> StAccepts(table)
  /\ r.ok => r.trie = StKeys(table)

(***************************************************************************)
(* Judgement of what the real parser did with a table.                       *)
(*   real = [ok |-> BOOLEAN, keys |-> Seq([k |-> Seq(token), v |-> Nat])]     *)
(* returns "" (fine), "V:..." (forbidden by the statement), "N:..." (note),   *)
(* or "D:..." (differs from the model: drift).                                *)
(***************************************************************************)
StJudge(table, real) ==
  LET acc == StAccepts(table)
      rk == {[k |-> real.keys[i].k, v |-> real.keys[i].v] : i \in DOMAIN real.keys}
  IN IF real.ok /\ ~(\A i \in DOMAIN table : StArityOk(table[i]))
     THEN "N:an O-(...) list outside the documented 2..6 keys was accepted"
     ELSE IF real.ok /\ ~acc
     THEN "V:C12: the parser accepted a defseq table in which one sequence is a prefix of another"
     ELSE IF real.ok /\ ~StPrefixFreeSet({e.k : e \in rk})
     THEN "V:C12: the trie built by the parser is not prefix-free"
     ELSE IF ~real.ok /\ acc THEN "N:an unambiguous table was rejected"
     ELSE IF real.ok /\ rk # StKeys(table) THEN "D:the trie differs from the permitted orderings of the table"
     ELSE ""
=============================================================================
