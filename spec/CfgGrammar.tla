----------------------------- MODULE CfgGrammar -----------------------------
(* C03: grammar-generated near-valid configurations.  The vocabulary (every list-action name,
   top-level form name, defcfg option and other keyword the parser knows; extracted from the
   parser's source by the tools, one {"n": name, "c": "action" | "word"} per line of the file named
   by the environment variable VOCAB) is combined with every argument list of up to MaxArgs
   arguments (MaxArgs3 for list actions in action position) over a small argument alphabet, in
   every syntactic context a name can stand in: this is the "list action with 0..n+1 arguments of
   the wrong and the right kinds" sweep.  One line per (name, context, arguments); the tools only put
   the form into the context's frame. *)
EXTENDS Naturals, Sequences, TLC, Json, IOUtils
CONSTANTS MaxArgs, MaxArgs3
Vocab == ndJsonDeserialize(IOEnv.VOCAB)
A(t) == [a |-> t, k |-> "name"]
L(c) == [l |-> c]
\* a key, a number, the empty list, a list, a defined alias, a defined variable, a string, an unknown name
Args == << A("a"), A("1"), L(<<>>), L(<<A("a"), A("b")>>), A("@kvk"), A("$kvv"), A("\"s t\""), A("zz") >>
Contexts(c) == IF c = "action" THEN {"action", "multi", "switch", "template", "top"}
               ELSE {"action", "top", "defcfg", "zippy", "layeropt"}
VARIABLES v, ctx, args
Init == v \in 1..Len(Vocab) /\ ctx \in Contexts(Vocab[v].c) /\ args = <<>>
Limit == IF Vocab[v].c = "action" /\ ctx = "action" THEN MaxArgs3 ELSE MaxArgs
Next == /\ Len(args) < Limit
        /\ \E i \in 1..Len(Args) : args' = Append(args, Args[i])
        /\ UNCHANGED <<v, ctx>>
Emit == PrintT(<<"GEN", ToJson([n |-> Vocab[v].n, ctx |-> ctx, args |-> args])>>)
=============================================================================
